"""C09 - level_limit yields the quotient graph and preserves verdicts above the limit.

  C09.R1  every node name that reaches the networkx graph during construction (any call on the graph object, membership, subscripts)
          has passed a truncation that was *verified* by C09.R3 - found by data flow from the constructor's module list and from the
          accessors of `Import`, never by the name of a helper.  Loop targets are bound strongly inside the loop body (`LoopFlow`); a
          may-flow finding is reported only if the values observed at that sink while the constructor is evaluated (C09.R6) do not
          contradict it (all of them truncated names, for every limit)
  C09.R2  every edge insertion is guarded by `start != end` on exactly the (flattened) values that are inserted; any other test of the
          construction code that depends on the limit and decides about a pair of names is tabulated and must be 'both flatten to the
          same node' (or its negation) - not a string-prefix relation; whether an edge is inserted never depends on reachability
          (has_path & co.) between its ends
  C09.R3  whatever turns a raw name into a graph node (method, module-level function, functools.partial, lambda, conditional
          expression) is tabulated over a finite table of names and limits: identity without a limit, the first limit+1 dotted
          components otherwise; neither it nor the construction code keeps node names in state shared between graphs.  The names come
          from the pool, from an idealised Import and (extra rounds) from records of the concrete Import classes, constructed in the
          evaluator (a RelativeImport's parents list is not the prefix chain of its importee); a list of names may also be the quotient
          of a chain (`(parents + [name])[: limit + 1]`); raw locals with one definition are evaluated through it
  C09.R4  tabulated from the public entry points down to the constructor call: the limit the graph receives is the user's limit plus the
          number of levels between root_path and module_path; None stays None; no offset when the paths coincide; a second call for
          the same paths with another limit (evaluated on the module / class state the first call left) constructs its own graph
  C09.R5  the limit acts through the truncation only: an import (a module) is withheld from the graph because of the limit only if
          the graph would drop it anyway (both ends flatten to the same node)
  C09.R6  the constructor evaluated on model modules / imports (absolute and relative, as the concrete Import classes hand them out) and a
          model of the networkx graph: nodes, import edges and parent-child edges with a limit are the truncated ones of the graph built
          without a limit; not decided (an observation) when the construction cannot be evaluated

Anchors: the public class `NetworkxGraph` and its constructor signature, the abstract accessors of `Import`, the public functions
`get_evaluable_architecture*`, the type of the networkx object, literals.  Private helpers are found by role (reachability, data flow,
tabulated meaning).
"""

from __future__ import annotations

import ast
from pathlib import PurePosixPath

from core.effects import Effects
from core.flow import Flow, Spec
from core.guards import atom, atoms_of, f_not, implies
from core.loader import AnalysisError, ClassInfo, FuncInfo, Repo, ancestors, header, norm, own_nodes, parent
from core.report import Result
from core.types import elem_type, members

from .c09_eval import POISON, Env, Evaluator, Frame, NativeObj, Obj, Partial, Raised, Unknown
from .common import callees_of, conds, guard_formula, reachable_funcs, stmt_of, types_of, where

NXGRAPH = "pytestarch.eval_structure.networkxgraph"
GRAPH_CLASS = "NetworkxGraph"
ENTRY_MODULE = "pytestarch.pytestarch"
ENTRIES = ("get_evaluable_architecture", "get_evaluable_architecture_for_module_objects")
GG = "pytestarch.eval_structure_generation.graph_generation.graph_generator"
IMPORT_CLASS = "pytestarch.eval_structure.types.Import"

LIMITS = (None, 1, 2, 3, 4, 7)
# test names; consecutive entries are handed to the two ends of a pair: textual-prefix siblings (api / api_v2), names that flatten to the same
# node up to some level, parent / child, repeated and prefix-of-each-other parts (models / model)
NAME_POOL = (
    "proj.core.api.handlers.h", "proj.core.api_v2.schema.s", "proj.core.api.models.user", "proj.core.api.handlers.v2", "x",
    "pkg.models.model.m.n", "a.b.a.b.c.a.b", "proj.core", "proj.core.api", "k.l.m.n.o.p.q.r.s", "proj.a.__init__", "Pkg.Mod_1.sub2.__main__",
)
EDGE_ADDERS = {"add_edge"}
BULK_EDGE_ADDERS = {"add_edges_from", "add_weighted_edges_from", "add_path", "add_cycle", "add_star", "update"}


def _prefixes(name: str) -> list[str]:
    parts = name.split(".")
    return [".".join(parts[:i]) for i in range(1, len(parts))]


# filled by import_records(): how to build a real object of a concrete Import class whose accessors follow the idealised model
# ((class, constructor argument template with "<a>" / "<b>" for importer / importee)), and the evaluator objects behind the records
_IDEAL_IMPORT: dict[int, tuple] = {}
_RECORD_OBJS: dict[tuple, object] = {}


def _model_import(importer: str, importee: str, cx: "Ctx | None" = None):
    """An import `importer -> importee` whose parents lists are the prefix chains: an object of a concrete Import class of the analysed
    code, built in the evaluator (so that every method of the class, old or new, means what its code says), or - when no class can be
    built that way - a model of the abstract `Import` API (the four accessors)."""
    ideal = _IDEAL_IMPORT.get(id(cx.repo)) if cx is not None else None
    if ideal is not None:
        cls, template = ideal
        try:
            o = Evaluator(cx.repo, tolerant=True)._construct(cls, [importer if x == "<a>" else importee if x == "<b>" else x for x in template], {})
            if isinstance(o, Obj):
                return o
        except (Unknown, Raised):
            pass
    return NativeObj(
        f"<Import {importer} -> {importee}>",
        {"importer": lambda: importer, "importee": lambda: importee, "importer_parent_modules": lambda: _prefixes(importer), "importee_parent_modules": lambda: _prefixes(importee)},
    )


def _record_import(rec: tuple):
    """An `Import` as one of the concrete classes of the analysed code produces it (see `import_records`): the evaluator object itself."""
    importer, importee, ip, ep, label = rec
    if rec in _RECORD_OBJS:
        return _RECORD_OBJS[rec]
    return NativeObj(
        f"<{label} {importer} -> {importee}>",
        {"importer": lambda: importer, "importee": lambda: importee, "importer_parent_modules": lambda: list(ip), "importee_parent_modules": lambda: list(ep)},
    )


ACCESSORS = ("importer", "importee", "importer_parent_modules", "importee_parent_modules")


def import_records(cx: "Ctx", ev: Evaluator) -> tuple[list[tuple], list[str]]:
    """What the accessors of the concrete `Import` classes return, tabulated by constructing them (in the evaluator) from their annotated
    constructor parameters: (importer, importee, importer parents, importee parents, class name).  Only records that differ from the
    idealised model (`*_parent_modules()` = all proper dotted prefixes of the name) are returned - today: relative imports, whose
    importee parents are those of the *relative* name.  Second result: classes that could not be tabulated."""
    repo = cx.repo
    recs: list[tuple] = []
    failed: list[str] = []
    seen: set = set()
    classes: list[ClassInfo] = []
    for fq in sorted(cx.import_classes):
        ci = repo.classes.get(fq)
        if ci is None:
            continue
        for c in [ci, *repo.subclasses(ci)]:
            if c not in classes:
                classes.append(c)
    for c in classes:
        meths = [repo.lookup_method(c, a) for a in ACCESSORS]
        if any(m is None or m.is_abstract for m in meths):
            continue  # abstract: never instantiated
        init = repo.lookup_method(c, "__init__")
        if init is None:
            failed.append(f"{c.name}: no constructor")
            continue
        params = init.param_names[1:]
        got = 0
        for i in range(0, 8, 2):
            a, b = NAME_POOL[i], NAME_POOL[i + 1]
            tails = [".".join(b.split(".")[-3:]), ".".join(b.split(".")[-2:]), b.split(".")[-1]]  # relative names with 2, 1, 0 parents of their own
            choices: list[list] = []
            n_str = 0
            for p in params:
                ks = {m[1] for m in members(cx.T.param_type(init, p)) if m[0] == "b"}
                if "str" in ks:
                    if n_str == 0 and "none" not in ks:
                        choices.append([a])
                    elif "none" in ks:
                        choices.append([*tails, None])
                    else:
                        choices.append([b, tails[0]])
                    n_str += 1
                elif "int" in ks:
                    choices.append([1, 2, 4])  # (a relative import climbing 4 levels leaves the importer's second-level package)
                elif "none" in ks:
                    choices.append([None])
                elif "bool" in ks:
                    choices.append([False, True])
                else:
                    choices = []
                    break
            if not choices and params:
                failed.append(f"{c.name}: constructor parameter types are not understood")
                break
            import itertools

            for combo in itertools.islice(itertools.product(*choices), 120):
                try:
                    o = ev._construct(c, list(combo), {})
                    fr = Frame(None, c.module, Env({}))
                    vals = [ev.apply(ev.getattr(o, acc, fr), [], {}) for acc in ACCESSORS]
                except Raised:
                    continue  # this combination is rejected by the constructor
                except Unknown:
                    continue
                if not (isinstance(vals[0], str) and isinstance(vals[1], str) and all(isinstance(v, list) and all(isinstance(x, str) for x in v) for v in vals[2:])):
                    continue
                got += 1
                if vals[2] == _prefixes(vals[0]) and vals[3] == _prefixes(vals[1]):
                    if vals[0] == a and vals[1] == b and list(combo).count(a) == 1 and list(combo).count(b) == 1 and id(repo) not in _IDEAL_IMPORT:
                        _IDEAL_IMPORT[id(repo)] = (c, ["<a>" if x == a else "<b>" if x == b else x for x in combo])
                    continue
                key = (vals[0], vals[1], tuple(vals[2]), tuple(vals[3]))
                if key not in seen:
                    seen.add(key)
                    rec = (vals[0], vals[1], tuple(vals[2]), tuple(vals[3]), c.name)
                    recs.append(rec)
                    _RECORD_OBJS[rec] = o
        if not got and not any(x.startswith(c.name + ":") for x in failed):
            failed.append(f"{c.name}: no instance could be constructed in the evaluator")
    # a small, varied selection (generation order: the first pool pair first), one record per shape of names / parents lists
    picked: list[tuple] = []
    shapes: set = set()
    for r in recs:
        shape = (r[4], len(r[1].split(".")), len(r[3]), len(r[0].split(".")))
        if shape not in shapes and len(picked) < 9:
            shapes.add(shape)
            picked.append(r)
    return picked, failed


def _squeeze(names: list) -> list:
    """Consecutive duplicates removed: the quotient of a chain (module hierarchy) keeps each collapsed node once."""
    out: list = []
    for x in names:
        if not out or out[-1] != x:
            out.append(x)
    return out


def _is_name_or_parent(x: object, used: list) -> bool:
    return isinstance(x, str) and any(x == u or (isinstance(u, str) and u.startswith(x + ".")) for u in used)


def trunc(name: str, limit: int | None) -> str:
    """The specification of the truncation."""
    return name if limit is None else ".".join(name.split(".")[: limit + 1])


# --------------------------------------------------------------------------- anchors


def graph_class(repo: Repo) -> ClassInfo:
    m = repo.modules.get(NXGRAPH)
    if m is not None and GRAPH_CLASS in m.classes:
        return m.classes[GRAPH_CLASS]
    cands = [c for c in repo.classes.values() if c.name == GRAPH_CLASS]
    if len(cands) == 1:
        return cands[0]
    raise AnalysisError(f"public class {GRAPH_CLASS} not found")


class Ctx:
    def __init__(self, repo: Repo, res: Result) -> None:
        self.repo = repo
        self.res = res
        self.T = types_of(repo)
        self.g = graph_class(repo)
        init = self.repo.lookup_method(self.g, "__init__")
        if init is None:
            raise AnalysisError(f"{GRAPH_CLASS}.__init__ not found")
        self.init = init
        names = init.param_names[1:]
        if "level_limit" in names:
            self.limit_param = "level_limit"
        elif len(names) >= 3:
            self.limit_param = names[2]
        else:
            raise AnalysisError(f"{GRAPH_CLASS}.__init__ has no level limit parameter")
        rest = [n for n in names if n != self.limit_param]
        if len(rest) < 2:
            raise AnalysisError(f"{GRAPH_CLASS}.__init__: module list / import list parameters not found")
        self.modules_param, self.imports_param = rest[0], rest[1]
        self.limit_index = names.index(self.limit_param)
        it = elem_type(self.T.param_type(init, self.imports_param))
        self.import_classes = {m[1] for m in members(it) if m[0] == "cls"} or {IMPORT_CLASS}
        self.pending_unary: list[tuple[str, str, str]] = []
        self.r1_pending: list[dict] = []
        self.r2_pending: list[tuple[str, str, str, str]] = []

    # -- roles -------------------------------------------------------------------------------------
    def is_graph(self, f: FuncInfo, e: ast.AST) -> bool:
        try:
            t = self.T.expr(f, e)
        except Exception:  # noqa: BLE001
            return False
        return any(m[0] == "lib" and str(m[1]).startswith("networkx.") and str(m[1]).endswith("Graph") for m in members(t))

    def is_import_value(self, f: FuncInfo, e: ast.AST) -> bool:
        try:
            t = self.T.expr(f, e)
        except Exception:  # noqa: BLE001
            return False
        for m in members(t):
            if m[0] == "cls":
                ci = self.repo.classes.get(m[1])
                if ci is not None and any(c.fq in self.import_classes for c in self.repo.mro(ci)):
                    return True
        return False

    def not_a_name(self, f: FuncInfo, e: ast.AST) -> bool:
        """By static type the value is a bool / number / None (never a module name)."""
        try:
            ms = list(members(self.T.expr(f, e)))
        except Exception:  # noqa: BLE001
            return False
        return bool(ms) and all(m[0] == "b" and m[1] in ("bool", "int", "float", "none") for m in ms)

    def ctor_sites(self) -> list[tuple[FuncInfo, ast.Call]]:
        """Calls outside the graph class that construct the graph."""
        if getattr(self, "_ctor_sites", None) is None:
            sites: list[tuple[FuncInfo, ast.Call]] = []
            for f in self.repo.all_functions():
                if isinstance(f.node, ast.Lambda) or (f.cls is not None and any(c == self.g for c in self.repo.mro(f.cls))):
                    continue
                for c in own_nodes(f.node):
                    if isinstance(c, ast.Call):
                        try:
                            ci = self.T.ctor_class(f, c)
                        except Exception:  # noqa: BLE001
                            ci = None
                        if ci is not None and any(k == self.g for k in self.repo.mro(ci)):
                            sites.append((f, c))
            self._ctor_sites = sites
        return self._ctor_sites

    def sink_events(self, f: FuncInfo) -> list[tuple[ast.AST, str, list[ast.expr]]]:
        """(node, description, name-carrying argument expressions) of everything `f` asks of / tells the networkx graph."""
        out: list[tuple[ast.AST, str, list[ast.expr]]] = []
        for n in own_nodes(f.node):
            if isinstance(n, ast.Call):
                if isinstance(n.func, ast.Attribute) and self.is_graph(f, n.func.value):
                    args = [a.value if isinstance(a, ast.Starred) else a for a in n.args] + [k.value for k in n.keywords]
                    out.append((n, n.func.attr, args))
                    continue
                fq = self.repo.resolve_name(f.module, n.func) if isinstance(n.func, (ast.Name, ast.Attribute)) else None
                if fq and fq.startswith("networkx.") and fq.endswith("Graph") and (n.args or any(k.arg == "incoming_graph_data" for k in n.keywords)):
                    # a graph created from data (an edge list): the data is what is inserted
                    out.append((n, fq.rsplit(".", 1)[-1] + "(data)", [n.args[0] if n.args else next(k.value for k in n.keywords if k.arg == "incoming_graph_data")]))
                    continue
                if fq and fq.startswith("networkx.") and n.args and self.is_graph(f, n.args[0]):
                    args = [a.value if isinstance(a, ast.Starred) else a for a in n.args[1:]] + [k.value for k in n.keywords]
                    out.append((n, fq, args))
            elif isinstance(n, ast.Compare) and len(n.ops) == 1 and isinstance(n.ops[0], (ast.In, ast.NotIn)):
                c = n.comparators[0]
                if self.is_graph(f, c) or (isinstance(c, ast.Attribute) and self.is_graph(f, c.value)):
                    out.append((n, "membership", [n.left]))
            elif isinstance(n, ast.Subscript) and not isinstance(n.slice, ast.Slice):
                v = n.value
                if self.is_graph(f, v) or (isinstance(v, ast.Attribute) and self.is_graph(f, v.value)) or (isinstance(v, ast.Subscript) and self.is_graph(f, v.value)):
                    out.append((n, "subscript", [n.slice]))
        return out


MUTATORS = {"append", "add", "update", "extend", "insert", "setdefault", "appendleft", "__setitem__"}


def callable_params(cx: "Ctx", funcs: list[FuncInfo]) -> dict[tuple[str, str], list[FuncInfo]]:
    """(function, parameter) -> the functions / bound methods handed in for it at the call sites among `funcs` (callbacks:
    `_walk(modules, imports, self._create_node, self._create_edge)`), followed through parameters that are handed on."""
    T = cx.T
    bind: dict[tuple[str, str], list[FuncInfo]] = {}
    for _ in range(4):
        changed = False
        for f in funcs:
            if isinstance(f.node, ast.Lambda):
                continue
            for c in own_nodes(f.node):
                if not isinstance(c, ast.Call):
                    continue
                try:
                    callees, _ = T.callees(f, c, byname_fallback=False)
                except Exception:  # noqa: BLE001
                    callees = []
                if not callees and isinstance(c.func, ast.Name):
                    callees = bind.get((f.fq, c.func.id), [])
                for g in callees:
                    if isinstance(g.node, ast.Lambda) or any(isinstance(a, ast.Starred) for a in c.args):
                        continue
                    a_ = g.node.args
                    pos = [p.arg for p in [*a_.posonlyargs, *a_.args]]
                    if g.cls is not None and g.outer is None and not g.is_staticmethod:
                        pos = pos[1:]
                    pairs = list(zip(pos, c.args)) + [(k.arg, k.value) for k in c.keywords if k.arg]
                    for pname, a in pairs:
                        try:
                            targets = list(T._callable_targets(T.expr(f, a)))
                        except Exception:  # noqa: BLE001
                            targets = []
                        if isinstance(a, ast.Name):
                            targets += bind.get((f.fq, a.id), [])
                        for t in targets:
                            have = bind.setdefault((g.fq, pname), [])
                            if t not in have:
                                have.append(t)
                                changed = True
        if not changed:
            break
    return bind


def _self_fields(f: FuncInfo) -> tuple[set[str], set[str]]:
    """(fields of the receiver that `f` fills: `self.x[k] = v`, `self.x.add(v)`, `self.x = ...`; fields it reads)."""
    if f.cls is None or f.is_staticmethod or not f.param_names:
        return set(), set()
    me = f.param_names[0]
    written: set[str] = set()
    read: set[str] = set()

    def field(e: ast.AST) -> str | None:
        while isinstance(e, ast.Subscript):
            e = e.value
        return e.attr if isinstance(e, ast.Attribute) and isinstance(e.value, ast.Name) and e.value.id == me else None

    for n in own_nodes(f.node):
        if isinstance(n, (ast.Assign, ast.AugAssign, ast.AnnAssign)):
            for t in n.targets if isinstance(n, ast.Assign) else [n.target]:
                for x in (t.elts if isinstance(t, (ast.Tuple, ast.List)) else [t]):
                    if field(x):
                        written.add(field(x))
        elif isinstance(n, ast.Call) and isinstance(n.func, ast.Attribute) and n.func.attr in MUTATORS and field(n.func.value):
            written.add(field(n.func.value))
        elif isinstance(n, ast.Attribute) and isinstance(n.ctx, ast.Load) and isinstance(n.value, ast.Name) and n.value.id == me:
            read.add(n.attr)
    return written, read


def construction_functions(cx: Ctx) -> list[FuncInfo]:
    """Functions reachable from the constructor that touch the networkx graph, functions that fill a field of the object which those
    read (ledgers from which the graph is materialised later), and everything on the way to them."""
    reach = list(reachable_funcs(cx.repo, [cx.init], byname=False))
    cx.callbacks = callable_params(cx, reach)
    for t in [t for ts in cx.callbacks.values() for t in ts]:
        if t not in reach and t.module.name.startswith("pytestarch"):
            reach.append(t)
    # calls on receivers whose type is not known (`request.apply_to(self)` on what a generator yields): functions of the graph's own
    # module that touch the graph and are reachable when such calls are resolved by method name, with the functions on the way
    by_name = reachable_funcs(cx.repo, [cx.init], byname=True)
    by_fq = {f.fq: f for f in by_name}
    for f, path in by_name.items():
        if f not in reach and f.module is cx.g.module and cx.sink_events(f):
            for fq in path:
                g_ = by_fq.get(fq)
                if g_ is not None and g_ not in reach and g_.module.name.startswith("pytestarch"):
                    reach.append(g_)
    name_edges: dict[FuncInfo, list[FuncInfo]] = {f: [c for c in callees_of(cx.repo, f, byname=True) if c in reach] for f in reach if f in by_name}
    via_param: dict[FuncInfo, list[FuncInfo]] = {}
    for f in reach:
        for c in own_nodes(f.node):
            if isinstance(c, ast.Call) and isinstance(c.func, ast.Name) and (f.fq, c.func.id) in cx.callbacks:
                via_param.setdefault(f, []).extend(cx.callbacks[(f.fq, c.func.id)])
    has = {f: bool(cx.sink_events(f)) for f in reach}
    keep = {f for f in reach if has[f]}
    # fields in which the constructor keeps the raw module list / import list
    me = cx.init.param_names[0]
    raw_fields = {
        t.attr for n in own_nodes(cx.init.node) if isinstance(n, (ast.Assign, ast.AnnAssign)) and isinstance(n.value, ast.Name) and n.value.id in (cx.modules_param, cx.imports_param)
        for t in (n.targets if isinstance(n, ast.Assign) else [n.target]) if isinstance(t, ast.Attribute) and isinstance(t.value, ast.Name) and t.value.id == me
    }
    if keep:
        fields = {f: _self_fields(f) for f in reach}
        # methods that produce what the construction consumes from those fields (`for step in self._construction_steps(): ...`)
        producers = {f for f in reach if f not in keep and f.cls is not None and any(c == cx.g for c in cx.repo.mro(f.cls)) and fields[f][1] & raw_fields and not fields[f][0]}
        keep |= {f for f in producers if any(f in callees_of(cx.repo, k, byname=False) for k in reach if k is not f)}
        for _ in range(3):
            wanted = set().union(*[fields[f][1] for f in keep])
            more = {f for f in reach if f not in keep and f.cls is not None and f.name != "__init__" and fields[f][0] & wanted}
            if not more:
                break
            keep |= more
    changed = True
    while changed:
        changed = False
        for f in reach:
            if f not in keep and any(c in keep for c in [*callees_of(cx.repo, f, byname=False), *via_param.get(f, []), *name_edges.get(f, [])]):
                keep.add(f)
                changed = True
    keep.add(cx.init)
    return [f for f in reach if f in keep]


# --------------------------------------------------------------------------- R1 / R3: flow + tabulated truncation


class Flattening:
    """Classifies the expressions of the construction code through which the limit acts on names."""

    def __init__(self, cx: Ctx, cons: list[FuncInfo]) -> None:
        self.cx = cx
        self.cons = cons
        self.ev = Evaluator(cx.repo, tolerant=True)
        self.objs: dict[object, Obj] = {}
        self.build_error: str | None = None
        self.helpers: dict[object, dict[str, Obj]] = {}  # limit -> class fq -> the (only) object of that class built during construction
        for lim in LIMITS:
            try:
                del self.ev.created[:]
                o = self.ev._construct(cx.g, [[], []], {cx.limit_param: lim})
            except (Unknown, Raised) as e:
                self.build_error = f"constructor not evaluable for limit {lim}: {e}"
                break
            if not isinstance(o, Obj):
                self.build_error = "constructor did not yield an object"
                break
            self.objs[lim] = o
            by_cls: dict[str, list[Obj]] = {}
            for h in self.ev.created:
                if h is not o:
                    by_cls.setdefault(h.cls.fq, []).append(h)
            self.helpers[lim] = {fq: hs[0] for fq, hs in by_cls.items() if len(hs) == 1}
        self.carriers: set[str] = set()
        if not self.build_error:
            keys = set().union(*[set(o.attrs) for o in self.objs.values()])
            for k in keys:
                sigs = {self._sig(o.attrs.get(k)) for o in self.objs.values()}
                if len(sigs) > 1:
                    self.carriers.add(k)
            # helper objects (a builder, a namer) that hold something derived from the limit
            for fq in set().union(*[set(h) for h in self.helpers.values()]):
                hs = [self.helpers[lim].get(fq) for lim in LIMITS]
                if any(h is None for h in hs):
                    continue
                for k in set().union(*[set(h.attrs) for h in hs]):
                    if len({self._sig(h.attrs.get(k)) for h in hs}) > 1:
                        self.carriers.add(k)
        self.flat_exprs: dict[int, str] = {}  # id(expr) -> verdict
        self.verdicts: list[dict] = []
        # Import records of the concrete classes that the idealised model does not cover (tabulated in extra rounds)
        try:
            self.records, self.records_failed = import_records(cx, Evaluator(cx.repo, tolerant=True))
        except (Unknown, Raised, AnalysisError) as e:
            self.records, self.records_failed = [], [f"Import classes: {e}"]

    def receiver(self, f: FuncInfo, lim: object) -> object:
        """The object a method of the construction code runs on when a graph with this limit is built: the graph itself, or the helper
        object of the method's class that the constructor created."""
        g = self.objs[lim]
        if f.cls is None or any(c == f.cls for c in self.cx.repo.mro(g.cls)):
            return g
        for fq, h in self.helpers.get(lim, {}).items():
            if any(c == f.cls for c in self.cx.repo.mro(h.cls)):
                return h
        return POISON

    @staticmethod
    def _sig(v: object) -> str:
        if isinstance(v, Partial):
            return f"partial({Flattening._sig(v.fn)}, {[Flattening._sig(a) for a in v.args]}, {sorted((k, Flattening._sig(x)) for k, x in v.kwargs.items())})"
        if hasattr(v, "fi"):
            env = getattr(v, "env", None)
            extra = ""
            if env is not None:
                extra = repr(sorted((k, Flattening._sig(x)) for k, x in env.vars.items() if isinstance(x, (int, str, type(None)))))
            return f"fn:{v.fi.fq}{extra}"
        return repr(v)

    # -- which expressions to look at -------------------------------------------------------------------
    def mentions_limit(self, f: FuncInfo, e: ast.AST, flow: Flow | None) -> bool:
        for n in ast.walk(e):
            if isinstance(n, ast.Attribute) and n.attr in self.carriers:
                return True
            if isinstance(n, ast.Name) and flow is not None and flow.tags(n) and set(flow.tags(n)) <= {"LIMIT"}:
                return True  # a value derived from the limit alone (names that passed a truncation carry the tag as well)
            if isinstance(n, ast.Name) and f == self.cx.init and n.id == self.cx.limit_param:
                return True
        return False

    def depends_on_limit(self, f: FuncInfo, e: ast.AST, flow: Flow | None) -> bool:
        """May the value of `e` depend on the limit (syntactic over-approximation through the callees)?"""
        if self.mentions_limit(f, e, flow):
            return True
        seen: set[str] = set()
        work = list(self.targets(f, e))
        while work:
            t = work.pop()
            if t.fq in seen or len(seen) > 60:
                continue
            seen.add(t.fq)
            for n in own_nodes(t.node):
                if isinstance(n, ast.Attribute) and n.attr in self.carriers:
                    return True
            work += callees_of(self.cx.repo, t, byname=False)
        return False

    def targets(self, f: FuncInfo, e: ast.AST) -> list[FuncInfo]:
        """Repo functions (outside the construction code) that `e` calls or hands on as callables."""
        out: list[FuncInfo] = []
        T = self.cx.T
        for n in ast.walk(e):
            if isinstance(n, ast.Call):
                try:
                    cs, _ = T.callees(f, n, byname_fallback=False)
                except Exception:  # noqa: BLE001
                    cs = []
                out += cs
                for a in [*n.args, *[k.value for k in n.keywords]]:
                    try:
                        t = T.expr(f, a)
                    except Exception:  # noqa: BLE001
                        continue
                    for m in members(t):
                        if m[0] == "fn":
                            out.append(m[1])
                        elif m[0] == "partial":
                            out += T._callable_targets(m)
            elif isinstance(n, ast.Lambda) and getattr(n, "_func", None) is not None:
                out.append(n._func)
        res: list[FuncInfo] = []
        for t in out:
            if t not in res and t not in self.cons and not t.is_abstract:
                res.append(t)
        return res

    def candidates(self, flow: Flow) -> list[tuple[FuncInfo, ast.expr]]:
        out = []
        for f in self.cons:
            sinks = {id(n) for n, _, _ in self.cx.sink_events(f)}
            for n in own_nodes(f.node):
                if not isinstance(n, (ast.Call, ast.IfExp, ast.Compare)) or id(n) in sinks:
                    continue
                if isinstance(n, ast.Call):
                    if isinstance(n.func, ast.Attribute) and self.cx.is_import_value(f, n.func.value):
                        continue
                    if isinstance(n.func, ast.Attribute) and n.func.attr in MUTATORS and _ledger_of(f, n.func.value) is not None:
                        continue  # recording something in a container (`self._pending.setdefault(<name>)`): the arguments are judged, not the call
                    try:
                        cs, _ = self.cx.T.callees(f, n, byname_fallback=False)
                    except Exception:  # noqa: BLE001
                        cs = []
                    if any(c in self.cons for c in cs):
                        continue
                    parts = [*n.args, *[k.value for k in n.keywords]]
                    if isinstance(n.func, ast.Attribute):
                        parts.append(n.func.value)  # name.startswith(...)
                elif isinstance(n, ast.Compare):
                    if len(n.ops) == 1 and isinstance(n.ops[0], (ast.Is, ast.IsNot)):
                        continue
                    parts = [n.left, *n.comparators]
                else:
                    parts = [n.body, n.orelse]
                if not any("RAW" in flow.tags(x) for p in parts for x in ast.walk(p)):
                    continue
                out.append((f, n))
        return out

    # -- tabulation ------------------------------------------------------------------------------------
    @staticmethod
    def _single_def(f: FuncInfo, name: str):
        """The nested def, or the value of the only assignment, that binds a local name (None if it is bound in several places)."""
        found: list = []
        for n in own_nodes(f.node):
            if isinstance(n, (ast.FunctionDef, ast.AsyncFunctionDef)) and n.name == name:
                found.append(n)
            elif isinstance(n, ast.Assign) and any(isinstance(x, ast.Name) and x.id == name for t in n.targets for x in ast.walk(t)):
                found.append(n.value if len(n.targets) == 1 and isinstance(n.targets[0], ast.Name) else None)
            elif isinstance(n, ast.AnnAssign) and isinstance(n.target, ast.Name) and n.target.id == name and n.value is not None:
                found.append(n.value)
            elif isinstance(n, (ast.AugAssign, ast.For, ast.AsyncFor, ast.NamedExpr, ast.With, ast.comprehension)) and any(isinstance(x, ast.Name) and x.id == name and isinstance(x.ctx, ast.Store) for x in ast.walk(n.target if hasattr(n, "target") else n)):
                found.append(None)
        return found[0] if len(found) == 1 else None

    @staticmethod
    def _record_fields_read(f: FuncInfo, exprs: list, name: str) -> dict[str, ast.Attribute] | None:
        """{field: a node reading it} when every use of the local `name` in the expressions is a field read `name.field`."""
        fields: dict[str, ast.Attribute] = {}
        for x in exprs:
            for n in ast.walk(x):
                if isinstance(n, ast.Attribute) and isinstance(n.value, ast.Name) and n.value.id == name:
                    p = parent(n)
                    if isinstance(p, ast.Call) and p.func is n:
                        return None  # a method call, not a field
                    fields.setdefault(n.attr, n)
            direct = [n for n in ast.walk(x) if isinstance(n, ast.Name) and n.id == name and not (isinstance(parent(n), ast.Attribute) and parent(n).value is n)]
            if direct:
                return None
        return fields or None

    def _raw_definition(self, f: FuncInfo, name: str, flow: Flow):
        """The only definition of a raw local, when it is an expression that does not depend on the limit (None otherwise)."""
        cache = self.__dict__.setdefault("_rawdef", {})
        key = (f.fq, name)
        if key not in cache:
            d = None if name in f.param_names else self._single_def(f, name)
            if not isinstance(d, ast.expr) or isinstance(d, ast.Lambda) or self.depends_on_limit(f, d, flow):
                d = None
            cache[key] = d
        return cache[key]

    def _bind(self, f: FuncInfo, e: ast.expr, flow: Flow, lim: object, rnd: int) -> tuple[dict, list[str]]:
        """Environment for tabulating `e` (an expression of construction function `f`) on a graph with limit `lim`: the receiver is the
        graph object, raw names are test names, values derived from the limit only are the limit, local aliases / lambdas / nested
        functions are what their only definition says; everything else is undetermined."""
        from .c09_eval import Closure

        env: dict[str, object] = {}
        envobj = Env(env)
        used: list[str] = []
        local = set(f.param_names) | {n.id for n in own_nodes(f.node) if isinstance(n, ast.Name) and isinstance(n.ctx, ast.Store)}
        local |= {n.name for n in own_nodes(f.node) if isinstance(n, (ast.FunctionDef, ast.AsyncFunctionDef))}
        local |= {n.name for n in own_nodes(f.node) if isinstance(n, (ast.MatchAs, ast.MatchStar)) and n.name} | {n.rest for n in own_nodes(f.node) if isinstance(n, ast.MatchMapping) and n.rest}
        is_method = f.cls is not None and f.outer is None and not f.is_staticmethod and bool(f.param_names)
        if is_method:
            env[f.param_names[0]] = self.receiver(f, lim)
        i = 0
        aliases: list[tuple[str, ast.expr]] = []
        raw_fallback: dict[str, object] = {}
        queue: list[ast.AST] = [e]
        while queue:
            x = queue.pop()
            # comprehension / lambda variables of the expression itself are bound by the evaluation
            inner = {y.id for n in ast.walk(x) if isinstance(n, ast.comprehension) for y in ast.walk(n.target) if isinstance(y, ast.Name)}
            inner |= {a.arg for n in ast.walk(x) if isinstance(n, ast.Lambda) for a in [*n.args.posonlyargs, *n.args.args, *n.args.kwonlyargs]}
            for n in ast.walk(x):
                if not isinstance(n, ast.Name) or not isinstance(n.ctx, ast.Load) or n.id not in local or n.id in inner or n.id in env:
                    continue
                tags = flow.tags(n)
                if self.cx.is_import_value(f, n):
                    if rnd >= len(NAME_POOL) and self.records:
                        rec = self.records[(rnd - len(NAME_POOL) + i // 2) % len(self.records)]
                        i += 2
                        env[n.id] = _record_import(rec)
                        used += [rec[0], rec[1], *rec[2], *rec[3]]
                        continue
                    a, b = NAME_POOL[(i + rnd) % len(NAME_POOL)], NAME_POOL[(i + rnd + 1) % len(NAME_POOL)]
                    i += 2
                    env[n.id] = _model_import(a, b, self.cx)
                    used += [a, b, *_prefixes(a), *_prefixes(b)]
                elif ("RAW" in tags or "FLAT" in tags) and self._record_fields_read(f, [e, *[d for _, d in aliases]], n.id) is not None:
                    # a record that carries raw names (`request.start`, `request.end`, `request.inherits`): one pool name per name field
                    attrs: dict[str, object] = {}
                    for attr, node in self._record_fields_read(f, [e, *[d for _, d in aliases]], n.id).items():
                        if self.cx.not_a_name(f, node):
                            ks = {m[1] for m in members(self.cx.T.expr(f, node))}
                            attrs[attr] = False if "bool" in ks else (None if ks == {"none"} else 1)
                        else:
                            name = NAME_POOL[(i + rnd) % len(NAME_POOL)]
                            i += 1
                            attrs[attr] = name
                            used.append(name)
                    env[n.id] = NativeObj(f"<record {n.id}>", {}, attrs)
                elif "RAW" in tags and "FLAT" not in tags and len(aliases) < 12 and self._raw_definition(f, n.id, flow) is not None:
                    # a raw local with one definition (`parents = get_parent_modules(importee)`, `importee = imp.importee()`): evaluate the
                    # definition, so that names that belong together (a name and its parents list) stay related; pool name as a fallback
                    d = self._raw_definition(f, n.id, flow)
                    env[n.id] = POISON
                    aliases.append((n.id, d))
                    raw_fallback[n.id] = self.cx.T.expr(f, n)
                    queue.append(d)
                elif "RAW" in tags or "FLAT" in tags:
                    name = NAME_POOL[(i + rnd) % len(NAME_POOL)]
                    other = NAME_POOL[(i + rnd + 1) % len(NAME_POOL)]
                    i += 1
                    t = self.cx.T.expr(f, n)
                    coll = any(m[0] == "b" and m[1] in ("list", "seq", "iter", "tuple", "set", "frozenset") for m in members(t))
                    env[n.id] = [name, other] if coll else name
                    used += [name, other] if coll else [name]
                elif tags and set(tags) <= {"LIMIT"}:
                    env[n.id] = lim
                else:
                    env[n.id] = POISON
                    d = self._single_def(f, n.id)
                    if isinstance(d, (ast.FunctionDef, ast.AsyncFunctionDef)) and getattr(d, "_func", None) is not None:
                        env[n.id] = Closure(d, d._func, envobj)
                        queue.append(d)
                    elif isinstance(d, (ast.Lambda, ast.Attribute, ast.Call, ast.Name, ast.IfExp)) and len(aliases) < 8:
                        aliases.append((n.id, d))
                        queue.append(d)
        # definitions are evaluated once everything they mention is known (a few passes; the rest stays undetermined)
        pending = dict(reversed(aliases))
        for _ in range(len(pending) + 1):
            progress = False
            for name, rhs in list(pending.items()):
                if any(isinstance(x, ast.Name) and x.id in pending and x.id != name for x in ast.walk(rhs)):
                    continue
                del pending[name]
                progress = True
                try:
                    env[name] = self.ev.ev(rhs, Frame(f, f.module, envobj))
                except (Unknown, Raised):
                    env[name] = POISON
            if not progress:
                break
        for name, t in raw_fallback.items():
            v = env.get(name)
            if v is POISON or name in pending or self._leaves(v) is None:
                pool, other = NAME_POOL[(i + rnd) % len(NAME_POOL)], NAME_POOL[(i + rnd + 1) % len(NAME_POOL)]
                i += 1
                coll = any(m[0] == "b" and m[1] in ("list", "seq", "iter", "tuple", "set", "frozenset") for m in members(t))
                env[name] = [pool, other] if coll else pool
                used += [pool, other] if coll else [pool]
            else:
                used += [x for x in self._leaves(v) if x not in used]
        return env, used

    @staticmethod
    def _leaves(v: object, depth: int = 0) -> list | None:
        if isinstance(v, str):
            return [v]
        if depth > 3 or v is POISON or v is None or isinstance(v, (dict, int)):
            return None
        try:
            items = list(v)  # type: ignore[call-overload]
        except TypeError:
            return None
        out: list = []
        for x in items:
            sub = Flattening._leaves(x, depth + 1)
            if sub is None:
                return None
            out += sub
        return out

    def classify(self, f: FuncInfo, e: ast.expr, flow: Flow) -> dict:
        """verdict in {flatten, wrong-identity, wrong-cut, independent, unknown}."""
        if self.build_error:
            return {"verdict": "unknown", "why": self.build_error}
        rows: dict[tuple[int, object], tuple] = {}
        why = ""
        rounds = list(range(len(NAME_POOL)))
        try:
            probe, _ = self._bind(f, e, flow, None, 0)
        except (Unknown, Raised):
            probe = {}
        has_imp = any(isinstance(v, NativeObj) or (isinstance(v, Obj) and any(c.fq in self.cx.import_classes for c in self.cx.repo.mro(v.cls))) for v in probe.values())
        if has_imp:
            # names as the concrete Import classes hand them out (relative imports: the parents list is not the prefix chain of the importee)
            rounds += [len(NAME_POOL) + k for k in range(len(self.records))]
        for rnd in rounds:
            for lim in LIMITS:
                env, used = self._bind(f, e, flow, lim, rnd)
                fr = Frame(f, f.module, Env(env))
                try:
                    v = self.ev.ev(e, fr)
                    if v is POISON:
                        rows[(rnd, lim)] = ("unknown", "value cannot be determined", used)
                        why = why or "; ".join(self.ev.notes[-2:]) or "undetermined value"
                    else:
                        lv = self._leaves(v)
                        rows[(rnd, lim)] = ("names", lv, used, v) if lv is not None else ("other", repr(v)[:60], used, v)
                except Raised as r:
                    rows[(rnd, lim)] = ("raise", r.name, used)
                except Unknown as u:
                    rows[(rnd, lim)] = ("unknown", str(u), used)
                    why = why or str(u)
        kinds = {r[0] for r in rows.values()}
        if any(r[0] == "other" and not isinstance(r[3], bool) for r in rows.values()):
            # the value is an object / a number / a dict (a record built around names, a count, ...): not a name, not a test - what matters
            # are the expressions inside it and what is read from it later
            return {"verdict": "opaque"}
        if "unknown" in kinds:
            return {"verdict": "unknown", "why": why}
        dependent = any(rows[(rnd, lim)][:2] != rows[(rnd, None)][:2] for rnd in rounds for lim in LIMITS)
        if not dependent:
            return {"verdict": "independent"}
        limited = {k: r for k, r in rows.items() if k[1] is not None}
        if all(r[0] == "other" and isinstance(r[3], bool) for r in rows.values()) or (
            # a test that is only evaluated (only evaluable) when a limit is set: `name.count(".") > self._level_limit`
            all(r[0] == "other" and isinstance(r[3], bool) for r in limited.values()) and all(r[0] == "raise" for k, r in rows.items() if k[1] is None)
        ):
            if self._name_arity(f, e, flow) < 2:
                return {"verdict": "predicate-unary"}
            return self._classify_predicate(rows if all(r[0] == "other" for r in rows.values()) else limited)

        def origin(rnd: int) -> str:
            if rnd < len(NAME_POOL) or not self.records:
                return ""
            rec = self.records[(rnd - len(NAME_POOL)) % len(self.records)]
            return f" - names as a {rec[4]} hands them out: importer() = {rec[0]!r}, importee() = {rec[1]!r}, importer_parent_modules() = {list(rec[2])}, importee_parent_modules() = {list(rec[3])}"

        cut_only = all(rows[(rnd, None)][0] == "raise" for rnd in rounds)
        if cut_only and self.unreachable_without_limit(f, e):
            # the expression is only evaluated when a limit is set; what happens without one is decided by the code around it
            pass
        else:
            cut_only = False
            for rnd in rounds:
                base = rows[(rnd, None)]
                # without a limit the expression hands on the names it was given (or parents of them: a module hierarchy)
                if base[0] != "names" or any(not _is_name_or_parent(x, base[2]) for x in base[1]) or (len(base[1]) == 1 and base[1][0] not in base[2]):
                    return {"verdict": "wrong-identity", "example": f"without a limit {self._show(base)} is produced from {base[2]}{origin(rnd)}"}
        squeezed = False
        for rnd in rounds:
            base = rows[(rnd, None)]
            names = list(base[2]) if cut_only else base[1]
            for lim in LIMITS[1:]:
                got = rows[(rnd, lim)]
                want = [trunc(x, lim) for x in names]
                if got[0] == "names" and got[1] == want:
                    continue
                if got[0] == "names" and not cut_only and len(want) > 1 and got[1] == _squeeze(want):
                    squeezed = True  # a chain (module hierarchy) whose collapsed members appear once
                    continue
                return {"verdict": "wrong-cut", "example": f"with limit {lim}, {names} becomes {self._show(got)} instead of {want}{origin(rnd)}"}
        if has_imp and self.records_failed and any(isinstance(n, ast.Attribute) and n.attr in ACCESSORS[2:] for n in ast.walk(e)):
            # the verdict rests on the idealised model of the parents lists, and the real classes could not be tabulated
            return {"verdict": "unknown", "why": "the node names are derived from the parents lists of an Import, and what the Import classes return there cannot be tabulated (" + "; ".join(self.records_failed[:2]) + ")"}
        return {"verdict": "cut-only" if cut_only else "flatten", "squeezed": squeezed}

    def _name_arity(self, f: FuncInfo, e: ast.expr, flow: Flow) -> int:
        """How many different names (raw / flattened variables, accessors of an import) a test speaks about."""
        seen: set[str] = set()
        for n in ast.walk(e):
            if isinstance(n, ast.Attribute) and isinstance(n.value, ast.Name) and self.cx.is_import_value(f, n.value):
                seen.add(f"{n.value.id}.{n.attr}")
            elif isinstance(n, ast.Name) and isinstance(n.ctx, ast.Load) and not self.cx.is_import_value(f, n) and set(flow.tags(n)) & {"RAW", "FLAT"}:
                seen.add(n.id)
        return len(seen)

    @staticmethod
    def _classify_predicate(rows: dict) -> dict:
        """A limit-dependent test on names in the construction code: the only such test the quotient law allows is whether two
        names flatten to the same node (in either polarity)."""
        agree = disagree = 0
        first_bad: dict[bool, str] = {}
        for (rnd, lim), r in rows.items():
            used = r[2]
            if len(used) < 2 or used[0] == used[1]:
                return {"verdict": "predicate-unary"}
            a, b = used[0], used[1]
            same = trunc(a, lim) == trunc(b, lim)
            if r[3] == same:
                agree += 1
                first_bad.setdefault(False, f"with limit {lim} it is {r[3]} for {a} / {b}, which flatten to {trunc(a, lim)} / {trunc(b, lim)}")
            else:
                disagree += 1
                first_bad.setdefault(True, f"with limit {lim} it is {r[3]} for {a} / {b}, which flatten to {trunc(a, lim)} / {trunc(b, lim)}")
        if not disagree or not agree:
            return {"verdict": "predicate-same-node"}
        positive = agree >= disagree
        return {"verdict": "predicate-wrong", "example": first_bad[positive], "means": "the two names flatten to the same node" if positive else "the two names flatten to different nodes"}

    def cond_without_limit(self, f: FuncInfo, c: ast.expr):
        return self.cond_value(f, c, None)

    def always_reached_with_limit(self, f: FuncInfo, node: ast.AST) -> bool:
        """Every condition on the way to `node` holds whenever a limit is set (tabulated on the graph objects)."""
        if self.build_error:
            return False
        return all(self.cond_value(f, c, lim) == pol for c, pol in conds(f, node) for lim in LIMITS[1:])

    def cond_value(self, f: FuncInfo, c: ast.expr, lim: object):
        """Truth value of a condition of the construction code on a graph with this limit (None if it cannot be determined)."""
        env: dict[str, object] = {}
        for n in ast.walk(c):
            if isinstance(n, ast.Name) and isinstance(n.ctx, ast.Load):
                if f.cls is not None and f.outer is None and not f.is_staticmethod and f.param_names and n.id == f.param_names[0]:
                    env[n.id] = self.receiver(f, lim)
                elif n.id in f.param_names or any(isinstance(x, ast.Name) and x.id == n.id and isinstance(x.ctx, ast.Store) for x in own_nodes(f.node)):
                    env.setdefault(n.id, POISON)
        try:
            t = self.ev._truth(self.ev.ev(c, Frame(f, f.module, Env(env))))
        except (Unknown, Raised):
            return None
        return None if t is POISON else bool(t)

    def unreachable_without_limit(self, f: FuncInfo, e: ast.AST) -> bool:
        if self.build_error:
            return False
        for c, pol in conds(f, e):
            t = self.cond_without_limit(f, c)
            if t is not None and t != pol:
                return True
        return False

    @staticmethod
    def _show(row: tuple) -> str:
        return f"{row[1]}" if row[0] in ("names", "other") else f"<{row[0]}: {row[1]}>"


class LoopFlow(Flow):
    """The shared flow engine binds the target of a `for` weakly (old tags | element tags) at the loop header, for the body as well as for
    the code after the loop.  Inside the body the target is always freshly bound, so a loop variable that re-uses the name of a raw
    parameter (`for parent, child in zip(flattened, flattened[1:])` in a function with a parameter `child`) is what the iterable yields
    and nothing else.  This subclass hands the strongly updated state to the body edge and keeps the weak one for the exit edge."""

    callbacks: dict = {}

    def __init__(self, repo: Repo, types, spec: Spec, callbacks: dict | None = None) -> None:
        self.callbacks = callbacks or {}
        super().__init__(repo, types, spec)

    def _call(self, fi: FuncInfo, call: ast.Call, env: dict):
        targets = self.callbacks.get((fi.fq, call.func.id)) if isinstance(call.func, ast.Name) else None
        if targets:
            # a callback handed in as a parameter: the arguments flow to the parameters of every function bound to it
            args = [self._expr(fi, a, env) for a in call.args]
            kwargs = {k.arg: self._expr(fi, k.value, env) for k in call.keywords}
            out = frozenset()
            scoped = [t for t in targets if self.spec.scope is None or self.spec.scope(t)]
            for t in scoped:
                self._bind_call(t, args, kwargs, None, call)
                out |= self.ret_tags.get(t.fq, frozenset())
            if len(scoped) < len(targets):
                for t_ in [*args, *kwargs.values()]:
                    out |= t_
            self.node_tags[id(call)] = self.node_tags.get(id(call), frozenset()) | out
            return out
        return super()._call(fi, call, env)

    def _expr_inner(self, fi: FuncInfo, e: ast.expr, env: dict):
        t = super()._expr_inner(fi, e, env)
        if isinstance(e, ast.Attribute) and not t and not (isinstance(parent(e), ast.Call) and parent(e).func is e):
            # a field of a record whose construction lies outside the analysed functions (`step.node` of a NamedTuple yielded by a
            # module-level generator): the record holds what it was derived from
            t = self.node_tags.get(id(e.value), frozenset())
        if isinstance(e, ast.Attribute) and ast.unparse(e) in env:
            # the function assigned this field itself (`self._nodes = {}`), and the base engine then reads the local value only; methods
            # called in between may have filled the field (`self._initialise()` records into the ledger): join what the field holds
            for ci_fq in self._classes_of(fi, e.value):
                ci = self.repo.classes.get(ci_fq)
                if ci is not None:
                    for c in [*self.repo.mro(ci), *self.repo.subclasses(ci)]:
                        t = t | self.field_tags.get((c.fq, e.attr), frozenset())
        return t

    def _stmt(self, fi: FuncInfo, s: ast.AST, env: dict) -> None:
        if isinstance(s, ast.Match):
            # the names a pattern captures hold (parts of) the subject
            t = self._it(self._expr(fi, s.subject, env))
            for case in s.cases:
                for p in ast.walk(case.pattern):
                    for name in ([p.name] if isinstance(p, (ast.MatchAs, ast.MatchStar)) and p.name else []) + ([p.rest] if isinstance(p, ast.MatchMapping) and p.rest else []):
                        env[name] = env.get(name, frozenset()) | t if any(name == q for c2 in s.cases if c2 is not case for x in ast.walk(c2.pattern) for q in [getattr(x, "name", None)]) else t
                if case.guard is not None:
                    self._expr(fi, case.guard, env)
            return
        super()._stmt(fi, s, env)

    def _analyse(self, fi: FuncInfo) -> None:
        from core.cfg import ENTRY

        cfg = self.cfg(fi)
        init: dict[str, frozenset] = {}
        for p in fi.param_names:
            t = self.param_tags.get((fi.fq, p), frozenset())
            if t:
                init[p] = t
        if not hasattr(self, "_final_env"):
            self._final_env = {}
        if fi.outer is not None:
            for k, v in self._final_env.get(fi.outer.fq, {}).items():
                init.setdefault(k, v)
        states: dict[object, dict[str, frozenset]] = {ENTRY: init}
        work = [ENTRY]
        order = 0
        final_env: dict[str, frozenset] = dict(init)
        while work:
            n = work.pop()
            order += 1
            if order > 20000:
                break
            st = states.get(n, {})
            out = dict(st)
            body_out = None
            if isinstance(n, ast.AST):
                for var, t in st.items():
                    self.var_at[(id(n), var)] = t
                self._stmt(fi, n, out)
                if isinstance(n, (ast.For, ast.AsyncFor)):
                    body_out = dict(st)
                    self._assign(fi, n.target, self._it(self._expr(fi, n.iter, body_out)), body_out, n.iter)
                for k, v in out.items():
                    if v:
                        final_env[k] = final_env.get(k, frozenset()) | v
            for m in cfg.g.successors(n):
                o = body_out if body_out is not None and cfg.g[n][m].get("labels") == {True} else out
                old = states.get(m)
                if old is None:
                    states[m] = dict(o)
                    work.append(m)
                else:
                    changed = False
                    for k, v in o.items():
                        if not v <= old.get(k, frozenset()):
                            old[k] = old.get(k, frozenset()) | v
                            changed = True
                    if changed:
                        work.append(m)
        self._final_env[fi.fq] = final_env


def run_flow(cx: Ctx, cons: list[FuncInfo], flat: dict[int, str]) -> Flow:
    T = cx.T
    consset = set(cons)

    def sources(f: FuncInfo, e: ast.expr):
        if isinstance(e, ast.Call) and isinstance(e.func, ast.Attribute) and cx.is_import_value(f, e.func.value):
            return {"RAW"}
        if isinstance(e, ast.Attribute) and isinstance(e.ctx, ast.Load) and cx.is_import_value(f, e.value) and not isinstance(parent(e), ast.Call):
            return {"RAW"}
        return None

    def post(f: FuncInfo, e: ast.expr, tags):
        if id(e) in flat:
            return frozenset({"FLAT"})
        return tags

    seeds = {(cx.init.fq, cx.modules_param): {"RAW"}, (cx.init.fq, cx.limit_param): {"LIMIT"}}
    return LoopFlow(cx.repo, T, Spec(sources=sources, post=post, param_seeds=seeds, objects_carry=False, scope=lambda f: f in consset), getattr(cx, "callbacks", {}))


def rule_r1_r3(cx: Ctx, cons: list[FuncInfo]) -> Flow:
    res, repo = cx.res, cx.repo
    fl = Flattening(cx, cons)
    flow1 = run_flow(cx, cons, {})
    cands = fl.candidates(flow1)
    E = Effects(repo, cx.T)
    seen_keys: set[tuple[str, str]] = set()
    n_flat = 0
    cands.sort(key=lambda fe: (fe[0].fq, getattr(fe[1], "lineno", 0), getattr(fe[1], "col_offset", 0), -(getattr(fe[1], "end_lineno", 0) * 10000 + getattr(fe[1], "end_col_offset", 0))))
    covered: set[int] = set()
    guarded_updates: list[tuple[FuncInfo, ast.expr]] = []
    for f, e in cands:
        if id(e) in covered:
            continue
        v = fl.classify(f, e, flow1)
        verdict = v["verdict"]
        if verdict == "opaque":
            continue
        if verdict not in ("independent",) and not (verdict == "unknown" and not fl.depends_on_limit(f, e, flow1)):
            covered |= {id(x) for x in ast.walk(e)}
        if verdict == "cut-only":
            guarded_updates.append((f, e))
            verdict = "flatten"
        if verdict.startswith("predicate"):
            pkey = repo.key(f, stmt_of(e)) + f" [{norm(e, 60)}]"
            if verdict == "predicate-same-node":
                res.add("C09.R2", pkey, True, "a test whether two names flatten to the same node (tabulated)", where(f, e), kind="decision-table")
            elif verdict == "predicate-wrong":
                res.add(
                    "C09.R2", pkey, False,
                    f"`{norm(e, 70)}` depends on the level limit and decides about a pair of names, but it is not the test whether {v['means']}: {v['example']}; "
                    "what the graph keeps or drops then differs from the quotient of the full graph (an import between textual-prefix siblings is lost or a self-edge is kept)",
                    where(f, e), kind="decision-table",
                )
            else:
                # what such a test makes the construction keep or drop is judged by the construction table (C09.R6) when it can be evaluated
                cx.pending_unary.append((pkey, f"`{norm(e, 70)}` is a test on a name that depends on the level limit; its role in the construction is not understood", where(f, e)))
            continue
        tg = fl.targets(f, e)
        owner = tg[0] if len(tg) == 1 else f
        key = f"{owner.relpath}::{owner.qualname}" if len(tg) == 1 else repo.key(f, stmt_of(e)) + f" [{norm(e, 50)}]"
        if verdict == "independent":
            continue
        if verdict == "unknown":
            if fl.depends_on_limit(f, e, flow1):
                fl.flat_exprs[id(e)] = verdict
                if (key, verdict) not in seen_keys:
                    seen_keys.add((key, verdict))
                    res.undecide("C09.R3", key, f"`{norm(e, 70)}` depends on the level limit but its value cannot be tabulated ({v.get('why', '')})", where(f, e))
            continue
        fl.flat_exprs[id(e)] = verdict
        n_flat += 1
        if verdict != "flatten":
            key = repo.key(f, stmt_of(e)) + f" [{norm(e, 50)}]"  # a wrong truncation is reported per site
        if (key, verdict) in seen_keys:
            continue
        seen_keys.add((key, verdict))
        ok_id = verdict != "wrong-identity"
        ok_cut = verdict == "flatten"
        res.add("C09.R3", f"{key}::identity without limit", ok_id, "without a limit names are unchanged" if ok_id else f"names are not returned unchanged when no limit is set: {v['example']}", where(f, e), kind="decision-table")
        if ok_id:
            res.add(
                "C09.R3", f"{key}::first limit+1 components", ok_cut,
                f"tabulated over {len(NAME_POOL)} names x {len(LIMITS) - 1} limits: the name is cut to its first limit+1 dotted components" if ok_cut else f"the truncation is not 'the first limit+1 dotted components': {v['example']} (the graph is not the quotient of the full graph at that level)",
                where(f, e), kind="decision-table",
            )
        # no state shared between graphs
        closure: list[FuncInfo] = []
        work = list(tg)
        while work and len(closure) < 30:
            t = work.pop()
            if t in closure or t in cons:
                continue
            closure.append(t)
            work += [c for c in callees_of(repo, t, byname=False) if c.module.name.startswith("pytestarch")]
        shared = [w for t in closure for w in E.writes(t) if w.root_kind in ("classvar", "global")]
        inst = [w for t in closure for w in E.writes(t) if w.root_kind == "self"]
        okp = not shared
        res.add(
            "C09.R3", f"{key}::no state shared between graphs", okp,
            "the truncation writes nothing that outlives the graph it belongs to" if okp else f"`{header(stmt_of(shared[0].node))}` in {shared[0].fi.qualname} keeps flattened names in state shared by all graphs ({shared[0].root_kind} {shared[0].root}.{shared[0].field}): names flattened for one limit are served to an architecture with another limit",
            where(shared[0].fi, shared[0].node) if shared else where(f, e), kind="effect",
        )
        for w in inst[:2]:
            res.observe(f"C09.R3: `{header(stmt_of(w.node))}` in {w.fi.qualname} keeps per-graph state while flattening (the limit is fixed per graph; judged by the tabulation)")
    # `if <limit is set>: v = <truncation of v>`: on the path around the statement there is no limit, so v is what the graph expects
    idiom_nodes: set[int] = set()
    for f, e in guarded_updates:
        st = stmt_of(e)
        tgt = st.targets[0] if isinstance(st, ast.Assign) and len(st.targets) == 1 else (st.target if isinstance(st, ast.AnnAssign) else None)
        raw_loads = {x.id for x in ast.walk(e) if isinstance(x, ast.Name) and "RAW" in flow1.tags(x)}
        if not (isinstance(tgt, ast.Name) and getattr(st, "value", None) is e and raw_loads == {tgt.id}):
            continue
        outer = st
        while isinstance(parent(outer), ast.If):
            outer = parent(outer)
        if outer is st or parent(outer) is not f.node or not fl.always_reached_with_limit(f, st):
            continue
        stores = [x for x in own_nodes(f.node) if isinstance(x, ast.Name) and x.id == tgt.id and isinstance(x.ctx, ast.Store)]
        inside = [x for x in stores if any(a is outer for a in ancestors(x))]
        before = [x for x in stores if x not in inside and x.lineno < outer.lineno]
        if len(inside) != 1 or len(before) + len(inside) != len(stores):
            continue
        idiom_nodes |= {id(x) for x in ast.walk(outer)}
        for x in own_nodes(f.node):
            if isinstance(x, ast.Name) and x.id == tgt.id and isinstance(x.ctx, ast.Load) and x.lineno > getattr(outer, "end_lineno", outer.lineno):
                fl.flat_exprs[id(x)] = "flatten"
    # ---- R1 on the second pass
    flow = run_flow(cx, cons, fl.flat_exprs)
    # limit used in the construction code outside anything that was classified
    classified_nodes: set[int] = set()
    for f, e in cands:
        if id(e) in fl.flat_exprs:
            classified_nodes |= {id(x) for x in ast.walk(e)}
    stray: list[tuple[FuncInfo, ast.AST]] = []
    for f in cons:
        for n in own_nodes(f.node):
            if id(n) in classified_nodes or id(n) in idiom_nodes:
                continue
            is_carrier = isinstance(n, ast.Attribute) and n.attr in fl.carriers and isinstance(n.ctx, ast.Load)
            is_limit = isinstance(n, ast.Name) and isinstance(n.ctx, ast.Load) and bool(flow.tags(n)) and set(flow.tags(n)) <= {"LIMIT"}
            if not (is_carrier or is_limit):
                continue
            st = stmt_of(n)
            # storing the limit on the object / handing it on to other construction code is not a use
            if isinstance(st, (ast.Assign, ast.AnnAssign)):
                tgts = st.targets if isinstance(st, ast.Assign) else [st.target]
                if all(isinstance(t, ast.Attribute) for t in tgts):
                    continue  # something derived from the limit is stored on the object: it is a carrier, its uses are looked at
                if all(isinstance(t, (ast.Attribute, ast.Name)) for t in tgts) and not any(isinstance(x, (ast.Compare, ast.IfExp, ast.Subscript)) for x in ast.walk(st.value or ast.Constant(0))):
                    continue
            p = parent(n)
            if isinstance(p, ast.Call) and n in p.args or isinstance(p, ast.keyword):
                call = p if isinstance(p, ast.Call) else parent(p)
                try:
                    cs, _ = cx.T.callees(f, call, byname_fallback=False)
                except Exception:  # noqa: BLE001
                    cs = []
                if cs and all(c in cons for c in cs):
                    continue
            stray.append((f, n))
    stray_limit = bool(stray)
    n = 0
    for f in cons:
        for node, what, args in cx.sink_events(f):
            for a in args:
                tags = set(flow.tags(a)) - {"LIMIT"}
                if not tags:
                    if not isinstance(a, (ast.Constant, ast.Dict, ast.List, ast.Set)) and not cx.not_a_name(f, a):
                        # the flow lost this value (it came through a call that could not be resolved, a generator, a record, ...):
                        # what it holds is observed when the constructor is evaluated (rule_r6)
                        cx.r1_pending.append({"key": repo.key(f, stmt_of(node)) + f" [{what}({norm(a, 30)})]", "f": f, "node": node, "arg": a, "what": what, "where": where(f, node), "untracked": True})
                    continue
                if cx.not_a_name(f, a):
                    continue  # a flag / a count read from a record that also carries names (`request.inherits`)
                n += 1
                ok = tags == {"FLAT"}
                key = repo.key(f, stmt_of(node)) + f" [{what}({norm(a, 30)})]"
                if not ok and stray_limit:
                    sf, sn = stray[0]
                    res.undecide("C09.R1", key, f"`{norm(a, 40)}` reaches {what} without a recognised truncation, but {sf.qualname} uses the limit in `{header(stmt_of(sn))}` in a way that is not understood", where(f, node))
                    continue
                if ok:
                    res.add("C09.R1", key, True, "flattened name", where(f, node), kind="flow")
                else:
                    # a may-flow finding: confronted with the values that reach this sink when the constructor is evaluated (rule_r6)
                    cx.r1_pending.append({"key": key, "f": f, "node": node, "arg": a, "what": what, "where": where(f, node)})
    for f in cons:
        for w in E.writes(f):
            if w.root_kind not in ("classvar", "global"):
                continue
            st = stmt_of(w.node)
            names_kept = any(set(flow.tags(x)) & {"RAW", "FLAT"} for x in ast.walk(st) if isinstance(x, ast.expr))
            if names_kept:
                res.add(
                    "C09.R3", repo.key(f, st) + " [state shared between graphs]", False,
                    f"`{header(st)}` keeps node names in state shared by all graphs ({w.root_kind} {w.root}.{w.field}): what was recorded while building one (limited) graph decides what another graph gets",
                    where(f, w.node), kind="effect",
                )
            else:
                res.observe(f"C09.R3: `{header(st)}` in {f.qualname} writes {w.root_kind} state during graph construction (no node name involved)")
    res.floor("C09.R1", 3, n)
    cx.r1_count = n
    res.extra["c09_flatten_sites"] = n_flat
    res.extra["c09_limit_carriers"] = sorted(fl.carriers)
    if not n_flat and not res.undecided:
        # nothing in the construction code depends on the limit at all: the limit is ignored
        lim_used = bool(fl.carriers) or stray_limit
        cx.limit_unused = "the level limit " + ("is stored but never applied to a node name" if lim_used else "is ignored by the graph") + ": the graph is not flattened"
    cx.import_records = fl.records
    return flow


# --------------------------------------------------------------------------- R2


def _eq_atom(a: ast.expr, b: ast.expr):
    x, y = sorted([norm(a), norm(b)])
    return atom(f"{x} == {y}")


def _alias_source(f: FuncInfo, e: ast.expr, depth: int = 0) -> ast.expr:
    """`v` -> `w` when `v` is bound exactly once in `f`, by `v = w` (or pairwise `v, x = w, y`) and `w` is a plain name."""
    if not isinstance(e, ast.Name) or depth > 3 or e.id in f.param_names:
        return e
    src: list[ast.expr | None] = []
    for n in own_nodes(f.node):
        if isinstance(n, ast.Assign):
            for t in n.targets:
                if isinstance(t, ast.Name) and t.id == e.id:
                    src.append(n.value)
                elif isinstance(t, (ast.Tuple, ast.List)) and any(isinstance(x, ast.Name) and x.id == e.id for x in t.elts):
                    if isinstance(n.value, (ast.Tuple, ast.List)) and len(n.value.elts) == len(t.elts):
                        src.append(n.value.elts[[isinstance(x, ast.Name) and x.id == e.id for x in t.elts].index(True)])
                    else:
                        src.append(None)
        elif isinstance(n, (ast.AnnAssign, ast.AugAssign, ast.For, ast.AsyncFor, ast.NamedExpr)) and any(isinstance(x, ast.Name) and x.id == e.id and isinstance(x.ctx, ast.Store) for x in ast.walk(n.target)):
            src.append(n.value if isinstance(n, ast.AnnAssign) else None)
    if len(src) == 1 and isinstance(src[0], ast.Name):
        w = src[0]
        # the source must not be re-bound after the alias was taken, and the alias must not sit in a loop that re-binds the source
        stores = [x for x in own_nodes(f.node) if isinstance(x, ast.Name) and x.id == w.id and isinstance(x.ctx, (ast.Store, ast.Del))]
        in_loop = any(isinstance(a, (ast.For, ast.AsyncFor, ast.While)) for a in ancestors(w) if a is not f.node)
        if all(x.lineno < w.lineno for x in stores) and not (in_loop and stores):
            return w
    return e


def _unmodified_param(f: FuncInfo, e: ast.expr) -> str | None:
    if not isinstance(e, ast.Name) or e.id not in f.param_names:
        return None
    for n in own_nodes(f.node):
        if isinstance(n, ast.Name) and n.id == e.id and isinstance(n.ctx, (ast.Store, ast.Del)):
            return None
    return e.id


def _param_path(f: FuncInfo, e: ast.expr) -> tuple[str, list[str]] | None:
    """`p` / `p.a.b` for a parameter p of `f` that is neither re-bound nor has attributes stored to in `f`: (p, [a, b])."""
    path: list[str] = []
    root = e
    while isinstance(root, ast.Attribute):
        path.append(root.attr)
        root = root.value
    if not isinstance(root, ast.Name) or root.id not in f.param_names:
        return None
    for n in own_nodes(f.node):
        if isinstance(n, ast.Name) and n.id == root.id and isinstance(n.ctx, (ast.Store, ast.Del)):
            return None
        if path and isinstance(n, ast.Attribute) and isinstance(n.ctx, (ast.Store, ast.Del)) and isinstance(n.value, ast.Name) and n.value.id == root.id:
            return None
    return root.id, list(reversed(path))


def _with_path(base: ast.expr, path: list[str]) -> ast.expr:
    out = base
    for a in path:
        out = ast.copy_location(ast.Attribute(value=out, attr=a, ctx=ast.Load()), base)
    return out


def _arg_for(callee: FuncInfo, call: ast.Call, pname: str) -> ast.expr | None:
    a = callee.node.args
    pos = [p.arg for p in [*a.posonlyargs, *a.args]]
    if callee.cls is not None and callee.outer is None and not callee.is_staticmethod and isinstance(call.func, ast.Attribute):
        pos = pos[1:]
    if any(isinstance(x, ast.Starred) for x in call.args) or any(k.arg is None for k in call.keywords):
        return None
    for k in call.keywords:
        if k.arg == pname:
            return k.value
    if pname in pos and pos.index(pname) < len(call.args):
        return call.args[pos.index(pname)]
    return None


def _expand_property_atoms(cx: Ctx, f: FuncInfo, fm, depth: int = 0):
    """`bool(edge.is_loop)` -> the formula of the property's returned expression with `self` replaced by `edge` (one-line properties of
    classes of the analysed code; guard_formula inlines helper functions, not properties of other objects)."""
    from .common import truth

    if depth > 3:
        return fm
    if fm[0] in ("and", "or"):
        return (fm[0], [_expand_property_atoms(cx, f, x, depth) for x in fm[1]])
    if fm[0] == "not":
        return f_not(_expand_property_atoms(cx, f, fm[1], depth))
    if fm[0] != "atom":
        return fm
    try:
        e = ast.parse(fm[1], mode="eval").body
    except SyntaxError:
        return fm
    if isinstance(e, ast.Call) and isinstance(e.func, ast.Name) and e.func.id == "bool" and len(e.args) == 1 and not e.keywords:
        e = e.args[0]
    if not isinstance(e, ast.Attribute):
        return fm
    try:
        t = cx.T.expr(f, e.value)
    except Exception:  # noqa: BLE001
        return fm
    impls = []
    for m in members(t):
        if m[0] == "cls" and m[1] in cx.repo.classes:
            meth = cx.repo.lookup_method(cx.repo.classes[m[1]], e.attr)
            if meth is not None and meth.is_property:
                impls.append(meth)
    if len(impls) != 1 or not impls[0].param_names:
        return fm
    body = [st for st in impls[0].node.body if not (isinstance(st, ast.Expr) and isinstance(st.value, ast.Constant))]
    if len(body) != 1 or not isinstance(body[0], ast.Return) or body[0].value is None:
        return fm
    me = impls[0].param_names[0]

    class Sub(ast.NodeTransformer):
        def visit_Name(self, n: ast.Name):  # noqa: N802
            return ast.copy_location(ast.parse(ast.unparse(e.value), mode="eval").body, n) if n.id == me else n

    new = Sub().visit(ast.parse(ast.unparse(body[0].value), mode="eval").body)
    ast.fix_missing_locations(new)
    try:
        return _expand_property_atoms(cx, f, truth(f, new), depth + 1)
    except AnalysisError:
        return fm


def guarded_distinct(cx: Ctx, cons: list[FuncInfo], f: FuncInfo, node: ast.AST, u: ast.expr, v: ast.expr, depth: int = 0) -> tuple[bool | None, str]:
    """Is `node` only evaluated when u != v?  (True / False / None = cannot tell)"""
    try:
        gf = _expand_property_atoms(cx, f, guard_formula(f, node))
        for x, y in ((u, v), (_alias_source(f, u), _alias_source(f, v))):
            if implies(gf, f_not(_eq_atom(x, y))):
                return True, f"guarded in {f.qualname}"
    except AnalysisError as e:
        return None, str(e)
    ppu, ppv = _param_path(f, u), _param_path(f, v)
    pu, pv = (ppu[0] if ppu else None), (ppv[0] if ppv else None)
    if depth < 3 and pu and pv:
        sites = []
        for h in cons:
            for c in own_nodes(h.node):
                if isinstance(c, ast.Call):
                    try:
                        cs, _ = cx.T.callees(h, c, byname_fallback=False)
                    except Exception:  # noqa: BLE001
                        cs = []
                    if f in cs:
                        sites.append((h, c))
        if sites:
            for h, c in sites:
                x, y = _arg_for(f, c, pu), _arg_for(f, c, pv)
                if x is None or y is None:
                    return None, f"call `{norm(c, 60)}` of {f.qualname} binds its arguments in a way that is not understood"
                x, y = _with_path(x, ppu[1]), _with_path(y, ppv[1])  # `edge.start` inside the callee is `<argument>.start` at the call
                ok, why = guarded_distinct(cx, cons, h, c, x, y, depth + 1)
                if not ok:
                    return ok, why
            return True, f"guarded at every call of {f.qualname}"
    return False, "not guarded"


def _asks_reachability(cx: Ctx, f: FuncInfo, e: ast.AST, depth: int = 0, seen: set | None = None) -> str | None:
    """Does evaluating `e` ask networkx whether one node can be *reached* from another (has_path, descendants, ...)?"""
    seen = seen if seen is not None else set()
    for n in ast.walk(e):
        targets: list[FuncInfo] = []
        if isinstance(n, ast.Call):
            fq = cx.repo.resolve_name(f.module, n.func) if isinstance(n.func, (ast.Name, ast.Attribute)) else None
            last = (fq or "").rsplit(".", 1)[-1]
            if fq and fq.startswith("networkx.") and ("path" in last or last in ("descendants", "ancestors") or last.startswith(("dfs_", "bfs_"))):
                return fq
            if isinstance(n.func, ast.Attribute) and cx.is_graph(f, n.func.value) and ("path" in n.func.attr or n.func.attr in ("descendants", "ancestors")):
                return n.func.attr
            try:
                targets, _ = cx.T.callees(f, n, byname_fallback=False)
            except Exception:  # noqa: BLE001
                targets = []
        elif isinstance(n, ast.Compare) and len(n.ops) == 1 and isinstance(n.ops[0], (ast.In, ast.NotIn)):
            try:
                t = cx.T.expr(f, n.comparators[0])
            except Exception:  # noqa: BLE001
                continue
            for m in members(t):
                if m[0] == "cls" and m[1] in cx.repo.classes:
                    c = cx.repo.lookup_method(cx.repo.classes[m[1]], "__contains__")
                    if c is not None:
                        targets.append(c)
        for t_ in targets:
            if t_.fq in seen or depth > 3 or isinstance(t_.node, ast.Lambda):
                continue
            seen.add(t_.fq)
            for st in t_.node.body:
                got = _asks_reachability(cx, t_, st, depth + 1, seen)
                if got:
                    return f"{got} (through {t_.qualname})"
    return None


def _flat_comparisons(cons: list[FuncInfo], flow: Flow) -> list[tuple[FuncInfo, ast.Compare]]:
    """Equality tests between two flattened names anywhere in the construction code."""
    out = []
    for f in cons:
        for n in own_nodes(f.node):
            if isinstance(n, ast.Compare) and len(n.ops) == 1 and isinstance(n.ops[0], (ast.Eq, ast.NotEq)):
                a, b = set(flow.tags(n.left)) - {"LIMIT"}, set(flow.tags(n.comparators[0])) - {"LIMIT"}
                if a == {"FLAT"} and b == {"FLAT"}:
                    out.append((f, n))
    return out


def _ledger_of(f: FuncInfo, e: ast.AST) -> tuple | None:
    """('field', attr) for `self.attr[...]...`, ('local', function, name) for a local container."""
    while isinstance(e, ast.Subscript):
        e = e.value
    if isinstance(e, ast.Attribute) and isinstance(e.value, ast.Name) and f.cls is not None and f.param_names and e.value.id == f.param_names[0]:
        return ("field", e.attr)
    if isinstance(e, ast.Name) and e.id not in f.param_names:
        return ("local", f.fq, e.id)
    return None


def pair_ledger_writes(cons: list[FuncInfo], flow: Flow) -> dict[tuple, list[tuple[FuncInfo, ast.AST, ast.expr, ast.expr]]]:
    """Containers in which the construction code records pairs of (flattened) names for a later insertion:
    `self.edges[a, b] = kind`, `self.edges.setdefault((a, b), kind)`, `edges.add((a, b))`, `edges.append((a, b, kind))`."""
    out: dict[tuple, list] = {}

    def flat(x: ast.expr) -> bool:
        return bool(set(flow.tags(x)) & {"FLAT", "RAW"})

    for f in cons:
        for n in own_nodes(f.node):
            pair = base = None
            if isinstance(n, ast.Subscript) and isinstance(n.ctx, ast.Store) and isinstance(n.slice, ast.Tuple) and len(n.slice.elts) == 2:
                pair, base = n.slice, n.value
            elif isinstance(n, ast.Call) and isinstance(n.func, ast.Attribute) and n.func.attr in ("add", "append", "setdefault", "appendleft") and n.args and isinstance(n.args[0], ast.Tuple) and len(n.args[0].elts) >= 2:
                pair, base = n.args[0], n.func.value
            if pair is None or not (flat(pair.elts[0]) and flat(pair.elts[1])):
                continue
            led = _ledger_of(f, base)
            if led is not None:
                out.setdefault(led, []).append((f, n, pair.elts[0], pair.elts[1]))
    return out


def _read_from_ledger(f: FuncInfo, node: ast.AST, u: ast.expr, v: ast.expr, ledgers: dict) -> tuple | None:
    """The ledger whose recorded pairs `u`, `v` are, when both are bound by an enclosing `for` (or comprehension) over it."""
    if not (isinstance(u, ast.Name) and isinstance(v, ast.Name)):
        return None
    for a in ancestors(node):
        gens = [(a.target, a.iter)] if isinstance(a, (ast.For, ast.AsyncFor)) else [(g.target, g.iter) for g in getattr(a, "generators", [])]
        for target, it in gens:
            names = {x.id for x in ast.walk(target) if isinstance(x, ast.Name)}
            if u.id in names and v.id in names:
                for x in ast.walk(it):
                    led = _ledger_of(f, x) if isinstance(x, (ast.Attribute, ast.Name)) else None
                    if led is not None and led in ledgers:
                        return led
                return None
    return None


def rule_r2(cx: Ctx, cons: list[FuncInfo], flow: Flow) -> None:
    res, repo = cx.res, cx.repo
    n = 0
    flat_cmp = _flat_comparisons(cons, flow)
    ledgers = pair_ledger_writes(cons, flow)
    ledger_ok: dict[tuple, bool] = {}
    for led, writes in ledgers.items():
        verdicts = [guarded_distinct(cx, cons, f, w, a, b) for f, w, a, b in writes]
        ledger_ok[led] = all(ok is True for ok, _ in verdicts)

    def undecide(key: str, detail: str, wh: str) -> None:
        cx.r2_pending.append(("undecided", key, detail, wh))

    def judge(key: str, ok: bool, detail: str, wh: str) -> None:
        if ok:
            res.add("C09.R2", key, True, detail, wh, kind="dominance")
        else:
            # no guard found on the way to this insertion: the guard may act further up (on what is recorded for a later insertion);
            # whether a self-edge can appear is then read off the construction table (C09.R6)
            cx.r2_pending.append(("violation", key, detail, wh))
    for f in cons:
        for node, what, args in cx.sink_events(f):
            if not isinstance(node, ast.Call):
                continue
            short = what.rsplit(".", 1)[-1]
            key = repo.key(f, stmt_of(node)) + " [no self-edge]"
            if short in EDGE_ADDERS:
                n += 1
                pos = list(node.args[1:] if not isinstance(node.func, ast.Attribute) else node.args)
                kw = {k.arg: k.value for k in node.keywords}
                u = pos[0] if len(pos) > 0 else kw.get("u_of_edge", kw.get("u"))
                v = pos[1] if len(pos) > 1 else kw.get("v_of_edge", kw.get("v"))
                if u is None or v is None or isinstance(u, ast.Starred) or isinstance(v, ast.Starred):
                    undecide(key, "the two ends of the inserted edge cannot be identified", where(f, node))
                    continue
                for c_, _pol in conds(f, node):
                    asks = _asks_reachability(cx, f, c_)
                    if asks:
                        res.add(
                            "C09.R2", repo.key(f, stmt_of(node)) + " [insertion independent of reachability]", False,
                            f"whether `{norm(node, 60)}` happens depends on `{norm(c_, 60)}`, which asks {asks}: an import edge between two (flattened) nodes is dropped when the target is already reachable some other way - "
                            "'a imports b' is then false in the limited graph although a module flattening to a imports one flattening to b",
                            where(f, node), kind="dominance",
                        )
                        break
                ok, why = guarded_distinct(cx, cons, f, node, u, v)
                if not ok:
                    led = _read_from_ledger(f, node, u, v, ledgers)
                    if led is not None and ledger_ok.get(led):
                        wf, wn, _a, _b = ledgers[led][0]
                        ok, why = True, f"the pairs are read from `{led[-1]}`, and every pair recorded there is tested first (`{header(stmt_of(wn))}` in {wf.qualname}" + (f" and {len(ledgers[led]) - 1} more)" if len(ledgers[led]) > 1 else ")")
                if ok is None:
                    undecide(key, why, where(f, node))
                    continue
                try:
                    in_guard = atoms_of(guard_formula(f, node))
                except AnalysisError:
                    in_guard = set()
                elsewhere = [(cf, cn) for cf, cn in flat_cmp if _eq_atom(cn.left, cn.comparators[0])[1] not in in_guard]
                if not ok and elsewhere and len(elsewhere) == len(flat_cmp):
                    cf, cn = elsewhere[0]
                    undecide(key, f"`{norm(node, 60)}` is not provably guarded by a test that its two ends differ, but {cf.qualname} compares two flattened names in `{norm(cn, 50)}`: the connection between that test and this insertion is not understood", where(f, node))
                    continue
                judge(key, bool(ok), f"an edge is only added between two different (flattened) nodes ({why})" if ok else f"`{norm(node, 70)}` is not guarded by a test that `{norm(u, 30)}` and `{norm(v, 30)}` differ: sub modules collapsed into one node import 'themselves'", where(f, node))
            elif short in BULK_EDGE_ADDERS or short.endswith("Graph(data)"):
                n += 1
                src = args[0] if args else None
                if short.endswith("Graph(data)"):
                    short = "add_edges_from"  # a graph created from an edge list inserts that list
                led = _ledger_of(f, src) if isinstance(src, (ast.Attribute, ast.Name)) else None
                if led is not None and led in ledgers and ledger_ok.get(led):
                    wf, wn, _a, _b = ledgers[led][0]
                    judge(key, True, f"the inserted pairs are those recorded in `{led[-1]}`, each of which is tested first (`{header(stmt_of(wn))}` in {wf.qualname})", where(f, node))
                    continue
                elt = None
                if isinstance(src, (ast.ListComp, ast.GeneratorExp, ast.SetComp)) and isinstance(src.elt, ast.Tuple) and len(src.elt.elts) >= 2:
                    elt = src.elt
                elif isinstance(src, (ast.List, ast.Tuple)) and len(src.elts) == 1 and isinstance(src.elts[0], ast.Tuple) and len(src.elts[0].elts) >= 2 and short != "add_path":
                    elt = src.elts[0]
                if elt is None or short not in ("add_edges_from", "add_weighted_edges_from"):
                    undecide(key, f"edges inserted in bulk through {short}: the pairs cannot be identified", where(f, node))
                    continue
                ok, why = guarded_distinct(cx, cons, f, elt, elt.elts[0], elt.elts[1])
                if not ok:
                    led = _read_from_ledger(f, elt, elt.elts[0], elt.elts[1], ledgers)
                    if led is not None and ledger_ok.get(led):
                        ok, why = True, f"the pairs are read from `{led[-1]}`, and every pair recorded there is tested first"
                if ok is None:
                    undecide(key, why, where(f, node))
                    continue
                judge(key, bool(ok), "only pairs of different (flattened) nodes are inserted" if ok else f"`{norm(node, 70)}` inserts pairs without testing that the two ends differ: collapsed sub modules import 'themselves'", where(f, node))
    res.floor("C09.R2", 1, n)


# --------------------------------------------------------------------------- R6: the construction, tabulated on a model graph


class ModelGraph:
    """A model of `networkx.DiGraph` (nodes, edges, attribute dicts; insertion-ordered) on which the constructor is evaluated."""

    def __init__(self) -> None:
        self.nodes: dict = {}
        self.edges: dict = {}
        self.unreliable: str | None = None
        m = {
            "add_node": self.add_node, "add_nodes_from": self.add_nodes_from, "add_edge": self.add_edge, "add_edges_from": self.add_edges_from,
            "has_node": self.has_node, "has_edge": self.has_edge, "get_edge_data": self.get_edge_data, "__contains__": self.has_node,
            "__getitem__": self.adj, "__iter__": lambda: list(self.nodes), "number_of_nodes": lambda: len(self.nodes), "number_of_edges": lambda: len(self.edges),
            "successors": lambda n: [v for (u, v) in self.edges if u == n], "predecessors": lambda n: [u for (u, v) in self.edges if v == n],
            "nodes": lambda: list(self.nodes), "edges": lambda: list(self.edges),
        }

        def no_options(what: str, result):
            def call(*a: object, **k: object):
                if a or k:
                    raise Unknown(f"{what}(...) with arguments is not modelled")
                return result()

            return call

        views = {
            "nodes": NativeObj("<nodes view>", {"__contains__": self.has_node, "__iter__": lambda: list(self.nodes), "__getitem__": self.node_attrs, "__call__": no_options("nodes", lambda: list(self.nodes))}, {}, poison_ok=True),
            "edges": NativeObj("<edges view>", {"__contains__": self.has_edge_pair, "__iter__": lambda: list(self.edges), "__getitem__": self.edge_attrs, "__call__": no_options("edges", lambda: list(self.edges))}, {}, poison_ok=True),
        }
        for k in views:
            del m[k]
        self.native = NativeObj("<model of networkx.DiGraph>", m, views, poison_ok=True)

    def node_attrs(self, n: object = POISON):
        if not self._ok(n):
            return POISON
        if n not in self.nodes:
            raise Raised("KeyError")
        return self.nodes[n]

    def has_edge_pair(self, e: object = POISON):
        if not isinstance(e, tuple) or len(e) != 2:
            self.unreliable = self.unreliable or "membership of something that is not a pair in the edges of the graph"
            return POISON
        return self.has_edge(*e)

    def edge_attrs(self, e: object = POISON):
        if not isinstance(e, tuple) or len(e) != 2 or not self._ok(*e):
            self.unreliable = self.unreliable or "subscript of the edges of the graph with something that is not a pair of names"
            return POISON
        if e not in self.edges:
            raise Raised("KeyError")
        return self.edges[e]

    def _ok(self, *names: object) -> bool:
        for n in names:
            if not isinstance(n, str):
                self.unreliable = self.unreliable or f"a node that is not a determined name ({n!r}) reaches the graph"
                return False
        return True

    def add_node(self, n: object = POISON, **attr: object):
        if self._ok(n):
            self.nodes.setdefault(n, {}).update(attr)

    def add_nodes_from(self, it: object = POISON, **attr: object):
        if it is POISON or isinstance(it, (str, NativeObj, Obj)):
            self.unreliable = self.unreliable or "add_nodes_from on an undetermined collection"
            return
        for n in list(it):  # type: ignore[call-overload]
            self.add_node(n, **attr)

    def add_edge(self, u: object = POISON, v: object = POISON, **attr: object):
        if self._ok(u, v):
            if any(x is POISON for x in attr.values()):
                self.unreliable = self.unreliable or "an undetermined edge attribute"
            self.nodes.setdefault(u, {})
            self.nodes.setdefault(v, {})
            self.edges.setdefault((u, v), {}).update(attr)

    def add_edges_from(self, it: object = POISON, **attr: object):
        if it is POISON or isinstance(it, (str, NativeObj, Obj)):
            self.unreliable = self.unreliable or "add_edges_from on an undetermined collection"
            return
        for e in list(it):  # type: ignore[call-overload]
            if not isinstance(e, (tuple, list)) or len(e) not in (2, 3) or (len(e) == 3 and not isinstance(e[2], dict)):
                self.unreliable = self.unreliable or "add_edges_from: an element that is not an edge"
                return
            self.add_edge(e[0], e[1], **{**attr, **(e[2] if len(e) == 3 else {})})

    def has_node(self, n: object = POISON):
        return POISON if not self._ok(n) else n in self.nodes

    def has_edge(self, u: object = POISON, v: object = POISON):
        return POISON if not self._ok(u, v) else (u, v) in self.edges

    def get_edge_data(self, u: object = POISON, v: object = POISON, default: object = None):
        return POISON if not self._ok(u, v) else self.edges.get((u, v), default)

    def adj(self, n: object = POISON):
        if not self._ok(n):
            return POISON
        if n not in self.nodes:
            raise Raised("KeyError")
        return {v: a for (u, v), a in self.edges.items() if u == n}


R6_PAIRS = (
    ("proj.core.api.handlers", "proj.core.api_v2.schema"), ("proj.core.api.handlers.v1", "proj.core.api.models.user"), ("proj.core.db.model", "proj.core.db.models.user"),
    ("proj.core.util", "proj.core.utils.text"), ("proj.core.api.handlers.v1", "proj.core.api.handlers.v2"), ("proj.a.x", "proj.b.y"), ("proj.core.api.a.b.c", "proj.core.api.a.b.d"),
    ("proj.ab", "proj.a"), ("proj.b.y", "proj.a.x"), ("proj.core.api_v2.schema", "proj.core.api_v2.schema.types"), ("pkg.one", "proj.core.db"),
)
R6_LONE_MODULES = ("proj.lonely.deep.mod.x", "solo")


def _related(a: str, b: str) -> bool:
    """One is a proper dotted prefix of the other."""
    return a.startswith(b + ".") or b.startswith(a + ".")


EXTERNAL_IMPORT = ("proj.a.x", "xml.etree.ElementTree.sub")  # an external importee deeper than every tabulated limit


def module_list_extension(cx: Ctx) -> tuple[FuncInfo, list[str]] | None:
    """What the scanning code lists for an external importee before the graph is built.  The functions between the scan and the constructor
    that take the imports and the module list and return a module list (today: ImporteeModuleCalculator.calculate_importee_modules, which
    lists the importee *and all its parents*) are evaluated on one model import of a deep external module.  Returns (function, the names
    it adds) when the importee is listed without all of its parents - the graph then has to create the truncated ancestor itself - and
    None when the list is closed under 'parent of', nothing is added, or nothing can be evaluated."""
    repo, T = cx.repo, cx.T
    a, b = EXTERNAL_IMPORT
    base = sorted({a, *_prefixes(a)})

    def synth(f: FuncInfo, p: str):
        ms = list(members(T.param_type(f, p)))
        kinds = {m[1] for m in ms if m[0] in ("b", "lib")}
        for m in ms:
            if m[0] == "b" and m[1] in ("list", "seq", "iter", "tuple", "set") and m[2]:
                el = list(members(m[2][0]))
                if any(x[0] == "cls" and x[1] in cx.import_classes for x in el):
                    return "imports", [_model_import(a, b, cx)]
                if any(x == ("b", "str", ()) for x in el) and m[1] != "tuple":
                    return "modules", list(base)
        if "pathlib.Path" in kinds:
            return "other", PurePosixPath("/srv/work/proj")
        if "str" in kinds:
            return "other", "proj."
        if "bool" in kinds:
            return "other", False
        if "tuple" in kinds:
            return "other", ()
        if kinds == {"none"}:
            return "other", None
        return "other", POISON

    seen: set[str] = set()
    for site, _call in cx.ctor_sites():
        for f in reachable_funcs(repo, [site], byname=False):
            if f.fq in seen or f is site or isinstance(f.node, ast.Lambda) or f.is_abstract or not f.module.name.startswith("pytestarch"):
                continue
            seen.add(f.fq)
            if f.cls is not None and any(c == cx.g for c in repo.mro(f.cls)):
                continue
            method = f.cls is not None and f.outer is None and not f.is_staticmethod
            params = f.param_names[1:] if method else f.param_names
            roles = {p: synth(f, p) for p in params}
            if sorted(r for r, _ in roles.values() if r != "other") != ["imports", "modules"]:
                continue
            ev = Evaluator(repo, tolerant=True)
            try:
                recv = None
                if method:
                    init = repo.lookup_method(f.cls, "__init__")
                    kw = {p: synth(init, p)[1] for p in init.param_names[1:]} if init is not None else {}
                    recv = ev._construct(f.cls, [], kw)
                out = ev.call_function(f, [], {p: v for p, (_, v) in roles.items()}, recv)
            except (Unknown, Raised):
                continue
            if ev.uncertain_exits or out is POISON or not isinstance(out, (list, set, tuple, frozenset)) or not all(isinstance(x, str) for x in out):
                continue
            added = sorted(set(out) - set(base))
            if b in added and not set(_prefixes(b)) <= set(out):
                return f, added
    return None


def rule_r6(cx: Ctx, records: list[tuple]) -> bool:
    """The constructor evaluated on model modules / imports and a model of the networkx graph, once without a limit and once per limit:
    nodes, import edges and hierarchy edges of the limited graph are those of the full graph with truncated names (self-edges dropped)."""
    res = cx.res
    key = f"{cx.g.module.relpath}::{cx.g.name}::the limited graph is the quotient of the full graph (model inputs)"
    imports: list = [_model_import(a, b, cx) for a, b in R6_PAIRS]
    ends: list[tuple[str, str, str]] = [(a, b, "") for a, b in R6_PAIRS]
    # relative imports: those with the longest parents list of their own first, and those that leave the importer's package
    for rec in sorted(records, key=lambda r: (-len(r[3]), r[0].split(".")[:2] == r[1].split(".")[:2]))[:5]:
        imports.append(_record_import(rec))
        ends.append((rec[0], rec[1], f" ({rec[4]}, importee_parent_modules() = {list(rec[3])})"))
    names: set[str] = set(R6_LONE_MODULES)
    for a, b, _ in ends:
        names |= {a, b, *_prefixes(a), *_prefixes(b)}
    for n in R6_LONE_MODULES:
        names |= set(_prefixes(n))
    modules = sorted(names)
    graphs: dict[object, ModelGraph] = {}
    created: list[ModelGraph] = []

    def factory(args: list, kwargs: dict):
        g = ModelGraph()
        data = args[0] if args else kwargs.get("incoming_graph_data")
        if len(args) > 1 or set(kwargs) - {"incoming_graph_data"}:
            g.unreliable = "the networkx graph is created with attributes"
        elif data is not None:
            if data is POISON or isinstance(data, (str, dict, Obj, NativeObj)):
                g.unreliable = "the networkx graph is created from data that is not a list of edges"
            else:
                try:
                    g.add_edges_from(list(data))
                except TypeError:
                    g.unreliable = "the networkx graph is created from data that is not a list of edges"
        created.append(g)
        return g.native

    # sinks for which the static flow (R1) could not show a truncation: the values that reach them are recorded
    seen_at: dict[int, dict[object, list]] = {}

    def watch(ev: Evaluator, lim: object) -> None:
        for k, p in enumerate(cx.r1_pending):
            a = p["arg"]
            if any(isinstance(x, (ast.Call, ast.Lambda, ast.NamedExpr, ast.Await, ast.Yield, ast.YieldFrom, ast.ListComp, ast.SetComp, ast.DictComp, ast.GeneratorExp)) for x in ast.walk(a)):
                continue  # evaluating it a second time could have effects
            st = stmt_of(p["node"])

            def hook(fr: Frame, a=a, k=k, lim=lim) -> None:
                try:
                    v = Evaluator(cx.repo, tolerant=True).ev(a, fr)
                except (Unknown, Raised):
                    v = POISON
                seen_at.setdefault(k, {}).setdefault(lim, []).append(v)

            prev = ev.stmt_hooks.get(id(st))
            ev.stmt_hooks[id(st)] = hook if prev is None else (lambda fr, h1=prev, h2=hook: (h1(fr), h2(fr)))

    def build(ev: Evaluator, lim: object, observe: bool = False) -> tuple[ModelGraph | None, str | None]:
        del created[:]
        before = ev.uncertain_exits
        if observe and lim is not None:
            watch(ev, lim)
        try:
            ev._construct(cx.g, [], {cx.modules_param: list(modules), cx.imports_param: list(imports), cx.limit_param: lim})
        except (Unknown, Raised) as e:
            return None, f"the constructor cannot be evaluated for limit {lim}: {e}"
        if len(created) != 1:
            return None, f"{len(created)} networkx graphs are created"
        if created[0].unreliable:
            return None, created[0].unreliable
        if ev.uncertain_exits != before:
            return None, "a condition of the construction cannot be evaluated" + (f" ({'; '.join(ev.notes[-2:])})" if ev.notes else "")
        return created[0], None

    models = {"networkx.DiGraph": factory, "networkx.classes.digraph.DiGraph": factory}
    for lim in (None, 1, 2, 3):
        g_, why = build(Evaluator(cx.repo, tolerant=True, lib_models=models), lim, observe=True)
        if g_ is None:
            res.observe(f"C09.R6: the construction is not tabulated on the model graph ({why}); the other rules decide")
            return False
        graphs[lim] = g_
    cx.r6_seen = seen_at
    full = graphs[None]
    if not full.nodes or not full.edges:
        res.observe("C09.R6: the model graph stays empty without a limit; the other rules decide")
        return False

    def kinds(g: ModelGraph) -> tuple[set, set]:
        imp = {e for e, a in g.edges.items() if not a.get("inherits")}
        return imp, set(g.edges) - imp

    imp0, inh0 = kinds(full)
    for lim in (1, 2, 3):
        g = graphs[lim]
        t = lambda x, lim=lim: trunc(x, lim)  # noqa: E731
        want_nodes = {t(n) for n in full.nodes}
        problem = None
        if set(g.nodes) != want_nodes:
            extra, missing = sorted(set(g.nodes) - want_nodes), sorted(want_nodes - set(g.nodes))
            problem = f"nodes {missing[:3]} are missing" if missing else f"nodes {extra[:3]} are not truncated names of modules of the full graph"
        elif any(u == v for u, v in g.edges):
            u = next(u for u, v in g.edges if u == v)
            src = next(((a, b, note) for a, b, note in ends if t(a) == u and t(b) == u), None)
            problem = f"the node {u} has an edge to itself" + (f" ({src[0]} imports {src[1]}{src[2]}: both flatten to {u})" if src else "")
        else:
            impk, inhk = kinds(g)
            want_imp = {(t(u), t(v)) for u, v in imp0 if t(u) != t(v)}
            want_inh = {(t(u), t(v)) for u, v in inh0 if t(u) != t(v)}
            # an import between a module and its own ancestor / descendant shares its node pair with a hierarchy edge: which flag survives is
            # a matter of insertion order (also without a limit), not of the quotient
            clash = {e for e in want_imp | impk if _related(*e)}
            lost, added = sorted(want_imp - impk - clash), sorted(impk - want_imp - clash)
            if lost:
                u, v = lost[0]
                src = next(((a, b, note) for a, b, note in ends if t(a) == u and t(b) == v), None)
                problem = f"the import edge {u} -> {v} is missing" + (f" although {src[0]} imports {src[1]}{src[2]}" if src else "")
            elif added:
                problem = f"there is an import edge {added[0][0]} -> {added[0][1]} that no import of the full graph flattens to"
            else:
                lost_h, added_h = sorted(want_inh - inhk - want_imp), sorted(inhk - want_inh - want_imp)
                if lost_h:
                    problem = f"the parent-child edge {lost_h[0][0]} -> {lost_h[0][1]} is missing"
                elif added_h:
                    problem = f"there is a parent-child edge {added_h[0][0]} -> {added_h[0][1]} that no edge of the full graph flattens to"
        if problem:
            res.add(
                "C09.R6", key, False,
                f"{GRAPH_CLASS} evaluated on {len(modules)} model modules and {len(imports)} model imports: with level_limit={lim} {problem} - the limited graph is not the full graph with every name truncated to {lim + 1} parts",
                where(cx.init, cx.init.node), kind="decision-table",
            )
            return True
    # the module list as the scanning code hands it over for an external importee below the limit: when its parents are not listed, the
    # graph must still contain the truncated ancestor and the import edge to it
    ext = module_list_extension(cx)
    if ext is not None:
        fn, added = ext
        a, b = EXTERNAL_IMPORT
        saved_m, saved_i = list(modules), list(imports)
        modules[:] = sorted(set(modules) | set(added))
        imports[:] = [*imports, _model_import(a, b, cx)]
        try:
            ext_graphs = {}
            for lim in (None, 1, 2, 3):
                g_, why = build(Evaluator(cx.repo, tolerant=True, lib_models=models), lim)
                if g_ is None:
                    break
                ext_graphs[lim] = g_
        finally:
            modules[:], imports[:] = saved_m, saved_i
        if len(ext_graphs) == 4:
            for lim in (1, 2, 3):
                want = {trunc(n, lim) for n in ext_graphs[None].nodes}
                missing = sorted(want - set(ext_graphs[lim].nodes))
                edge = (trunc(a, lim), trunc(b, lim))
                lost_edge = (a, b) in ext_graphs[None].edges and edge not in ext_graphs[lim].edges
                if missing or lost_edge:
                    res.add(
                        "C09.R6", key, False,
                        f"{fn.qualname} lists the external importee {b} as {added} (not all of its parent modules); {GRAPH_CLASS} evaluated on that module list: with level_limit={lim} "
                        + (f"the nodes {missing[:3]} are missing" if missing else f"the import edge {edge[0]} -> {edge[1]} is missing")
                        + f" although the graph without a limit has {sorted(n for n in ext_graphs[None].nodes if n.startswith(b.split('.')[0]))[:4]} and the edge {a} -> {b}: nobody creates the truncated ancestor of a module that is skipped because it lies below the limit",
                        where(cx.init, cx.init.node), kind="decision-table",
                    )
                    return True
    # graphs built one after the other in one process (module-level and class-level values persist): each is what it is when built first
    shared = Evaluator(cx.repo, tolerant=True, lib_models=models)
    prev = None
    for lim in (2, None, 1, 3, None):
        g_, why = build(shared, lim)
        if g_ is None:
            res.observe(f"C09.R6: graphs built one after the other are not tabulated ({why})")
            break
        ref = graphs[lim]
        if set(g_.nodes) != set(ref.nodes) or g_.edges != ref.edges:
            diff = sorted(set(g_.nodes) ^ set(ref.nodes))[:3] or sorted(set(g_.edges) ^ set(ref.edges))[:2] or [e for e in ref.edges if g_.edges.get(e) != ref.edges[e]][:2]
            res.add(
                "C09.R6", f"{cx.g.module.relpath}::{cx.g.name}::a graph does not depend on graphs built before it", False,
                f"{GRAPH_CLASS} with level_limit={lim} built after a graph with level_limit={prev} differs from the same graph built first (e.g. {diff}): something recorded while building one graph is used for the next",
                where(cx.init, cx.init.node), kind="decision-table",
            )
            return True
        prev = lim
    res.add("C09.R6", key, True, f"{GRAPH_CLASS} evaluated on {len(modules)} model modules and {len(imports)} model imports (absolute and relative) for limits None, 1, 2, 3: nodes, import edges and parent-child edges of each limited graph are the truncated ones of the full graph", where(cx.init, cx.init.node), kind="decision-table")
    return True


# --------------------------------------------------------------------------- R4: the limit handed to the graph


class Capture:
    def __init__(self, cx: Ctx) -> None:
        self.cx = cx
        self.calls: list[tuple[list, dict, bool]] = []

    def __call__(self, args: list, kwargs: dict, uncertain: bool):
        self.calls.append((args, kwargs, uncertain))
        return POISON

    def limit(self) -> tuple[str, object]:
        """("ok", value) | ("none", reason)"""
        if len(self.calls) != 1:
            return "none", f"{len(self.calls)} constructions of {GRAPH_CLASS} on this path"
        args, kwargs, unc = self.calls[0]
        if unc:
            return "none", "the construction is reached on a path whose conditions cannot be evaluated"
        if self.cx.limit_param in kwargs:
            v = kwargs[self.cx.limit_param]
        elif len(args) > self.cx.limit_index:
            v = args[self.cx.limit_index]
        else:
            v = None  # the constructor's default: no limit
        if v is POISON:
            return "undetermined", "the limit handed to the graph depends on something that cannot be evaluated"
        return "ok", v


def _module_object(path: str):
    return NativeObj(f"<module {path}>", {}, {"__file__": path + "/__init__.py", "__name__": path.rsplit("/", 1)[-1]})


def _entry_arguments(cx: Ctx, entry: FuncInfo, style: str, root: str, sub: str) -> tuple[list, dict, str | None]:
    """Arguments for one call of an entry point (all but the limit) and the name of its limit parameter."""
    mp = root + sub
    if style == "paths":
        args, kwargs = [root, mp], {}
    elif style == "modules":
        args, kwargs = [_module_object(root), _module_object(mp)], {}
    else:  # generate_graph(root_path, module_path, diff, exclusions, exclude_external, limit, external_exclusions)
        diff = sub.strip("/").replace("/", ".") or "."
        args, kwargs = [], {}
        for p in entry.param_names:
            t = cx.T.param_type(entry, p)
            ks = {m[1] if m[0] == "b" else (m[1] if m[0] == "lib" else m[0]) for m in members(t)}
            if "level_limit" in p:
                continue
            if "pathlib.Path" in ks:
                kwargs[p] = PurePosixPath(mp if "module" in p else root)
            elif "str" in ks and "tuple" not in ks:
                kwargs[p] = diff
            elif "bool" in ks:
                kwargs[p] = True
            elif "tuple" in ks:
                kwargs[p] = None if "none" in ks else ()
            else:
                kwargs[p] = POISON
    lp = next((p for p in entry.param_names if p == "level_limit"), None) or next((p for p in entry.param_names if "limit" in p), None)
    return args, kwargs, lp


def repeated_calls(cx: Ctx, entry: FuncInfo, style: str) -> list[tuple]:
    """Two calls of the entry point for the same paths with different limits, evaluated one after the other on the *same* evaluator
    (module-level and class-level values persist between the calls, as they do in one Python process).  Yields
    (first limit, second limit, depth, module path, outcome) for every second call whose outcome is certain and is not 'one graph
    constructed with the user's limit plus the depth'; outcome = ("no-construction",) | ("value", v)."""
    bad: list[tuple] = []
    root = "/srv/work/proj"
    for sub in ("", "/core/domain"):
        depth = sub.count("/")
        for first, second in ((1, 2), (None, 1), (2, None)):
            caps = [Capture(cx), Capture(cx)]
            ev = Evaluator(cx.repo, tolerant=True, intercept={cx.g.fq: caps[0]})
            ok = True
            for k, lim in enumerate((first, second)):
                ev.intercept[cx.g.fq] = caps[k]
                before = ev.uncertain_exits
                try:
                    args, kwargs, lp = _entry_arguments(cx, entry, style, root, sub)
                    if lp is None:
                        return []
                    kwargs[lp] = lim
                    ev.call_function(entry, args, kwargs)
                except (Raised, Unknown):
                    if not caps[k].calls:
                        ok = False
                        break
                st, v = caps[k].limit()
                want = None if lim is None else lim + depth
                if k == 0:
                    if st != "ok" or v != want:
                        ok = False  # the first call is what the single-call table judges
                        break
                    continue
                if not ok:
                    break
                if st == "ok" and v != want:
                    bad.append((first, second, depth, root + sub, ("value", v)))
                elif not caps[k].calls and ev.uncertain_exits == before:
                    bad.append((first, second, depth, root + sub, ("no-construction",)))
    return bad


def tabulate_limit(cx: Ctx, entry: FuncInfo, style: str) -> tuple[list[tuple], str | None]:
    """Rows (user limit, depth, outcome) of the limit received by the graph; or the reason why it cannot be tabulated."""
    rows: list[tuple] = []
    root = "/srv/work/proj"
    subs = ["", "/core", "/core/domain", "/core/domain/model", "/proj", "/libs/proj/core"]  # the last two repeat the root's own name
    for lim in (None, 1, 2, 5):
        for sub in subs:
            depth = sub.count("/")
            cap = Capture(cx)
            ev = Evaluator(cx.repo, tolerant=True, intercept={cx.g.fq: cap})
            mp = root + sub
            try:
                args, kwargs, lp = _entry_arguments(cx, entry, style, root, sub)
                if lp is None:
                    return rows, f"{entry.qualname} has no level_limit parameter"
                kwargs[lp] = lim
                ev.call_function(entry, args, kwargs)
            except Raised as r:
                if not cap.calls:
                    if lim is None and r.name == "TypeError":
                        rows.append((lim, depth, ("raise", r.name), mp))  # arithmetic on a missing limit
                        continue
                    return rows, f"{entry.qualname} raises {r.name} for level_limit={lim}, module_path {depth} level(s) below root_path"
            except Unknown as u:
                if not cap.calls:
                    return rows, f"{entry.qualname} cannot be evaluated: {u}"
            st, v = cap.limit()
            if st != "ok":
                return rows, ("!" if st == "undetermined" else "") + f"{entry.qualname}: {v}" + (f" ({'; '.join(ev.notes[-2:])})" if ev.notes else "")
            rows.append((lim, depth, ("value", v), mp))
    return rows, None


def rule_r4(cx: Ctx, scan_depends_on_limit: bool = False) -> None:
    res, repo = cx.res, cx.repo
    cx.scan_depends_on_limit = scan_depends_on_limit
    m = repo.modules.get(ENTRY_MODULE)
    entries: list[tuple[FuncInfo, str]] = []
    if m is not None:
        if ENTRIES[0] in m.functions:
            entries.append((m.functions[ENTRIES[0]], "paths"))
        if ENTRIES[1] in m.functions:
            entries.append((m.functions[ENTRIES[1]], "modules"))
    decided = 0
    problems: list[str] = []
    for entry, style in entries:
        rows, why = tabulate_limit(cx, entry, style)
        if why is not None:
            if why.startswith("!"):
                # the value itself is out of reach (not only the way to it): tabulating a later function would hide that
                res.undecide("C09.R4", f"{entry.relpath}::{entry.qualname}::limit handed to the graph", why[1:], where(entry, entry.node))
                decided += 1
                continue
            problems.append(why)
            continue
        decided += 1
        _judge_limit_rows(cx, entry, rows)
        _judge_repeated_calls(cx, entry, style)
    if not decided:
        # the public entry points cannot be evaluated: tabulate the function that constructs the graph
        builders = [f for f, _c in cx.ctor_sites() if f.outer is None and f.cls is None]
        gg = repo.find_func(GG, "generate_graph")
        for b in ([gg] if gg is not None and (gg in builders or not builders) else builders[:2]):
            rows, why = tabulate_limit(cx, b, "generate")
            if why is None:
                decided += 1
                _judge_limit_rows(cx, b, rows)
                _judge_repeated_calls(cx, b, "generate")
            else:
                problems.append(why)
    if not decided:
        res.undecide("C09.R4", f"{ENTRY_MODULE}::{ENTRIES[0]}", "the limit handed to the graph cannot be tabulated: " + " | ".join(problems[:3]))
    else:
        for p in problems:
            res.observe(f"C09.R4: {p}")


def _judge_repeated_calls(cx: Ctx, entry: FuncInfo, style: str) -> None:
    """The limit reaches the graph on *every* call: an architecture built for one limit is not served to a later call that asks for
    another (a cache of graphs / architectures whose key lacks the limit)."""
    res, repo = cx.res, cx.repo
    bad = repeated_calls(cx, entry, style)
    key = f"{entry.relpath}::{entry.qualname}::a later call with another limit gets its own graph"
    if not bad:
        res.add("C09.R4", key, True, "two calls for the same paths with different limits, evaluated on shared module / class state: the second graph is constructed with its own limit", where(entry, entry.node), kind="decision-table")
        return
    first, second, depth, mp, out = bad[0]
    # name the state that outlives the call (for the report; the evidence is the evaluation)
    E = Effects(repo, cx.T)
    kept: list[str] = []
    site = None
    for f in reachable_funcs(repo, [entry], byname=False):
        if f in construction_functions(cx) or not f.module.name.startswith("pytestarch"):
            continue
        for w in E.writes(f):
            if w.root_kind in ("classvar", "global") and len(kept) < 3:
                kept.append(f"`{header(stmt_of(w.node))}` in {f.qualname} ({w.root_kind} {w.root}.{w.field})")
                site = site or (f, w.node)
    got = "no graph is constructed (the result of the first call is returned)" if out[0] == "no-construction" else f"the graph receives limit {out[1]!r}"
    want = None if second is None else second + depth
    res.add(
        "C09.R4", key, False,
        f"after a call with level_limit={first}, a call with level_limit={second} for the same paths (root /srv/work/proj, module {mp}): {got}, expected a graph with limit {want!r}"
        + (f"; state that outlives the call: {'; '.join(kept)}" if kept else "")
        + " - the architecture is then the quotient for another limit than the one asked for",
        where(*site) if site else where(entry, entry.node), kind="decision-table",
    )


def _judge_limit_rows(cx: Ctx, entry: FuncInfo, rows: list[tuple]) -> None:
    res = cx.res
    base = f"{entry.relpath}::{entry.qualname}"

    def show(lim, depth, out, mp=""):
        got = out[1] if out[0] == "value" else f"raises {out[1]}"
        return f"level_limit={lim}, module_path {depth} level(s) below root_path (root /srv/work/proj, module {mp}): the graph receives limit {got!r}"

    limited = [r[2] for r in rows if r[0] is not None]
    if limited and all(o == ("value", None) for o in limited) and getattr(cx, "scan_depends_on_limit", False):
        # the graph never sees the limit, but the module / import list handed to it is computed from the limit: the truncation may have
        # moved in front of the graph - a design these rules do not follow
        res.undecide("C09.R4", f"{base}::limit handed to the graph", "the graph is built without a limit while the scanned modules / imports depend on the limit: flattening seems to happen before the graph is built, which these rules cannot follow", where(entry, entry.node))
        return
    none_rows = [r for r in rows if r[0] is None]
    bad = [r for r in none_rows if r[2] != ("value", None)]
    res.add("C09.R4", f"{base}::None stays None", not bad, "no limit stays no limit for every root/module path difference" if not bad else f"a missing limit is not passed through as None: {show(*bad[0])}", where(entry, entry.node), kind="decision-table")
    same = [r for r in rows if r[0] is not None and r[1] == 0]
    bad = [r for r in same if r[2] != ("value", r[0])]
    res.add("C09.R4", f"{base}::limit reaches the graph unchanged when the paths coincide", not bad, "root_path == module_path: the graph receives the user's limit" if not bad else f"{show(*bad[0])}, expected {bad[0][0]}", where(entry, entry.node), kind="decision-table")
    deep = [r for r in rows if r[0] is not None and r[1] > 0]
    bad = [r for r in deep if r[2] != ("value", r[0] + r[1])]
    res.add(
        "C09.R4", f"{base}::offset counts the levels between root_path and module_path", not bad,
        f"tabulated over {len(deep)} (limit, path difference) pairs: graph limit = user limit + number of levels between the paths" if not bad else f"{show(*bad[0])}, expected {bad[0][0] + bad[0][1]} (a difference of n levels must add n, otherwise modules k levels below module_path are cut away or kept)",
        where(entry, entry.node), kind="decision-table",
    )


# --------------------------------------------------------------------------- driver


def run(repo: Repo) -> Result:
    res = Result("C09")
    res.explanation = (
        "Decides the flattening mechanism: (R1) by data flow from the constructor's module list and the Import accessors, every node name "
        "reaching the networkx graph during construction has passed a truncation; (R2) every edge insertion is guarded by a test that the two "
        "(flattened) ends differ, and every other limit-dependent test on a pair of names is (tabulated) the same-node test; (R3) that truncation - whatever its spelling: method, function, partial, lambda - is tabulated over a finite "
        "table of names and limits and equals 'first limit+1 dotted components', identity without a limit, and shares no state between graphs; "
        "(R4) tabulated from get_evaluable_architecture down to the constructor call, the graph receives the user's limit plus the number of "
        "levels between root_path and module_path, None stays None; (R5) the limit does not act on the scanned modules / imports in any other way."
    )
    res.not_decided = "the quotient law as an equality between two scans, and verdict preservation (both relate two runs)."
    res.trusted_base = ["engine flow analysis / CFG", "rules/c09_eval.py: finite-domain evaluator of pure str/int computations (whitelisted operations, nothing of pytestarch is imported or run)"]
    cx = Ctx(repo, res)

    def guarded(rule: str, what: str, fn, *a):
        """A rule that fails internally has no verdict: undecided, never a crash and never silence."""
        try:
            return fn(*a)
        except AnalysisError:
            raise
        except Exception as e:  # noqa: BLE001
            import traceback

            tb = traceback.extract_tb(e.__traceback__)[-1]
            res.undecide(rule, f"{cx.g.module.relpath}::{cx.g.name}::{what}", f"the rule failed internally ({type(e).__name__}: {e} at {tb.filename.rsplit('/', 1)[-1]}:{tb.lineno}) - no verdict", where(cx.init, cx.init.node))
            return None

    cons = guarded("C09.R1", "construction code", construction_functions, cx)
    flow = guarded("C09.R1", "flow to the graph sinks", rule_r1_r3, cx, cons) if cons is not None else None
    if flow is not None:
        guarded("C09.R2", "self-edge tests", rule_r2, cx, cons, flow)
    tabulated = bool(guarded("C09.R6", "construction table", rule_r6, cx, getattr(cx, "import_records", [])))
    r6_passed = tabulated and not any(o.rule == "C09.R6" and not o.ok for o in res.obligations)
    for kind, key, detail, wh in cx.r2_pending:
        if r6_passed:
            res.add(
                "C09.R2", key, True,
                f"no test that the two ends differ is visible on the way to this insertion ({detail[:160]}); the constructor evaluated on the model inputs (C09.R6: imports whose ends "
                "flatten to the same node for limits 1, 2 and 3 included) inserts no edge from a node to itself and yields the quotient graph: the test acts before the insertion (e.g. on what is recorded for it)",
                wh, kind="dominance",
            )
        elif kind == "violation":
            res.add("C09.R2", key, False, detail, wh, kind="dominance")
        else:
            res.undecide("C09.R2", key, detail, wh)
    if getattr(cx, "limit_unused", None):
        # no expression of the construction code was recognised as the truncation: that is non-recognition, not evidence.  What the limit
        # does to the graph is read off the evaluated constructor (C09.R6): flattened -> fine; not the quotient -> C09.R6 reports it
        if r6_passed:
            res.observe(f"C09.R3: no truncation was recognised in the construction code ({cx.limit_unused}) - contradicted by the construction table (C09.R6), which finds the limited graphs flattened")
        elif tabulated:
            res.observe(f"C09.R3: no truncation was recognised in the construction code ({cx.limit_unused}); the construction table (C09.R6) reports what the limited graph looks like")
        else:
            res.undecide("C09.R3", f"{cx.g.module.relpath}::{cx.g.name}::the limit reaches a truncation", "no expression of the construction code was recognised as the truncation of node names, and the constructor cannot be evaluated on model inputs either", where(cx.init, cx.init.node))
    for k, p in enumerate(cx.r1_pending):
        a = p["arg"]
        obs = getattr(cx, "r6_seen", {}).get(k, {}) if tabulated and (r6_passed or p.get("untracked")) else {}
        values = {lim: [x for v in vs if not isinstance(v, (bool, int, float, type(None))) for x in (Flattening._leaves(v) or [POISON])] for lim, vs in obs.items()}
        if obs and all(obs.get(lim) for lim in (1, 2, 3)) and not any(values.values()):
            res.observe(f"C09.R1: `{norm(a, 40)}` at {p['what']} only ever holds flags / numbers / None when the constructor is evaluated: not a node name")
            continue
        contradicted = bool(values) and all(values.get(lim) for lim in (1, 2, 3)) and all(isinstance(x, str) and trunc(x, lim) == x for lim, xs in values.items() for x in xs)
        if p.get("untracked"):
            # no static claim either way: only what was observed counts
            names = {lim: [x for x in xs if isinstance(x, str)] for lim, xs in values.items()}
            raw = next(((lim, x) for lim in (1, 2, 3) for x in names.get(lim, []) if trunc(x, lim) != x), None)
            if raw is not None:
                res.add(
                    "C09.R1", p["key"], False,
                    f"when the constructor is evaluated on the model inputs with level_limit={raw[0]}, `{norm(a, 40)}` holds the un-truncated name {raw[1]!r} at this {p['what']}: nodes/edges below the limit enter the graph (or are looked up) un-truncated",
                    p["where"], kind="flow",
                )
            elif contradicted:
                cx.r1_count = getattr(cx, "r1_count", 0) + 1
                res.add("C09.R1", p["key"], True, f"`{norm(a, 40)}` is not reached by the static flow; every value it holds at this {p['what']} when the constructor is evaluated on the model inputs (limits 1, 2, 3) is a truncated name", p["where"], kind="flow")
            continue
        if contradicted:
            n_obs = sum(len(xs) for xs in values.values())
            res.add(
                "C09.R1", p["key"], True,
                f"the static flow cannot follow `{norm(a, 40)}` to a truncation, but every value that reaches this {p['what']} when the constructor is evaluated on the model inputs (limits 1, 2, 3; {n_obs} values, deep names included) is a truncated name",
                p["where"], kind="flow",
            )
        else:
            res.add(
                "C09.R1", p["key"], False,
                f"`{norm(a, 40)}` reaches {p['what']} without having passed the level-limit truncation: with a level limit, nodes/edges below the limit enter the graph (or are looked up) un-truncated",
                p["where"], kind="flow",
            )
    if "C09.R1" in res.floors:
        # a design that inserts in bulk (`add_nodes_from(ledger)`, `add_edges_from(...)`) has fewer sinks than today's code: one judged
        # sink is enough when the evaluated constructor confirms the quotient, otherwise the old floor guards against a vacuous pass
        res.floor("C09.R1", 1 if r6_passed else res.floors["C09.R1"][0], getattr(cx, "r1_count", res.floors["C09.R1"][1]))
    for pkey, detail, wh in cx.pending_unary:
        if tabulated:
            res.observe(f"C09.R2: {detail} - judged by the construction table (C09.R6)")
        else:
            res.undecide("C09.R2", pkey, detail, wh)
    from .c09_r5 import rule_r5

    scan_depends = bool(guarded("C09.R5", "pre-filters", rule_r5, cx))
    guarded("C09.R4", "limit handed to the graph", rule_r4, cx, scan_depends)
    return res
