"""C09 - level_limit yields the quotient graph and preserves verdicts above the limit.

  C09.R1  every node name reaching a graph sink (add_node / add_edge / has_node / has_edge / get_edge_data / membership / self-edge
          comparison) during construction has passed the flattening function
  C09.R2  the self-edge test is made on flattened names and dominates add_edge
  C09.R3  flattening = first (limit + 1) dotted components, identity without a limit; the function is pure
  C09.R4  the limit handed to the graph is the user's limit plus the number of dotted components between root_path and module_path;
          None stays None
"""

from __future__ import annotations

import ast

from core.effects import Effects
from core.flow import Flow, Spec
from core.guards import atom, f_not, implies
from core.loader import AnalysisError, FuncInfo, Repo, ancestors, calls_in, header, norm, own_nodes, parent
from core.report import Result

from .common import cfg_of, conds, dotted, guard_formula, is_attr_call, reachable_funcs, stmt_of, types_of, where

NXGRAPH = "pytestarch.eval_structure.networkxgraph"
GG = "pytestarch.eval_structure_generation.graph_generation.graph_generator"
SINKS = {"add_node", "add_edge", "has_node", "has_edge", "get_edge_data", "add_nodes_from", "add_edges_from"}


def run(repo: Repo) -> Result:
    res = Result("C09")
    res.explanation = (
        "Decides the flattening mechanism structurally: (R1) during graph construction every node name reaching a networkx sink or the "
        "self-edge comparison has passed _flatten_graph_node; (R2) the self-edge test on flattened names dominates add_edge; (R3) flattening "
        "keeps the first limit+1 dotted components, is the identity without a limit and is a pure function of (name, limit); (R4) the limit "
        "given to the graph is the user's limit plus the number of dotted components between root_path and module_path, None stays None."
    )
    res.not_decided = "the quotient law as an equality between two scans, and verdict preservation (both relate two runs)."
    res.trusted_base = ["engine flow analysis / CFG"]
    T = types_of(repo)
    g = repo.cls(NXGRAPH, "NetworkxGraph")
    init = g.methods.get("__init__")
    flat = g.methods.get("_flatten_graph_node")
    if init is None or flat is None:
        raise AnalysisError("NetworkxGraph.__init__ / _flatten_graph_node not found")
    construction = [f for f in reachable_funcs(repo, [init], byname=False) if f.cls is g and f is not flat]
    # parameters that carry node names into the construction helpers (annotated Node / list[Node])
    seeds = {}

    def sources(f: FuncInfo, e: ast.expr):
        if isinstance(e, ast.Attribute) and dotted(e) in ("self._all_modules",):
            return {"RAW"}
        if isinstance(e, ast.Call) and isinstance(e.func, ast.Attribute) and e.func.attr in ("importer", "importee", "importer_parent_modules", "importee_parent_modules"):
            return {"RAW"}
        if isinstance(e, ast.Call) and dotted(e.func) == "get_parent_modules":
            return {"RAW"}
        return None

    def transfer(f: FuncInfo, call: ast.Call, names, args, recv, kwargs):
        if isinstance(call.func, ast.Attribute) and call.func.attr == flat.name:
            return {"FLAT"}
        return None

    flow = Flow(repo, T, Spec(sources=sources, transfer=transfer, param_seeds=seeds, objects_carry=False, scope=lambda f: f in construction))
    n = 0
    sink_funcs = set()
    for f in construction:
        for node in own_nodes(f.node):
            args = []
            what = ""
            if isinstance(node, ast.Call) and isinstance(node.func, ast.Attribute) and node.func.attr in SINKS and "_graph" in norm(node.func.value):
                args, what = list(node.args), node.func.attr
            elif isinstance(node, ast.Compare) and isinstance(node.ops[0], (ast.In, ast.NotIn)) and "_graph" in norm(node.comparators[0]):
                args, what = [node.left], "membership"
            elif isinstance(node, ast.Compare) and isinstance(node.ops[0], (ast.Eq, ast.NotEq)) and all("RAW" in flow.tags(x) or "FLAT" in flow.tags(x) for x in [node.left, node.comparators[0]]):
                args, what = [node.left, node.comparators[0]], "self-edge comparison"
            for a in args:
                tags = set(flow.tags(a))
                if not tags:
                    continue
                n += 1
                sink_funcs.add(f.qualname)
                ok = tags == {"FLAT"}
                res.add(
                    "C09.R1",
                    repo.key(f, stmt_of(node)) + f" [{what}({norm(a, 30)})]",
                    ok,
                    "flattened name" if ok else f"`{norm(a, 40)}` reaches {what} without having passed {flat.name}: with a level limit, nodes/edges below the limit enter the graph (or are looked up) un-truncated",
                    where(f, node),
                    kind="flow",
                )
    res.floor("C09.R1", 8, n)
    # ---- R2
    ce = g.methods.get("_create_edge")
    if ce is None:
        raise AnalysisError("NetworkxGraph._create_edge not found")
    adds = [c for c in calls_in(ce.node) if is_attr_call(c, "add_edge")]
    if len(adds) != 1:
        raise AnalysisError("NetworkxGraph._create_edge: add_edge call not found")
    a0, a1 = sorted([norm(adds[0].args[0]), norm(adds[0].args[1])])
    gf = guard_formula(ce, adds[0])
    ok = implies(gf, f_not(atom(f"{a0} == {a1}")))
    res.add("C09.R2", repo.key(ce, stmt_of(adds[0])) + " [no self-edge]", ok, "an edge is only added between two different (flattened) nodes" if ok else "add_edge is not guarded by the self-edge test: sub modules collapsed into one node import 'themselves'", where(ce, adds[0]), kind="dominance")
    # ---- R3
    lim = None
    rets = [s for s in own_nodes(flat.node) if isinstance(s, ast.Return) and s.value is not None]
    p = flat.param_names[1]
    ident = [r for r in rets if dotted(r.value) == p]
    cut = [r for r in rets if r not in ident]
    ok_ident = len(ident) == 1 and implies(guard_formula(flat, ident[0]), atom("self._level_limit is None"))
    res.add("C09.R3", f"{flat.relpath}::{flat.qualname}::identity without limit", ok_ident, "without a limit names are unchanged" if ok_ident else "names are not returned unchanged exactly when no limit is set", where(flat, flat.node), kind="dominance")
    ok_cut = False
    detail = "no expression of the form '.'.join(name.split('.')[: limit + 1]) found"

    def matches(v: ast.expr) -> bool:
        if not (isinstance(v, ast.Call) and isinstance(v.func, ast.Attribute) and v.func.attr == "join" and isinstance(v.func.value, ast.Constant) and v.func.value.value == "." and len(v.args) == 1):
            return False
        a = v.args[0]
        if not (isinstance(a, ast.Subscript) and isinstance(a.slice, ast.Slice) and a.slice.lower is None and a.slice.step is None):
            return False
        up = a.slice.upper
        plus_one = isinstance(up, ast.BinOp) and isinstance(up.op, ast.Add) and sorted([norm(up.left), norm(up.right)]) == ["1", "self._level_limit"]
        base = a.value
        if isinstance(base, ast.Name):
            asg = [s_ for s_ in own_nodes(flat.node) if isinstance(s_, ast.Assign) and dotted(s_.targets[0]) == base.id]
            parts_src = asg[0].value if len(asg) == 1 else None
        else:
            parts_src = base
        split_ok = isinstance(parts_src, ast.Call) and is_attr_call(parts_src, "split") and dotted(parts_src.func.value) == p and len(parts_src.args) == 1 and isinstance(parts_src.args[0], ast.Constant) and parts_src.args[0].value == "."
        return plus_one and split_ok

    joins = [c for c in own_nodes(flat.node) if isinstance(c, ast.Call) and isinstance(c.func, ast.Attribute) and c.func.attr == "join"]
    good = [c for c in joins if matches(c)]
    if joins and not good:
        detail = f"truncation is `{norm(joins[0], 80)}`: expected '.'.join(name.split('.')[: limit + 1])"
    if good and len(joins) == len(good):
        ok_cut = True
        detail = "name is cut to its first limit+1 dotted components"
        for r in cut:
            v = r.value
            direct = any(v is c for c in good)
            via = isinstance(v, ast.Name) and all(any(a_.value is c for c in good) for a_ in own_nodes(flat.node) if isinstance(a_, ast.Assign) and dotted(a_.targets[0]) == v.id)
            if not (direct or via):
                res.observe(f"C09.R3: `{header(r)}` in {flat.qualname} returns something other than the truncation expression (judged by the purity obligation)")
    res.add("C09.R3", f"{flat.relpath}::{flat.qualname}::first limit+1 components", ok_cut, detail, where(flat, flat.node), kind="structural")
    E = Effects(repo, T)
    ws = [w for w in E.writes(flat) if w.root_kind in ("self", "classvar", "global", "param")]
    reads_other = sorted({dotted(n_) for n_ in own_nodes(flat.node) if isinstance(n_, ast.Attribute) and isinstance(n_.ctx, ast.Load) and dotted(n_).startswith("self.") and dotted(n_) not in ("self._level_limit",) and not isinstance(parent(n_), ast.Call)})
    ok = not ws and not reads_other
    res.add("C09.R3", f"{flat.relpath}::{flat.qualname}::pure function of (name, limit)", ok, "reads only the name and the limit, writes nothing" if ok else (f"`{header(stmt_of(ws[0].node))}` keeps state while flattening" if ws else f"flattening also depends on {reads_other}") + ": names flattened for one architecture/limit influence another", where(flat, flat.node), kind="effect")
    # ---- R4
    gen = repo.func(GG, "generate_graph")
    ctor = [c for c in calls_in(gen.node) if dotted(c.func) == "NetworkxGraph"]
    if len(ctor) != 1:
        raise AnalysisError("generate_graph: NetworkxGraph construction not found")
    lim_arg = ctor[0].args[2] if len(ctor[0].args) > 2 else next((k.value for k in ctor[0].keywords if k.arg == "level_limit"), None)
    user_p = next((p_ for p_ in gen.param_names if "level_limit" in p_), None)
    adj = [s for s in own_nodes(gen.node) if isinstance(s, ast.Assign) and lim_arg is not None and dotted(s.targets[0]) == dotted(lim_arg) and isinstance(s.value, ast.Call)]
    ok = lim_arg is not None and len(adj) == 1 and user_p is not None and any(dotted(a) == user_p for a in adj[0].value.args) and cfg_of(gen).dominates(adj[0], stmt_of(ctor[0])) and not conds(gen, adj[0])
    res.add("C09.R4", f"{gen.relpath}::{gen.qualname}::adjusted limit reaches the graph", ok, "the graph receives the limit adjusted for the root/module path difference" if ok else "the limit handed to NetworkxGraph is not the adjusted user limit", where(gen, ctor[0]), kind="flow")
    if adj:
        cs, _ = T.callees(gen, adj[0].value, byname_fallback=False)
        if len(cs) != 1:
            raise AnalysisError("generate_graph: limit adjustment function not resolved")
        off = cs[0]
        lp, dp = off.param_names[0], off.param_names[1]
        rets = [s for s in own_nodes(off.node) if isinstance(s, ast.Return)]
        body = [s_ for s_ in off.body if not (isinstance(s_, ast.Expr) and isinstance(s_.value, ast.Constant))]
        first = body[0] if body else None
        none_first = (
            isinstance(first, ast.If) and not first.orelse and norm(first.test) == f"{lp} is None" and len(first.body) == 1 and isinstance(first.body[0], ast.Return)
            and ((isinstance(first.body[0].value, ast.Constant) and first.body[0].value.value is None) or dotted(first.body[0].value) == lp)
        )
        other_none = [r for r in rets if r is not (first.body[0] if none_first else None) and isinstance(r.value, ast.Constant) and r.value.value is None]
        ok = none_first and not other_none
        res.add("C09.R4", f"{off.relpath}::{off.qualname}::None stays None", ok, "no limit stays no limit; every other path sees a number" if ok else "a missing limit is not passed through as None (or a number path can see None)", where(off, off.node), kind="dominance")
        # the offset counts the dotted components of the path difference
        counts = [c for c in ast.walk(off.node) if isinstance(c, ast.Call) and isinstance(c.func, ast.Attribute) and c.func.attr in ("split", "count") and dotted(c.func.value) == dp and c.args and isinstance(c.args[0], ast.Constant) and c.args[0].value == "."]
        incr = [s for s in own_nodes(off.node) if isinstance(s, (ast.AugAssign, ast.Assign, ast.Return)) and lp in {n_.id for n_ in ast.walk(s) if isinstance(n_, ast.Name)} and any(isinstance(x, (ast.Add,)) for x in ast.walk(s))]
        ok = False
        detail = "offset computation not found"
        if incr:
            s0 = incr[0]
            added = s0.value if isinstance(s0, ast.AugAssign) else s0.value
            names_ = {n_.id for n_ in ast.walk(added) if isinstance(n_, ast.Name)} - {lp}
            # resolve one level of locals
            src_nodes = [added]
            for nm in names_:
                for a_ in own_nodes(off.node):
                    if isinstance(a_, ast.Assign) and dotted(a_.targets[0]) == nm:
                        src_nodes.append(a_.value)
            text = " ".join(norm(x, 200) for x in src_nodes)
            split_len = f"len({dp}.split('.'))" in text
            count_plus = f"{dp}.count('.') + 1" in text or f"1 + {dp}.count('.')" in text
            ok = (split_len or count_plus) and bool(counts)
            gate = guard_formula(off, s0)
            same = "_actual_difference" in norm(ast.Module(body=[], type_ignores=[])) or True
            detail = "offset = number of dotted components of the root/module path difference" if ok else f"the limit is raised by `{text[:120]}`, which does not count the '.'-separated components of `{dp}` (a difference of n levels must add n)"
            # and only when the paths actually differ
            if ok:
                diff_guard = [e for e, pol in conds(off, s0) if pol and (dp in norm(e))]
                ok2 = bool(diff_guard)
                res.add("C09.R4", f"{off.relpath}::{off.qualname}::offset only when paths differ", ok2, "no offset when root_path and module_path coincide ('.')" if ok2 else "the offset is also added when root_path equals module_path (difference '.')", where(off, s0), kind="dominance")
        res.add("C09.R4", f"{off.relpath}::{off.qualname}::offset counts dotted components", ok, detail, where(off, off.node), kind="structural")
    return res
