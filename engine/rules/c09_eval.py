"""Finite-domain evaluation of small pure computations (used by the C09 rules).

The C09 rules have to decide what two tiny computations *mean*, however they are spelled after a refactoring:

  * the name truncation  (name, limit)            -> name         (first limit+1 dotted components, identity without a limit)
  * the limit adjustment (user limit, root/module) -> graph limit  (limit + number of levels between root_path and module_path)

Both are functions of strings, small integers and None.  This module *tabulates* them: the AST of the functions involved is
interpreted by the evaluator below (the checker's own code; a whitelisted vocabulary of total, side-effect-free operations on str /
int / list / tuple / dict / set / PurePosixPath values) over a finite table of arguments, exactly like core/guards.py tabulates
boolean formulas it extracted.  pytestarch is never imported and none of its code objects is ever run; everything the evaluator does
not know (I/O, library calls outside the whitelist, unknown syntax) makes the value `POISON` ("cannot be determined") or raises
`Unknown`; a rule that needs such a value reports *undecided*, never a verdict.

Tolerant mode: a statement whose value cannot be determined poisons its targets and evaluation goes on, so that the limit handed to
the graph can be computed although the scan next to it (file system, parser) cannot.  Branches on a poisoned condition poison what
they assign; if they can leave the function early everything afterwards is flagged *uncertain*.
"""

from __future__ import annotations

import ast
import builtins
import itertools
import operator
import posixpath
import re
import threading
from pathlib import PurePosixPath

from core.loader import ClassInfo, FuncInfo, ModuleInfo, Repo


class Unknown(Exception):
    """The evaluator met something outside its vocabulary."""


class Raised(Exception):
    """The evaluated computation raises an exception for these arguments."""

    def __init__(self, name: str, exc: object = None) -> None:
        super().__init__(name)
        self.name = name
        self.exc = exc


class _Poison:
    def __repr__(self) -> str:
        return "<?>"


POISON = _Poison()


class _Return(Exception):
    def __init__(self, value: object) -> None:
        self.value = value


class _Break(Exception):
    pass


class _Continue(Exception):
    pass


# --------------------------------------------------------------------------- values that are not plain Python values


class Obj:
    """Instance of a repo class."""

    def __init__(self, cls: ClassInfo) -> None:
        self.cls = cls
        self.attrs: dict[str, object] = {}

    def __repr__(self) -> str:
        return f"<{self.cls.name} {self.attrs}>"


class ClassRef:
    def __init__(self, cls: ClassInfo) -> None:
        self.cls = cls

    def __eq__(self, other: object) -> bool:
        return isinstance(other, ClassRef) and other.cls == self.cls

    def __hash__(self) -> int:
        return hash(self.cls.fq)


class Fn:
    def __init__(self, fi: FuncInfo) -> None:
        self.fi = fi

    def __eq__(self, other: object) -> bool:
        return isinstance(other, Fn) and other.fi == self.fi

    def __hash__(self) -> int:
        return hash(self.fi.fq)


class Bound:
    def __init__(self, fi: FuncInfo, obj: object, exact: bool = False) -> None:
        self.fi = fi
        self.obj = obj
        self.exact = exact  # reached through super(): no virtual dispatch


class _GenClose(BaseException):
    """Raised inside a suspended generator body to unwind it."""


class EvalGen:
    """A generator of the analysed code: its body runs in a thread of its own that is handed control for exactly one step at a time
    (strict hand-over: never two threads at once), so the body is evaluated lazily and interleaved with its consumer as in Python."""

    def __init__(self, ev: "Evaluator", fi: FuncInfo, body) -> None:
        self.ev = ev
        self.fi = fi
        self._body = body
        self._to_gen = threading.Semaphore(0)
        self._to_con = threading.Semaphore(0)
        self._thread: threading.Thread | None = None
        self._done = False
        self._item: object = None
        self._exc: BaseException | None = None
        self._own: list = []  # evaluator frames of the suspended body
        self._base = 0
        self._closing = False
        ev._gens.append(self)

    def __repr__(self) -> str:
        return f"<generator {self.fi.qualname}>"

    def __iter__(self) -> "EvalGen":
        return self

    def _target(self) -> None:
        try:
            self._body()
        except (_Return, _GenClose):
            pass
        except BaseException as e:  # noqa: BLE001 - handed to the consumer
            self._exc = e
        self._done = True
        self._to_con.release()

    def __next__(self) -> object:
        if self._done:
            raise StopIteration
        ev = self.ev
        saved_stack, saved_gen = ev.stack, ev._cur_gen
        ev.stack = [*saved_stack, *self._own]
        self._base = len(saved_stack)
        ev._cur_gen = self
        try:
            if self._thread is None:
                if threading.active_count() > 300:
                    raise Unknown("too many suspended generators")
                self._thread = threading.Thread(target=self._target, daemon=True)
                self._thread.start()
            else:
                self._to_gen.release()
            self._to_con.acquire()
        finally:
            ev.stack, ev._cur_gen = saved_stack, saved_gen
        if self._exc is not None:
            e, self._exc = self._exc, None
            raise e
        if self._done:
            raise StopIteration
        return self._item

    def suspend(self, value: object) -> None:
        """Called in the body's thread at a `yield`."""
        ev = self.ev
        self._item = value
        self._own = ev.stack[self._base:]
        self._to_con.release()
        self._to_gen.acquire()
        if self._closing:
            raise _GenClose()

    def close(self) -> None:
        """Unwinds a suspended body (its thread ends); a generator that never started or has finished needs nothing."""
        if self._done or self._thread is None:
            return
        ev = self.ev
        saved_stack, saved_gen = ev.stack, ev._cur_gen
        ev.stack = [*saved_stack, *self._own]
        self._base = len(saved_stack)
        ev._cur_gen = self
        self._closing = True
        try:
            self._to_gen.release()
            self._to_con.acquire()
        finally:
            ev.stack, ev._cur_gen = saved_stack, saved_gen
        self._exc = None
        self._done = True


class SuperRef:
    """`super()` inside a method of `cls`, for the receiver `obj`."""

    def __init__(self, obj: object, cls: ClassInfo) -> None:
        self.obj = obj
        self.cls = cls


class Closure:
    def __init__(self, node: ast.AST, fi: FuncInfo, env: "Env") -> None:
        self.node = node
        self.fi = fi
        self.env = env


class Partial:
    def __init__(self, fn: object, args: list, kwargs: dict) -> None:
        self.fn = fn
        self.args = args
        self.kwargs = kwargs


class LibRef:
    """A library module / function / constant by dotted name."""

    def __init__(self, name: str) -> None:
        self.name = name

    def __repr__(self) -> str:
        return f"<lib {self.name}>"


class NativeObj:
    """A model object supplied by a rule (e.g. an `Import` with fixed importer / importee)."""

    def __init__(self, label: str, methods: dict, attrs: dict | None = None, poison_ok: bool = False) -> None:
        self.label = label
        self.methods = methods
        self.attrs = attrs or {}
        self.poison_ok = poison_ok  # the methods want to see undetermined arguments (a model that records that it became unreliable)

    def __repr__(self) -> str:
        return self.label


class Env:
    def __init__(self, vars_: dict | None = None, outer: "Env | None" = None) -> None:
        self.vars: dict[str, object] = vars_ if vars_ is not None else {}
        self.outer = outer

    def lookup(self, name: str):
        e: Env | None = self
        while e is not None:
            if name in e.vars:
                return True, e.vars[name]
            e = e.outer
        return False, None


class Frame:
    def __init__(self, fi: FuncInfo | None, mod: ModuleInfo, env: Env) -> None:
        self.fi = fi
        self.mod = mod
        self.env = env
        self.uncertain = False
        self.loop_uncertain = False


# --------------------------------------------------------------------------- whitelisted vocabulary

STR_METHODS = {
    "split", "rsplit", "join", "count", "startswith", "endswith", "partition", "rpartition", "strip", "lstrip", "rstrip", "replace", "find",
    "rfind", "index", "rindex", "removeprefix", "removesuffix", "lower", "upper", "isidentifier", "splitlines", "isdigit", "format", "title",
}
LIST_METHODS = {"append", "extend", "insert", "pop", "copy", "index", "count", "reverse", "remove", "clear", "sort"}
TUPLE_METHODS = {"index", "count"}
DICT_METHODS = {"get", "keys", "values", "items", "setdefault", "update", "pop", "copy", "clear"}
SET_METHODS = {"add", "update", "union", "intersection", "difference", "discard", "remove", "copy", "issubset", "issuperset", "isdisjoint", "clear"}
PATH_ATTRS = {"parts", "name", "stem", "suffix", "suffixes", "parent", "parents", "anchor"}
PATH_METHODS = {"relative_to", "with_suffix", "with_name", "joinpath", "as_posix", "is_relative_to", "is_absolute"}

_BIN = {
    ast.Add: operator.add, ast.Sub: operator.sub, ast.Mult: operator.mul, ast.FloorDiv: operator.floordiv, ast.Mod: operator.mod,
    ast.Div: operator.truediv, ast.BitOr: operator.or_, ast.BitAnd: operator.and_, ast.BitXor: operator.xor, ast.Pow: operator.pow,
}
_CMP = {
    ast.Eq: operator.eq, ast.NotEq: operator.ne, ast.Lt: operator.lt, ast.LtE: operator.le, ast.Gt: operator.gt, ast.GtE: operator.ge,
    ast.Is: operator.is_, ast.IsNot: operator.is_not, ast.In: lambda a, b: a in b, ast.NotIn: lambda a, b: a not in b,
}
_PLAIN = (str, int, float, bool, type(None), list, tuple, dict, set, frozenset, PurePosixPath, range, bytes, slice)

PURE_BUILTINS = {
    "len": len, "str": str, "int": int, "bool": bool, "float": float, "list": list, "tuple": tuple, "set": set, "frozenset": frozenset, "dict": dict,
    "reversed": reversed, "enumerate": enumerate, "zip": zip, "range": range, "sum": sum, "any": any, "all": all, "abs": abs, "iter": iter,
    "next": next, "repr": repr, "divmod": divmod, "object": object, "slice": slice,
}
def _abs_only(fn):
    """Path functions that consult the working directory only for relative paths: modelled for absolute arguments."""

    def wrapped(*args, **kwargs):
        if not all(isinstance(a, (str, PurePosixPath)) and str(a).startswith("/") for a in [*args, *kwargs.values()]):
            raise Unknown("relative path: depends on the working directory")
        return fn(*[str(a) for a in args], **{k: str(v) for k, v in kwargs.items()})

    return wrapped


LIB_VALUES = {"os.sep": "/", "os.path.sep": "/", "os.curdir": ".", "os.extsep": ".", "os.altsep": None, "os.pardir": ".."}
LIB_FUNCS = {
    "os.path.dirname": posixpath.dirname, "os.path.basename": posixpath.basename, "os.path.join": posixpath.join, "os.path.normpath": posixpath.normpath,
    "os.path.split": posixpath.split, "os.path.splitext": posixpath.splitext, "os.path.relpath": _abs_only(posixpath.relpath), "os.path.commonpath": posixpath.commonpath,
    "os.path.abspath": _abs_only(posixpath.normpath), "os.path.realpath": _abs_only(posixpath.normpath), "os.path.isabs": posixpath.isabs, "os.fspath": lambda p: str(p),
    "pathlib.Path": PurePosixPath, "pathlib.PurePath": PurePosixPath, "pathlib.PurePosixPath": PurePosixPath, "pathlib.PosixPath": PurePosixPath,
    "itertools.islice": itertools.islice, "itertools.chain": itertools.chain, "itertools.accumulate": None, "itertools.takewhile": None,
    "itertools.pairwise": itertools.pairwise, "itertools.repeat": itertools.repeat, "itertools.count": None,
    "operator.add": operator.add, "operator.eq": operator.eq, "operator.ne": operator.ne,
    "typing.cast": lambda t, v: v,
    # stdlib regular expressions on plain strings are pure (patterns are data of the analysed code, the engine is the library's)
    "re.match": re.match, "re.fullmatch": re.fullmatch, "re.search": re.search, "re.sub": re.sub, "re.split": re.split, "re.findall": re.findall,
    "re.escape": re.escape, "re.compile": re.compile,
}
RE_PATTERN_ATTRS = {"match", "fullmatch", "search", "sub", "split", "findall", "pattern"}
RE_MATCH_ATTRS = {"group", "groups", "start", "end", "span", "groupdict", "string"}
TRANSPARENT_DECORATORS = {"staticmethod", "classmethod", "property", "abstractmethod", "override", "final", "lru_cache", "cache", "cached_property", "no_type_check"}
LIB_MODULES = {"os", "os.path", "pathlib", "itertools", "functools", "operator", "typing", "collections", "collections.abc"}


def _is_plain(v: object) -> bool:
    return isinstance(v, _PLAIN)


def _deep_poison(v: object, depth: int = 0) -> bool:
    if v is POISON:
        return True
    if depth > 4:
        return False
    if isinstance(v, (list, tuple, set, frozenset)):
        return any(_deep_poison(x, depth + 1) for x in v)
    if isinstance(v, dict):
        return any(_deep_poison(k, depth + 1) or _deep_poison(x, depth + 1) for k, x in v.items())
    return False


class Evaluator:
    def __init__(self, repo: Repo, tolerant: bool = False, intercept: dict | None = None, budget: int = 400_000, max_depth: int = 40, lib_models: dict | None = None) -> None:
        self.repo = repo
        self.tolerant = tolerant
        self.intercept = intercept or {}  # class fq -> callback(args, kwargs, uncertain) -> value
        self.lib_models = lib_models or {}  # dotted library name -> callback(args, kwargs) -> model value (e.g. networkx.DiGraph)
        self.budget = budget
        self.steps = 0
        self.max_depth = max_depth
        self.stack: list[Frame] = []
        self._modvals: dict[tuple[str, str], object] = {}
        self._clsvals: dict[tuple[str, str], object] = {}
        self.stmt_hooks: dict[int, object] = {}  # id(stmt) -> callback(frame)
        self.substitute: dict[str, FuncInfo] = {}  # fq -> function evaluated in its place (an inline view of it)
        self.notes: list[str] = []  # why something became POISON (diagnostics)
        self._cur_gen: EvalGen | None = None  # the generator whose body is being evaluated (None: ordinary code)
        self._gens: list[EvalGen] = []
        self.created: list[Obj] = []  # every object of a class of the analysed code that was constructed (rules may look them up by class)
        self.uncertain_exits = 0  # undetermined branches that may have left a function / loop (what ran afterwards is not certain)

    # ------------------------------------------------------------------ helpers
    def _tick(self) -> None:
        self.steps += 1
        if self.steps > self.budget:
            raise Unknown("evaluation budget exhausted")

    @property
    def uncertain(self) -> bool:
        return any(f.uncertain for f in self.stack)

    def _note(self, why: str) -> None:
        if len(self.notes) < 40 and why not in self.notes:
            self.notes.append(why)

    # ------------------------------------------------------------------ calling repo functions
    def call_function(self, fi: FuncInfo, args: list, kwargs: dict | None = None, self_val: object = None, closure_env: Env | None = None):
        """Value returned by `fi` for these arguments (POISON if it cannot be determined in tolerant mode)."""
        kwargs = dict(kwargs or {})
        fi = self.substitute.get(fi.fq, fi)
        if len(self.stack) > self.max_depth:
            raise Unknown("call depth exceeded")
        if fi.is_abstract:
            raise Unknown(f"abstract method {fi.qualname}")
        odd = [d for d in fi.decorators if d not in TRANSPARENT_DECORATORS]
        if odd:
            raise Unknown(f"{fi.qualname} is decorated with {odd[0]} (semantics not modelled)")
        node = fi.node
        a = node.args
        env = Env({}, closure_env)
        pos = [p.arg for p in [*a.posonlyargs, *a.args]]
        args = list(args)
        if fi.cls is not None and fi.outer is None and not fi.is_staticmethod and not isinstance(node, ast.Lambda):
            if not pos:
                raise Unknown(f"method {fi.qualname} without receiver parameter")
            env.vars[pos.pop(0)] = self_val
        mod_frame = Frame(fi, fi.module, env)
        if len(args) > len(pos):
            if a.vararg is None:
                raise Raised("TypeError")
            env.vars[a.vararg.arg] = tuple(args[len(pos):])
            args = args[: len(pos)]
        elif a.vararg is not None:
            env.vars[a.vararg.arg] = ()
        for p, v in zip(pos, args):
            env.vars[p] = v
        kwonly = [p.arg for p in a.kwonlyargs]
        extra = {}
        for k, v in kwargs.items():
            if k in env.vars and k in pos:
                raise Raised("TypeError")
            if k in pos or k in kwonly:
                env.vars[k] = v
            elif a.kwarg is not None:
                extra[k] = v
            else:
                raise Raised("TypeError")
        if a.kwarg is not None:
            env.vars[a.kwarg.arg] = extra
        all_pos = [*a.posonlyargs, *a.args]
        defaults = dict(zip([p.arg for p in all_pos[len(all_pos) - len(a.defaults):]], a.defaults))
        defaults.update({p.arg: d for p, d in zip(a.kwonlyargs, a.kw_defaults) if d is not None})
        first = [p.arg for p in all_pos][: 1 if (fi.cls is not None and fi.outer is None and not fi.is_staticmethod and not isinstance(node, ast.Lambda)) else 0]
        for p in [*[x.arg for x in all_pos], *kwonly]:
            if p in env.vars or p in first:
                continue
            if p in defaults:
                env.vars[p] = self._guarded(defaults[p], Frame(fi, fi.module, Env({}, closure_env)))
            else:
                raise Raised("TypeError")
        if not isinstance(node, ast.Lambda) and self._is_generator(fi):
            def body(fi=fi, node=node, mod_frame=mod_frame) -> None:
                self.stack.append(mod_frame)
                try:
                    self.block(node.body, mod_frame)
                finally:
                    self.stack.pop()

            return EvalGen(self, fi, body)
        self.stack.append(mod_frame)
        try:
            if isinstance(node, ast.Lambda):
                return self.ev(node.body, mod_frame)
            try:
                self.block(node.body, mod_frame)
            except _Return as r:
                return POISON if mod_frame.uncertain and self.tolerant and not self._is_top(mod_frame) else r.value
            except Raised as r:
                # an exception met on a path whose conditions could not be evaluated says nothing about the real computation
                if self.tolerant and self.uncertain:
                    self._note(f"{fi.qualname}: {r.name} on an uncertain path")
                    if self._is_top(mod_frame):
                        raise Unknown(f"{r.name} raised on a path whose conditions cannot be evaluated") from None
                    return POISON
                raise
            return POISON if mod_frame.uncertain and self.tolerant and not self._is_top(mod_frame) else None
        except RecursionError:
            raise Unknown("evaluation too deeply nested") from None
        finally:
            self.stack.pop()
            if not self.stack and self._gens and self._cur_gen is None:
                self.close_generators()

    def close_generators(self) -> None:
        """Ends the threads of generators that were left suspended (call when an evaluation is over)."""
        if self._cur_gen is not None or self.stack:
            return
        gens, self._gens = self._gens, []
        for g in reversed(gens):
            if g._done:
                continue
            if g._thread is None:
                self._gens.append(g)  # not started: may still be handed to the caller
                continue
            try:
                g.close()
            except BaseException:  # noqa: BLE001
                pass

    def _is_generator(self, fi: FuncInfo) -> bool:
        cache = self.__dict__.setdefault("_gen_cache", {})
        if fi.fq not in cache:
            from core.loader import own_nodes

            cache[fi.fq] = any(isinstance(n, (ast.Yield, ast.YieldFrom)) for n in own_nodes(fi.node))
        return cache[fi.fq]

    def _is_top(self, fr: Frame) -> bool:
        return bool(self.stack) and self.stack[0] is fr

    def _guarded(self, e: ast.expr, fr: Frame):
        """Value of an expression; in tolerant mode POISON instead of Unknown."""
        try:
            return self.ev(e, fr)
        except Unknown as u:
            if not self.tolerant:
                raise
            self._note(f"`{ast.unparse(e)[:60]}`: {u}")
            return POISON

    # ------------------------------------------------------------------ statements
    def block(self, stmts: list[ast.stmt], fr: Frame) -> None:
        for s in stmts:
            self.stmt(s, fr)

    @staticmethod
    def _has_jump(stmts: list[ast.stmt], loop_jumps: bool = True) -> str:
        """"" (no jump) | "loop" (only break / continue of the enclosing loop) | "function" (return / raise)."""
        found = ""

        def walk(ss: list[ast.stmt], in_inner_loop: bool) -> None:
            nonlocal found
            for s in ss:
                if isinstance(s, (ast.Return, ast.Raise)):
                    found = "function"
                elif isinstance(s, (ast.Break, ast.Continue)):
                    if not in_inner_loop and loop_jumps and found != "function":
                        found = "loop"
                elif isinstance(s, (ast.FunctionDef, ast.AsyncFunctionDef, ast.ClassDef)):
                    continue
                else:
                    inner = in_inner_loop or isinstance(s, (ast.For, ast.AsyncFor, ast.While))
                    for fld in ("body", "orelse", "finalbody"):
                        blk = getattr(s, fld, None)
                        if isinstance(blk, list) and blk and isinstance(blk[0], ast.stmt):
                            walk(blk, inner if fld == "body" else in_inner_loop)
                    for h in getattr(s, "handlers", []) or []:
                        walk(h.body, in_inner_loop)
                    for c in getattr(s, "cases", []) or []:
                        walk(c.body, in_inner_loop)

        walk(stmts, False)
        return found

    def _poison_targets(self, stmts: list[ast.stmt], fr: Frame) -> None:
        """Everything the statements may bind or mutate becomes undetermined."""
        for s in stmts:
            for n in ast.walk(s):
                tgts: list[ast.expr] = []
                if isinstance(n, ast.Assign):
                    tgts = list(n.targets)
                elif isinstance(n, (ast.AugAssign, ast.AnnAssign)):
                    tgts = [n.target]
                elif isinstance(n, (ast.For, ast.AsyncFor)):
                    tgts = [n.target]
                elif isinstance(n, ast.NamedExpr):
                    tgts = [n.target]
                elif isinstance(n, (ast.With, ast.AsyncWith)):
                    tgts = [i.optional_vars for i in n.items if i.optional_vars is not None]
                elif isinstance(n, ast.Call) and isinstance(n.func, ast.Attribute) and n.func.attr in (LIST_METHODS | DICT_METHODS | SET_METHODS) - {"copy", "index", "count", "get", "keys", "values", "items", "union", "intersection", "difference", "issubset", "issuperset", "isdisjoint"}:
                    tgts = [n.func.value]
                for t in tgts:
                    self._poison_target(t, fr)

    def _poison_target(self, t: ast.expr, fr: Frame) -> None:
        if isinstance(t, (ast.Tuple, ast.List)):
            for x in t.elts:
                self._poison_target(x, fr)
        elif isinstance(t, ast.Starred):
            self._poison_target(t.value, fr)
        elif isinstance(t, ast.Name):
            self._bind_name(t.id, POISON, fr)
        elif isinstance(t, ast.Attribute):
            try:
                o = self.ev(t.value, fr)
            except (Unknown, Raised):
                return
            if isinstance(o, Obj):
                o.attrs[t.attr] = POISON
        elif isinstance(t, ast.Subscript):
            self._poison_target(t.value, fr)

    def _bind_name(self, name: str, v: object, fr: Frame) -> None:
        fr.env.vars[name] = v

    def stmt(self, s: ast.stmt, fr: Frame) -> None:
        self._tick()
        hook = self.stmt_hooks.get(id(s))
        if hook is not None:
            hook(fr)
        if isinstance(s, ast.Expr):
            if isinstance(s.value, ast.Constant):
                return
            self._guarded(s.value, fr)
        elif isinstance(s, ast.Assign):
            v = self._guarded(s.value, fr)
            for t in s.targets:
                self.assign(t, v, fr)
        elif isinstance(s, ast.AnnAssign):
            if s.value is not None:
                self.assign(s.target, self._guarded(s.value, fr), fr)
        elif isinstance(s, ast.AugAssign):
            load = ast.copy_location(_as_load(s.target), s.target)
            cur = self._guarded(load, fr)
            v = self._guarded(s.value, fr)
            self.assign(s.target, self._binop(type(s.op), cur, v, inplace=True), fr)
        elif isinstance(s, ast.Return):
            raise _Return(self._guarded(s.value, fr) if s.value is not None else None)
        elif isinstance(s, ast.Pass):
            return
        elif isinstance(s, ast.Break):
            raise _Break()
        elif isinstance(s, ast.Continue):
            raise _Continue()
        elif isinstance(s, ast.If):
            c = self._truth(self._guarded(s.test, fr))
            if c is POISON:
                self._undetermined_branch([*s.body, *s.orelse], fr)
            else:
                self.block(s.body if c else s.orelse, fr)
        elif isinstance(s, ast.While):
            while True:
                self._tick()
                c = self._truth(self._guarded(s.test, fr))
                if c is POISON:
                    self._undetermined_branch([*s.body, *s.orelse], fr, own_loop=True)
                    return
                if not c:
                    self.block(s.orelse, fr)
                    return
                try:
                    self.block(s.body, fr)
                except _Break:
                    return
                except _Continue:
                    pass
                if fr.loop_uncertain:
                    fr.loop_uncertain = False
                    self._undetermined_branch([*s.body, *s.orelse], fr, own_loop=True)
                    return
        elif isinstance(s, (ast.For, ast.AsyncFor)):
            it = self._guarded(s.iter, fr)
            if it is POISON or not self._iterable(it):
                if it is not POISON and not self.tolerant:
                    raise Unknown(f"iteration over {type(it).__name__}")
                self._poison_target(s.target, fr)
                self._undetermined_branch([*s.body, *s.orelse], fr, own_loop=True)
                return
            broke = False
            for x in self._iterate(it):
                self._tick()
                self.assign(s.target, x, fr)
                try:
                    self.block(s.body, fr)
                except _Break:
                    broke = True
                    break
                except _Continue:
                    pass
                if fr.loop_uncertain:
                    fr.loop_uncertain = False
                    self._poison_target(s.target, fr)
                    self._undetermined_branch([*s.body, *s.orelse], fr, own_loop=True)
                    return
            if not broke:
                self.block(s.orelse, fr)
        elif isinstance(s, ast.Raise):
            if s.exc is None:
                raise Raised("re-raise")
            v = self._guarded(s.exc, fr)
            raise Raised(self._exc_name(v), v)
        elif isinstance(s, ast.Assert):
            c = self._truth(self._guarded(s.test, fr))
            if c is POISON:
                fr.uncertain = True
            elif not c:
                raise Raised("AssertionError")
        elif isinstance(s, ast.Try):
            self._try(s, fr)
        elif isinstance(s, (ast.FunctionDef, ast.AsyncFunctionDef)):
            nf = getattr(s, "_func", None)
            if nf is None:
                raise Unknown("nested function without FuncInfo")
            self._bind_name(s.name, Closure(s, nf, fr.env), fr)
        elif isinstance(s, (ast.Import, ast.ImportFrom)):
            for al in s.names:
                if isinstance(s, ast.Import):
                    self._bind_name(al.asname or al.name.split(".")[0], LibRef(al.name if al.asname else al.name.split(".")[0]), fr)
                else:
                    self._bind_name(al.asname or al.name, self._from_dotted(f"{s.module}.{al.name}"), fr)
        elif isinstance(s, ast.Match):
            subject = self._guarded(s.subject, fr)
            if subject is POISON:
                self._undetermined_branch([st for c in s.cases for st in c.body], fr)
                return
            for case in s.cases:
                binds: dict[str, object] = {}
                m = self._match(case.pattern, subject, fr, binds)
                if m is POISON:
                    self._undetermined_branch([st for c in s.cases for st in c.body], fr)
                    return
                if not m:
                    continue
                for k, v in binds.items():
                    self._bind_name(k, v, fr)
                if case.guard is not None:
                    g = self._truth(self._guarded(case.guard, fr))
                    if g is POISON:
                        self._undetermined_branch([st for c in s.cases for st in c.body], fr)
                        return
                    if not g:
                        continue
                self.block(case.body, fr)
                return
        elif isinstance(s, ast.Delete):
            for t in s.targets:
                for x in (t.elts if isinstance(t, (ast.Tuple, ast.List)) else [t]):
                    if isinstance(x, ast.Name):
                        if x.id not in fr.env.vars:
                            raise Raised("NameError")
                        del fr.env.vars[x.id]
                    elif isinstance(x, ast.Attribute):
                        o = self.ev(x.value, fr)
                        if o is POISON:
                            continue
                        if not isinstance(o, Obj):
                            raise Unknown(f"del of an attribute of {type(o).__name__}")
                        if x.attr not in o.attrs:
                            raise Raised("AttributeError")
                        del o.attrs[x.attr]
                    elif isinstance(x, ast.Subscript):
                        o = self.ev(x.value, fr)
                        k = self._slice(x.slice, fr) if isinstance(x.slice, ast.Slice) else self.ev(x.slice, fr)
                        if o is POISON or k is POISON or _deep_poison(k):
                            raise Unknown("del of an undetermined item")
                        if not isinstance(o, (dict, list)):
                            raise Unknown(f"del of an item of {type(o).__name__}")
                        try:
                            del o[k]
                        except Exception as ex:  # noqa: BLE001
                            raise Raised(type(ex).__name__, ex) from None
                    else:
                        raise Unknown("del target")
        else:
            if not self.tolerant:
                raise Unknown(f"statement {type(s).__name__}")
            self._note(f"statement {type(s).__name__} not evaluated")
            self._undetermined_branch([s], fr)

    def _match(self, p: ast.pattern, v: object, fr: Frame, binds: dict):
        """Does the value match the pattern (True / False / POISON)?  Captures go to `binds`."""
        if v is POISON:
            return POISON
        if isinstance(p, ast.MatchAs):
            if p.pattern is not None:
                m = self._match(p.pattern, v, fr, binds)
                if m is not True:
                    return m
            if p.name is not None:
                binds[p.name] = v
            return True
        if isinstance(p, ast.MatchOr):
            for alt in p.patterns:
                b: dict = {}
                m = self._match(alt, v, fr, b)
                if m is POISON:
                    return POISON
                if m:
                    binds.update(b)
                    return True
            return False
        if isinstance(p, ast.MatchValue):
            return self._compare(ast.Eq, v, self.ev(p.value, fr))
        if isinstance(p, ast.MatchSingleton):
            return v is p.value
        if isinstance(p, ast.MatchSequence):
            if isinstance(v, (str, bytes, dict, set, frozenset)) or not (isinstance(v, (list, tuple)) or (isinstance(v, Obj) and self.is_namedtuple(v.cls))):
                if isinstance(v, (Obj, NativeObj)) and not (isinstance(v, Obj) and self.is_namedtuple(v.cls)):
                    if isinstance(v, NativeObj):
                        raise Unknown("sequence pattern on a model object")
                return False
            items = list(self._iterate(v))
            stars = [i for i, x in enumerate(p.patterns) if isinstance(x, ast.MatchStar)]
            if not stars:
                if len(items) != len(p.patterns):
                    return False
                pairs = list(zip(p.patterns, items))
            else:
                k = stars[0]
                after = len(p.patterns) - k - 1
                if len(items) < k + after:
                    return False
                pairs = list(zip(p.patterns[:k], items[:k])) + list(zip(p.patterns[k + 1:], items[len(items) - after:]))
                if p.patterns[k].name is not None:
                    binds[p.patterns[k].name] = items[k: len(items) - after]
            for sub, item in pairs:
                m = self._match(sub, item, fr, binds)
                if m is not True:
                    return m
            return True
        if isinstance(p, ast.MatchClass):
            c = self.ev(p.cls, fr)
            if c is POISON:
                return POISON
            inst = self._lib_call("builtins.isinstance", [v, c], {})
            if inst is POISON or not inst:
                return inst
            if p.patterns:
                if not (isinstance(v, Obj) and isinstance(c, ClassRef)):
                    if len(p.patterns) == 1 and isinstance(c, type) and c in (str, int, float, bool, bytes, list, tuple, dict, set, frozenset):
                        return self._match(p.patterns[0], v, fr, binds)
                    raise Unknown("positional class pattern on a library class")
                args = None
                for k_ in self.repo.mro(v.cls):
                    if "__match_args__" in k_.class_attrs:
                        args = self._guarded(k_.class_attrs["__match_args__"], Frame(None, k_.module, Env({})))
                        break
                if args is None:
                    if not (self.is_namedtuple(v.cls) or any(k_.is_dataclass for k_ in self.repo.mro(v.cls))):
                        raise Raised("TypeError")
                    args = [a for k_ in reversed(self.repo.mro(v.cls)) for a in k_.ann_attrs]
                if args is POISON or len(p.patterns) > len(args):
                    raise Raised("TypeError")
                for sub, name in zip(p.patterns, args):
                    m = self._match(sub, self.getattr(v, name, fr), fr, binds)
                    if m is not True:
                        return m
            for name, sub in zip(p.kwd_attrs, p.kwd_patterns):
                try:
                    av = self.getattr(v, name, fr)
                except Unknown:
                    return False
                m = self._match(sub, av, fr, binds)
                if m is not True:
                    return m
            return True
        if isinstance(p, ast.MatchMapping):
            if not isinstance(v, dict):
                return False
            for k_, sub in zip(p.keys, p.patterns):
                key = self.ev(k_, fr)
                if key is POISON:
                    return POISON
                if key not in v:
                    return False
                m = self._match(sub, v[key], fr, binds)
                if m is not True:
                    return m
            if p.rest is not None:
                keys = [self.ev(k_, fr) for k_ in p.keys]
                binds[p.rest] = {k_: x for k_, x in v.items() if k_ not in keys}
            return True
        raise Unknown(f"pattern {type(p).__name__}")

    def _undetermined_branch(self, stmts: list[ast.stmt], fr: Frame, own_loop: bool = False) -> None:
        """`stmts` may or may not be executed: what they bind is undetermined; jumps out of them make what follows uncertain."""
        if not self.tolerant:
            raise Unknown("branch on an undetermined condition")
        self._poison_targets(stmts, fr)
        j = self._has_jump(stmts, loop_jumps=not own_loop)
        self.uncertain_exits += 1  # (counted for every undetermined branch: what it would have done is not known either)
        if j == "function":
            fr.uncertain = True
        elif j == "loop":
            fr.loop_uncertain = True  # the rest of the enclosing loop body may or may not run

    def _try(self, s: ast.Try, fr: Frame) -> None:
        try:
            try:
                self.block(s.body, fr)
            except Raised as r:
                for h in s.handlers:
                    if self._handler_matches(h, r, fr):
                        if h.name:
                            self._bind_name(h.name, r.exc if r.exc is not None else POISON, fr)
                        self.block(h.body, fr)
                        break
                else:
                    raise
            else:
                self.block(s.orelse, fr)
        finally:
            if s.finalbody:
                self.block(s.finalbody, fr)

    def _handler_matches(self, h: ast.ExceptHandler, r: Raised, fr: Frame) -> bool:
        if h.type is None:
            return True
        t = self._guarded(h.type, fr)
        ts = list(t) if isinstance(t, tuple) else [t]
        for c in ts:
            if isinstance(c, type) and issubclass(c, BaseException):
                if isinstance(r.exc, BaseException) and isinstance(r.exc, c):
                    return True
                native = getattr(builtins, r.name, None)
                if isinstance(native, type) and issubclass(native, c):
                    return True
                if isinstance(r.exc, Obj) and c in (Exception, BaseException):
                    return True
            elif isinstance(c, ClassRef):
                if isinstance(r.exc, Obj) and any(x == c.cls for x in self.repo.mro(r.exc.cls)):
                    return True
            elif c is POISON:
                raise Unknown("except clause with undetermined type")
        return False

    @staticmethod
    def _exc_name(v: object) -> str:
        if isinstance(v, BaseException):
            return type(v).__name__
        if isinstance(v, type):
            return v.__name__
        if isinstance(v, Obj):
            return v.cls.name
        if isinstance(v, ClassRef):
            return v.cls.name
        return "Exception"

    def assign(self, t: ast.expr, v: object, fr: Frame) -> None:
        if isinstance(t, ast.Name):
            self._bind_name(t.id, v, fr)
        elif isinstance(t, (ast.Tuple, ast.List)):
            if v is POISON:
                for x in t.elts:
                    self.assign(x.value if isinstance(x, ast.Starred) else x, POISON, fr)
                return
            if not self._iterable(v):
                raise Raised("TypeError")
            vals = list(self._iterate(v))
            star = [i for i, x in enumerate(t.elts) if isinstance(x, ast.Starred)]
            if star:
                i = star[0]
                after = len(t.elts) - i - 1
                if len(vals) < len(t.elts) - 1:
                    raise Raised("ValueError")
                for x, y in zip(t.elts[:i], vals[:i]):
                    self.assign(x, y, fr)
                self.assign(t.elts[i].value, vals[i: len(vals) - after], fr)
                for x, y in zip(t.elts[i + 1:], vals[len(vals) - after:]):
                    self.assign(x, y, fr)
            else:
                if len(vals) != len(t.elts):
                    raise Raised("ValueError")
                for x, y in zip(t.elts, vals):
                    self.assign(x, y, fr)
        elif isinstance(t, ast.Attribute):
            o = self._guarded(t.value, fr)
            if isinstance(o, Obj):
                o.attrs[t.attr] = v
            elif o is POISON:
                return
            else:
                raise Unknown(f"attribute store on {type(o).__name__}")
        elif isinstance(t, ast.Subscript):
            o = self._guarded(t.value, fr)
            k = self._guarded(t.slice, fr) if not isinstance(t.slice, ast.Slice) else self._slice(t.slice, fr)
            if o is POISON:
                return
            if k is POISON or _deep_poison(k):
                self._poison_target(t.value, fr)
                return
            if isinstance(o, (list, dict)):
                try:
                    o[k] = v
                except Exception as e:  # noqa: BLE001
                    raise Raised(type(e).__name__, e) from None
            else:
                raise Unknown(f"item store on {type(o).__name__}")
        elif isinstance(t, ast.Starred):
            self.assign(t.value, v, fr)
        else:
            raise Unknown(f"assignment target {type(t).__name__}")

    # ------------------------------------------------------------------ expressions
    def _truth(self, v: object):
        if v is POISON:
            return POISON
        if isinstance(v, Obj):
            for name in ("__bool__", "__len__"):
                m = self.repo.lookup_method(v.cls, name)
                if m is not None:
                    r = self.call_function(m, [], {}, v)
                    return POISON if r is POISON else bool(r)
            return True
        if isinstance(v, (Fn, Bound, Closure, Partial, ClassRef, LibRef, NativeObj)):
            return True
        try:
            return bool(v)
        except Exception as e:  # noqa: BLE001
            raise Raised(type(e).__name__, e) from None

    def _iterable(self, v: object) -> bool:
        if isinstance(v, NativeObj) and "__iter__" in v.methods:
            return True
        if isinstance(v, Obj) and self.is_namedtuple(v.cls):
            return True
        if isinstance(v, (Obj, Fn, Bound, Closure, Partial, ClassRef, LibRef, NativeObj, _Poison)):
            return False
        try:
            iter(v)  # type: ignore[call-overload]
            return True
        except TypeError:
            return False

    def _iterate(self, v: object):
        n = 0
        if isinstance(v, NativeObj) and "__iter__" in v.methods:
            v = list(v.methods["__iter__"]())
        if isinstance(v, Obj) and self.is_namedtuple(v.cls):
            v = self.record_fields(v)
        for x in v:  # type: ignore[attr-defined]
            n += 1
            if n > 20000:
                raise Unknown("iteration bound exceeded")
            yield x

    def _slice(self, s: ast.Slice, fr: Frame):
        parts = [self.ev(x, fr) if x is not None else None for x in (s.lower, s.upper, s.step)]
        if any(p is POISON for p in parts):
            return POISON
        for p in parts:
            if p is not None and not isinstance(p, int):
                if hasattr(p, "__index__"):
                    continue
                raise Raised("TypeError")
        return slice(*parts)

    def _binop(self, op: type, a: object, b: object, inplace: bool = False):
        if a is POISON or b is POISON:
            return POISON
        f = _BIN.get(op)
        if f is None:
            raise Unknown(f"operator {op.__name__}")
        if not (_is_plain(a) and _is_plain(b)):
            raise Unknown(f"operator {op.__name__} on {type(a).__name__} / {type(b).__name__}")
        if inplace and isinstance(a, list) and op is ast.Add:
            if not isinstance(b, (list, tuple, str, set, frozenset, dict, range)) and not hasattr(b, "__iter__"):
                raise Raised("TypeError")
            a.extend(b)  # list += iterable mutates
            return a
        if inplace and isinstance(a, set) and op is ast.BitOr and isinstance(b, (set, frozenset)):
            a |= b
            return a
        if op is ast.Pow and isinstance(b, int) and abs(b) > 16:
            raise Unknown("large power")
        if op is ast.Mult and ((isinstance(a, int) and abs(a) > 10_000) or (isinstance(b, int) and abs(b) > 10_000)):
            raise Unknown("large repetition")
        try:
            return f(a, b)
        except Exception as e:  # noqa: BLE001
            raise Raised(type(e).__name__, e) from None

    def ev(self, e: ast.expr, fr: Frame):
        self._tick()
        if isinstance(e, ast.Constant):
            return e.value
        if isinstance(e, ast.Name):
            return self.name(e.id, fr)
        if isinstance(e, ast.Attribute):
            return self.getattr(self.ev(e.value, fr), e.attr, fr)
        if isinstance(e, ast.Call):
            return self._call(e, fr)
        if isinstance(e, ast.BinOp):
            return self._binop(type(e.op), self.ev(e.left, fr), self.ev(e.right, fr))
        if isinstance(e, ast.UnaryOp):
            v = self.ev(e.operand, fr)
            if isinstance(e.op, ast.Not):
                t = self._truth(v)
                return POISON if t is POISON else (not t)
            if v is POISON:
                return POISON
            try:
                if isinstance(e.op, ast.USub):
                    return -v  # type: ignore[operator]
                if isinstance(e.op, ast.UAdd):
                    return +v  # type: ignore[operator]
                if isinstance(e.op, ast.Invert):
                    return ~v  # type: ignore[operator]
            except Exception as ex:  # noqa: BLE001
                raise Raised(type(ex).__name__, ex) from None
        if isinstance(e, ast.BoolOp):
            is_and = isinstance(e.op, ast.And)
            v: object = None
            poisoned = False
            for x in e.values:
                v = self.ev(x, fr)
                t = self._truth(v)
                if t is POISON:
                    poisoned = True
                    continue
                if (not t) if is_and else t:
                    return POISON if poisoned else v
            return POISON if poisoned else v
        if isinstance(e, ast.Compare):
            left = self.ev(e.left, fr)
            result: object = True
            for op, c in zip(e.ops, e.comparators):
                right = self.ev(c, fr)
                r = self._compare(type(op), left, right)
                if r is POISON:
                    result = POISON
                elif not r:
                    return False
                left = right
            return result
        if isinstance(e, ast.IfExp):
            t = self._truth(self.ev(e.test, fr))
            if t is POISON:
                return POISON
            return self.ev(e.body if t else e.orelse, fr)
        if isinstance(e, ast.Subscript):
            o = self.ev(e.value, fr)
            k = self._slice(e.slice, fr) if isinstance(e.slice, ast.Slice) else self.ev(e.slice, fr)
            if o is POISON or k is POISON:
                return POISON
            if isinstance(o, (str, list, tuple, dict, range, bytes)):
                try:
                    return o[k]  # type: ignore[index]
                except Exception as ex:  # noqa: BLE001
                    raise Raised(type(ex).__name__, ex) from None
            if isinstance(o, Obj):
                m = self.repo.lookup_method(o.cls, "__getitem__")
                if m is not None:
                    return self.call_function(m, [k], {}, o)
                rec = self.record_fields(o)
                if rec is not None:
                    try:
                        r = rec[k]  # type: ignore[index]
                    except Exception as ex:  # noqa: BLE001
                        raise Raised(type(ex).__name__, ex) from None
                    return tuple(r) if isinstance(k, slice) else r
            if isinstance(o, NativeObj) and "__getitem__" in o.methods:
                return o.methods["__getitem__"](k)
            if type(o).__name__ == "_PathParents":
                try:
                    return o[k]  # type: ignore[index]
                except Exception as ex:  # noqa: BLE001
                    raise Raised(type(ex).__name__, ex) from None
            raise Unknown(f"subscript on {type(o).__name__}")
        if isinstance(e, (ast.List, ast.Tuple, ast.Set)):
            out: list = []
            for x in e.elts:
                if isinstance(x, ast.Starred):
                    v = self.ev(x.value, fr)
                    if v is POISON:
                        return POISON
                    if not self._iterable(v):
                        raise Raised("TypeError")
                    out.extend(self._iterate(v))
                else:
                    out.append(self.ev(x, fr))
            if isinstance(e, ast.List):
                return out
            if isinstance(e, ast.Tuple):
                return tuple(out)
            if any(x is POISON for x in out):
                return POISON
            try:
                return set(out)
            except TypeError:
                raise Unknown("set of unhashable model values") from None
        if isinstance(e, ast.Dict):
            d: dict = {}
            for k, v in zip(e.keys, e.values):
                if k is None:
                    m = self.ev(v, fr)
                    if m is POISON:
                        return POISON
                    if not isinstance(m, dict):
                        raise Raised("TypeError")
                    d.update(m)
                else:
                    kk = self.ev(k, fr)
                    if kk is POISON:
                        return POISON
                    try:
                        d[kk] = self.ev(v, fr)
                    except TypeError:
                        raise Unknown("unhashable dict key") from None
            return d
        if isinstance(e, (ast.ListComp, ast.SetComp, ast.GeneratorExp, ast.DictComp)):
            return self._comprehension(e, fr)
        if isinstance(e, ast.JoinedStr):
            parts: list[str] = []
            for v in e.values:
                if isinstance(v, ast.Constant):
                    parts.append(str(v.value))
                elif isinstance(v, ast.FormattedValue):
                    x = self.ev(v.value, fr)
                    if x is POISON:
                        return POISON
                    if not _is_plain(x):
                        raise Unknown("f-string over a model object")
                    if v.conversion == ord("r"):
                        x = repr(x)
                    elif v.conversion == ord("s"):
                        x = str(x)
                    elif v.conversion != -1:
                        raise Unknown("f-string conversion")
                    if v.format_spec is not None:
                        spec = self.ev(v.format_spec, fr)
                        if spec is POISON:
                            return POISON
                        try:
                            parts.append(format(x, spec))
                        except Exception as ex:  # noqa: BLE001
                            raise Raised(type(ex).__name__, ex) from None
                    else:
                        parts.append(format(x))
            return "".join(parts)
        if isinstance(e, ast.Lambda):
            nf = getattr(e, "_func", None)
            if nf is None:
                src = getattr(e, "_src", None)
                nf = getattr(src[1], "_func", None) if src else None
            if nf is None:
                raise Unknown("lambda without FuncInfo")
            return Closure(e, nf, fr.env)
        if isinstance(e, (ast.Yield, ast.YieldFrom)):
            g = self._cur_gen
            if g is None:
                raise Unknown("yield outside a generator that is being iterated")
            if fr.uncertain or self.uncertain:
                raise Unknown("yield on a path whose conditions cannot be evaluated")
            if isinstance(e, ast.Yield):
                g.suspend(self.ev(e.value, fr) if e.value is not None else None)
                return None
            src = self.ev(e.value, fr)
            if src is POISON:
                raise Unknown("yield from an undetermined value")
            if not self._iterable(src):
                raise Raised("TypeError")
            for x in self._iterate(src):
                g.suspend(x)
            return None
        if isinstance(e, ast.NamedExpr):
            v = self.ev(e.value, fr)
            self.assign(e.target, v, fr)
            return v
        if isinstance(e, ast.Starred):
            raise Unknown("starred expression outside a display / call")
        raise Unknown(f"expression {type(e).__name__}")

    def _compare(self, op: type, a: object, b: object):
        if a is POISON or b is POISON:
            return POISON
        if op in (ast.Is, ast.IsNot):
            same = a is b or (isinstance(a, (Fn, ClassRef)) and a == b)
            singleton = a is None or b is None or isinstance(a, bool) or isinstance(b, bool)
            if not same and not singleton and _is_plain(a) and type(a) is type(b) and isinstance(a, (str, int, tuple, frozenset)) and a == b:
                raise Unknown("identity of two equal immutable values is an implementation detail")
            return same if op is ast.Is else not same
        if op in (ast.In, ast.NotIn):
            if isinstance(b, NativeObj) and "__contains__" in b.methods:
                r = self._truth(b.methods["__contains__"](a))
                return r if r is POISON else (r if op is ast.In else not r)
            if isinstance(b, Obj):
                m = self.repo.lookup_method(b.cls, "__contains__")
                if m is None:
                    raise Unknown("membership in a model object")
                r = self._truth(self.call_function(m, [a], {}, b))
                return r if r is POISON else (r if op is ast.In else not r)
            if not self._iterable(b):
                raise Raised("TypeError")
            if _deep_poison(b):
                return POISON
            if isinstance(b, (str, list, tuple, dict, set, frozenset, range)):
                try:
                    r = a in b
                except TypeError:
                    if not _is_plain(a):
                        r = any(a is x or a == x for x in b)
                    else:
                        raise Raised("TypeError") from None
                return r if op is ast.In else not r
            raise Unknown(f"membership in {type(b).__name__}")
        if isinstance(a, (Obj, NativeObj)) or isinstance(b, (Obj, NativeObj)):
            if op in (ast.Eq, ast.NotEq):
                if isinstance(a, Obj) and self.repo.lookup_method(a.cls, "__eq__") is not None:
                    r = self._truth(self.call_function(self.repo.lookup_method(a.cls, "__eq__"), [b], {}, a))
                    return r if r is POISON else (r if op is ast.Eq else not r)
                r = a is b
                return r if op is ast.Eq else not r
            raise Unknown("ordering of model objects")
        try:
            return _CMP[op](a, b)
        except Exception as ex:  # noqa: BLE001
            raise Raised(type(ex).__name__, ex) from None

    def _comprehension(self, e: ast.AST, fr: Frame):
        inner = Frame(fr.fi, fr.mod, Env({}, fr.env))
        inner.uncertain = fr.uncertain
        out: list = []
        poisoned = [False]

        def rec(i: int) -> None:
            if i == len(e.generators):  # type: ignore[attr-defined]
                if isinstance(e, ast.DictComp):
                    out.append((self.ev(e.key, inner), self.ev(e.value, inner)))
                else:
                    out.append(self.ev(e.elt, inner))  # type: ignore[attr-defined]
                return
            g = e.generators[i]  # type: ignore[attr-defined]
            it = self.ev(g.iter, inner)
            if it is POISON:
                poisoned[0] = True
                return
            if not self._iterable(it):
                raise Raised("TypeError")
            for x in self._iterate(it):
                self._tick()
                self.assign(g.target, x, inner)
                ok = True
                for c in g.ifs:
                    t = self._truth(self.ev(c, inner))
                    if t is POISON:
                        poisoned[0] = True
                        ok = False
                        break
                    if not t:
                        ok = False
                        break
                if ok:
                    rec(i + 1)

        rec(0)
        if poisoned[0]:
            return POISON
        if isinstance(e, ast.ListComp):
            return out
        if isinstance(e, ast.GeneratorExp):
            return iter(out)
        if isinstance(e, ast.SetComp):
            if any(x is POISON for x in out):
                return POISON
            try:
                return set(out)
            except TypeError:
                raise Unknown("set of unhashable model values") from None
        if any(k is POISON for k, _ in out):
            return POISON
        try:
            return dict(out)
        except TypeError:
            raise Unknown("unhashable dict key") from None

    # ------------------------------------------------------------------ names and attributes
    def name(self, id_: str, fr: Frame):
        found, v = fr.env.lookup(id_)
        if found:
            return v
        return self.module_name(id_, fr.mod)

    def module_name(self, id_: str, mod: ModuleInfo):
        if id_ in mod.functions:
            return Fn(mod.functions[id_])
        if id_ in mod.classes:
            return ClassRef(mod.classes[id_])
        if id_ in mod.constants:
            key = (mod.name, id_)
            if key not in self._modvals:
                self._modvals[key] = POISON  # cycles
                self._modvals[key] = self._guarded(mod.constants[id_], Frame(None, mod, Env({})))
            return self._modvals[key]
        if id_ in mod.imports:
            return self._from_dotted(self.repo._canonical(mod.imports[id_]))
        if id_ in PURE_BUILTINS:
            return PURE_BUILTINS[id_]
        if id_ in ("map", "filter", "sorted", "min", "max", "isinstance", "issubclass", "getattr", "hasattr", "callable", "print", "super", "type", "id", "hash"):
            return LibRef(f"builtins.{id_}")
        b = getattr(builtins, id_, None)
        if isinstance(b, type) and issubclass(b, BaseException):
            return b
        if id_ in ("True", "False", "None"):
            return {"True": True, "False": False, "None": None}[id_]
        if id_ == "NotImplemented":
            return NotImplemented
        raise Unknown(f"name `{id_}`")

    def _from_dotted(self, fq: str):
        modname, _, attr = fq.rpartition(".")
        m = self.repo.modules.get(modname)
        if m is not None:
            if attr in m.functions or attr in m.classes or attr in m.constants or attr in m.imports:
                return self.module_name(attr, m)
            raise Unknown(f"`{attr}` not found in {modname}")
        if fq in self.repo.modules:
            return LibRef(fq)
        return LibRef(fq)

    def getattr(self, o: object, attr: str, fr: Frame):
        if o is POISON:
            return POISON
        if isinstance(o, Obj):
            if attr in o.attrs:
                return o.attrs[attr]
            return self._class_attr(o.cls, attr, o)
        if isinstance(o, ClassRef):
            return self._class_attr(o.cls, attr, None)
        if isinstance(o, SuperRef):
            start = o.obj.cls if isinstance(o.obj, (Obj, ClassRef)) else o.cls
            mro = self.repo.mro(start)
            if o.cls not in mro:
                raise Unknown("super(): receiver is not an instance of the defining class")
            for c in mro[mro.index(o.cls) + 1:]:
                if attr in c.methods:
                    m = c.methods[attr]
                    if m.is_property or m.is_classmethod:
                        raise Unknown(f"super().{attr}: properties / class methods are not modelled")
                    return Fn(m) if m.is_staticmethod else Bound(m, o.obj, exact=True)
            if attr == "__init__" and not self.repo.external_bases(o.cls):
                return model(lambda *a, **k: None)  # object.__init__
            raise Unknown(f"super().{attr} is not defined in the analysed code")
        if isinstance(o, NativeObj):
            if attr in o.attrs:
                return o.attrs[attr]
            if attr in o.methods:
                fn = o.methods[attr]
                w = model(lambda *a, **k: fn(*a, **k))
                w._c09_takes_poison = o.poison_ok
                return w
            raise Unknown(f"`{attr}` of {o.label}")
        if isinstance(o, LibRef):
            name = f"{o.name}.{attr}"
            m = self.repo.modules.get(o.name)
            if m is not None:
                return self.module_name(attr, m)
            return self._lib(name)
        if isinstance(o, (str, int, tuple, frozenset, slice, range, bytes)) and not attr.startswith("_") and hasattr(o, attr):
            return getattr(o, attr)  # immutable builtin values: every public method is a pure function of the value
        if isinstance(o, str) and attr in STR_METHODS:
            return getattr(o, attr)
        if isinstance(o, list) and attr in LIST_METHODS:
            return getattr(o, attr)
        if isinstance(o, tuple) and attr in TUPLE_METHODS:
            return getattr(o, attr)
        if isinstance(o, dict) and attr in DICT_METHODS:
            return getattr(o, attr)
        if isinstance(o, (set, frozenset)) and attr in SET_METHODS and hasattr(o, attr):
            return getattr(o, attr)
        if isinstance(o, PurePosixPath):
            if attr in PATH_ATTRS or attr in PATH_METHODS:
                return getattr(o, attr)
            if attr in ("resolve", "absolute", "expanduser") and o.is_absolute():
                return model(lambda *a, **k: PurePosixPath(posixpath.normpath(str(o))))  # the model file system has no symlinks
            raise Unknown(f"Path.{attr} (file system access is not evaluated)")
        if isinstance(o, re.Pattern) and attr in RE_PATTERN_ATTRS:
            return getattr(o, attr)
        if isinstance(o, re.Match) and attr in RE_MATCH_ATTRS:
            return getattr(o, attr)
        if isinstance(o, (Fn, Bound, Closure, Partial)):
            if attr == "__name__" and isinstance(o, Fn):
                return o.fi.name
            if isinstance(o, Partial) and attr in ("func", "args", "keywords"):
                return {"func": o.fn, "args": tuple(o.args), "keywords": dict(o.kwargs)}[attr]
            raise Unknown(f"attribute `{attr}` of a function")
        if isinstance(o, BaseException) and attr == "args":
            return o.args
        raise Unknown(f"attribute `{attr}` of {type(o).__name__}")

    def _lib(self, name: str):
        if name in LIB_VALUES:
            return LIB_VALUES[name]
        return LibRef(name)

    def _class_attr(self, ci: ClassInfo, attr: str, inst: Obj | None):
        for c in self.repo.mro(ci):
            if attr in c.methods:
                m = c.methods[attr]
                if m.is_property:
                    if inst is None:
                        raise Unknown("property read on a class")
                    return self.call_function(m, [], {}, inst)
                if m.is_staticmethod:
                    return Fn(m)
                if m.is_classmethod:
                    return Bound(m, ClassRef(inst.cls if inst is not None else ci))
                if inst is None:
                    return Fn(m)
                # virtual dispatch: the most derived implementation for the instance's class
                return Bound(m, inst)
            if attr in c.class_attrs:
                key = (c.fq, attr)
                if key not in self._clsvals:
                    self._clsvals[key] = self._guarded(c.class_attrs[attr], Frame(None, c.module, Env({})))
                return self._clsvals[key]
        raise Unknown(f"attribute `{attr}` of {ci.name} is not known to the evaluator")

    # ------------------------------------------------------------------ calls
    def _call(self, e: ast.Call, fr: Frame):
        if isinstance(e.func, ast.Name) and e.func.id == "super" and not e.args and not e.keywords and not fr.env.lookup("super")[0]:
            fi = fr.fi
            while fi is not None and fi.outer is not None:
                fi = fi.outer
            if fi is not None and fi.cls is not None and not fi.is_staticmethod and fi.param_names:
                found, recv = fr.env.lookup(fi.param_names[0])
                if found and isinstance(recv, (Obj, ClassRef)):
                    return SuperRef(recv, fi.cls)
            raise Unknown("super() outside a method")
        f = self.ev(e.func, fr)
        args: list = []
        for a in e.args:
            if isinstance(a, ast.Starred):
                v = self.ev(a.value, fr)
                if v is POISON:
                    return POISON if self.tolerant else _raise(Unknown("starred undetermined value"))
                if not self._iterable(v):
                    raise Raised("TypeError")
                args.extend(self._iterate(v))
            else:
                args.append(self.ev(a, fr))
        kwargs: dict = {}
        for k in e.keywords:
            v = self.ev(k.value, fr)
            if k.arg is None:
                if v is POISON:
                    return POISON
                if not isinstance(v, dict):
                    raise Raised("TypeError")
                kwargs.update(v)
            else:
                kwargs[k.arg] = v
        return self.apply(f, args, kwargs)

    def apply(self, f: object, args: list, kwargs: dict | None = None):
        kwargs = kwargs or {}
        self._tick()
        if f is POISON:
            return POISON
        if isinstance(f, Fn):
            if f.fi.cls is not None and f.fi.outer is None and not f.fi.is_staticmethod and not isinstance(f.fi.node, ast.Lambda):
                if not args:
                    raise Raised("TypeError")
                return self.call_function(f.fi, args[1:], kwargs, args[0])
            return self.call_function(f.fi, args, kwargs)
        if isinstance(f, Bound):
            fi = f.fi
            if isinstance(f.obj, Obj) and not f.exact:
                impl = self.repo.lookup_method(f.obj.cls, fi.name)
                fi = impl if impl is not None else fi
            if fi.is_staticmethod:
                return self.call_function(fi, args, kwargs)
            return self.call_function(fi, args, kwargs, f.obj)
        if isinstance(f, Closure):
            return self.call_function(f.fi, args, kwargs, closure_env=f.env)
        if isinstance(f, Partial):
            return self.apply(f.fn, [*f.args, *args], {**f.kwargs, **kwargs})
        if isinstance(f, ClassRef):
            return self._construct(f.cls, args, kwargs)
        if isinstance(f, LibRef):
            return self._lib_call(f.name, args, kwargs)
        if isinstance(f, Obj):
            m = self.repo.lookup_method(f.cls, "__call__")
            if m is None:
                raise Raised("TypeError")
            return self.call_function(m, args, kwargs, f)
        if isinstance(f, NativeObj) and "__call__" in f.methods:
            w = model(f.methods["__call__"])
            w._c09_takes_poison = f.poison_ok
            return self._native(w, args, kwargs)
        if callable(f):
            return self._native(f, args, kwargs)
        raise Raised("TypeError")

    def _construct(self, ci: ClassInfo, args: list, kwargs: dict):
        if ci.fq in self.intercept:
            return self.intercept[ci.fq](args, kwargs, self.uncertain)
        o = Obj(ci)
        self.created.append(o)
        init = self.repo.lookup_method(ci, "__init__")
        if init is not None:
            self.call_function(init, args, kwargs, o)
        elif any(c.is_dataclass for c in self.repo.mro(ci)) or self.is_namedtuple(ci):
            fields = [a for c in reversed(self.repo.mro(ci)) for a in c.ann_attrs]
            if self.is_namedtuple(ci):
                # every field has a value from the start (defaults from the class body), the record is a tuple of them
                given = set(fields[: len(args)]) | set(kwargs)
                for name in fields:
                    if name not in given:
                        src = next((c for c in self.repo.mro(ci) if name in c.class_attrs), None)
                        if src is None:
                            raise Raised("TypeError")
                        o.attrs[name] = self._guarded(src.class_attrs[name], Frame(None, src.module, Env({})))
            if len(args) > len(fields):
                raise Raised("TypeError")
            for name, v in zip(fields, args):
                o.attrs[name] = v
            for k, v in kwargs.items():
                if k not in fields:
                    raise Raised("TypeError")
                o.attrs[k] = v
            post = self.repo.lookup_method(ci, "__post_init__")
            if post is not None:
                self.call_function(post, [], {}, o)
        elif self.repo.external_bases(ci) & {"Exception", "BaseException", "ValueError", "TypeError", "KeyError", "RuntimeError", "LookupError"} or any("Error" in b or "Exception" in b for b in self.repo.external_bases(ci)):
            o.attrs["args"] = tuple(args)
        elif args or kwargs:
            raise Raised("TypeError")
        return o

    def is_namedtuple(self, ci: ClassInfo) -> bool:
        return bool(self.repo.external_bases(ci) & {"NamedTuple", "typing.NamedTuple"})

    def record_fields(self, o: Obj) -> list | None:
        """The field values of a NamedTuple instance, in order (None for any other object)."""
        if not self.is_namedtuple(o.cls):
            return None
        fields = [a for c in reversed(self.repo.mro(o.cls)) for a in c.ann_attrs]
        return [o.attrs.get(f, POISON) for f in fields]

    def _lib_call(self, name: str, args: list, kwargs: dict):
        if name in self.lib_models:
            return self.lib_models[name](args, kwargs)
        if name in ("functools.partial",):
            if not args:
                raise Raised("TypeError")
            return Partial(args[0], list(args[1:]), dict(kwargs))
        if name == "builtins.map":
            if len(args) < 2:
                raise Raised("TypeError")
            its = args[1:]
            if any(i is POISON for i in its):
                return POISON
            for i in its:
                if not self._iterable(i):
                    raise Raised("TypeError")
            return iter([self.apply(args[0], list(xs)) for xs in zip(*[list(self._iterate(i)) for i in its])])
        if name == "itertools.chain.from_iterable":
            if len(args) != 1 or kwargs:
                raise Raised("TypeError")
            if args[0] is POISON:
                return POISON
            if not self._iterable(args[0]):
                raise Raised("TypeError")

            def flat(outer=args[0]):
                for inner in self._iterate(outer):
                    if inner is POISON:
                        raise Unknown("chain.from_iterable over an undetermined element")
                    if not self._iterable(inner):
                        raise Raised("TypeError")
                    yield from self._iterate(inner)

            return flat()
        if name in ("itertools.accumulate", "functools.reduce"):
            # accumulate(iterable, func=operator.add, *, initial=None) / reduce(func, iterable[, initial])
            if name == "itertools.accumulate":
                seq, fn = (args[0] if args else POISON), (args[1] if len(args) > 1 else kwargs.get("func"))
                has_init, init = kwargs.get("initial") is not None, kwargs.get("initial")
            else:
                if len(args) < 2:
                    raise Raised("TypeError")
                fn, seq = args[0], args[1]
                has_init, init = len(args) > 2, (args[2] if len(args) > 2 else None)
            if seq is POISON or fn is POISON or init is POISON:
                return POISON
            if not self._iterable(seq):
                raise Raised("TypeError")
            items = list(self._iterate(seq))
            if has_init:
                items = [init, *items]
            steps: list = []
            for x in items:
                if not steps:
                    steps.append(x)
                else:
                    steps.append(self._binop(ast.Add, steps[-1], x) if fn is None else self.apply(fn, [steps[-1], x]))
                if steps[-1] is POISON:
                    return POISON
            if name == "functools.reduce":
                if not steps:
                    raise Raised("TypeError")
                return steps[-1]
            return iter(steps)
        if name == "builtins.filter":
            if len(args) != 2:
                raise Raised("TypeError")
            if args[1] is POISON:
                return POISON
            out = []
            for x in self._iterate(args[1]):
                t = self._truth(x if args[0] is None else self.apply(args[0], [x]))
                if t is POISON:
                    return POISON
                if t:
                    out.append(x)
            return iter(out)
        if name in ("builtins.sorted", "builtins.min", "builtins.max"):
            if not args or any(a is POISON for a in args):
                return POISON
            key = kwargs.get("key")
            rest = {k: v for k, v in kwargs.items() if k != "key"}
            if any(v is POISON for v in rest.values()):
                return POISON
            seq = list(self._iterate(args[0])) if len(args) == 1 else list(args)
            if _deep_poison(seq):
                return POISON
            keyed = None if key is None else {id(x): self.apply(key, [x]) for x in seq}
            if keyed is not None and _deep_poison(list(keyed.values())):
                return POISON
            fn = {"builtins.sorted": sorted, "builtins.min": min, "builtins.max": max}[name]
            try:
                if keyed is None:
                    return fn(seq, **rest) if len(args) == 1 else fn(*seq, **rest)
                return fn(seq, key=lambda x: keyed[id(x)], **rest)
            except Exception as ex:  # noqa: BLE001
                raise Raised(type(ex).__name__, ex) from None
        if name == "builtins.isinstance":
            if len(args) != 2:
                raise Raised("TypeError")
            v, c = args
            if v is POISON or c is POISON:
                return POISON
            cs = list(c) if isinstance(c, tuple) else [c]
            res = False
            for x in cs:
                if isinstance(x, type):
                    if isinstance(v, Obj):
                        res = res or (x is object) or (x is tuple and self.is_namedtuple(v.cls))
                    elif _is_plain(v) or isinstance(v, BaseException):
                        tgt = PurePosixPath if x is PurePosixPath else x
                        res = res or isinstance(v, tgt)
                    else:
                        raise Unknown("isinstance on a model value")
                elif isinstance(x, ClassRef):
                    res = res or (isinstance(v, Obj) and any(k == x.cls for k in self.repo.mro(v.cls)))
                elif isinstance(x, LibRef):
                    raise Unknown(f"isinstance against {x.name}")
                else:
                    raise Raised("TypeError")
            return res
        if name == "builtins.getattr":
            if len(args) not in (2, 3) or not isinstance(args[1], str):
                raise Raised("TypeError")
            try:
                return self.getattr(args[0], args[1], Frame(None, next(iter(self.repo.modules.values())), Env({})))
            except Unknown:
                if len(args) == 3 and isinstance(args[0], Obj):
                    return args[2]
                raise
        if name == "builtins.hasattr":
            if len(args) == 2 and isinstance(args[0], Obj) and isinstance(args[1], str):
                if args[1] in args[0].attrs:
                    return True
                return any(args[1] in c.methods or args[1] in c.class_attrs for c in self.repo.mro(args[0].cls))
            raise Unknown("hasattr on a non-model value")
        if name == "builtins.callable":
            return isinstance(args[0], (Fn, Bound, Closure, Partial, ClassRef)) or callable(args[0])
        fn = LIB_FUNCS.get(name)
        if fn is not None:
            return self._native(fn, args, kwargs)
        raise Unknown(f"library call {name}")

    def _native(self, f: object, args: list, kwargs: dict):
        if getattr(f, "_c09_model", False) and getattr(f, "_c09_takes_poison", False):
            return f(*args, **kwargs)  # type: ignore[operator]
        vals = [*args, *kwargs.values()]
        recv = getattr(f, "__self__", None)
        if any(v is POISON for v in vals):
            if recv is not None and isinstance(recv, (list, dict, set)):
                # a container that absorbs an undetermined value stays a container holding POISON
                pass
            else:
                return POISON
        for v in vals:
            if isinstance(v, (Fn, Bound, Closure, Partial)):
                raise Unknown("model callable handed to a library function")
        if getattr(f, "_c09_model", False):
            return f(*args, **kwargs)  # type: ignore[operator]
        ok = f in PURE_BUILTINS.values() or f in [v for v in LIB_FUNCS.values() if v is not None] or (isinstance(f, type) and issubclass(f, BaseException))
        if not ok and recv is not None and not isinstance(recv, type(builtins)):
            name = getattr(f, "__name__", "")
            ok = (
                (isinstance(recv, (str, int, tuple, frozenset, slice, range, bytes)) and not isinstance(recv, type) and not name.startswith("_")) or
                (isinstance(recv, str) and name in STR_METHODS) or (isinstance(recv, list) and name in LIST_METHODS) or (isinstance(recv, tuple) and name in TUPLE_METHODS)
                or (isinstance(recv, dict) and name in DICT_METHODS) or (isinstance(recv, (set, frozenset)) and name in SET_METHODS) or (isinstance(recv, PurePosixPath) and name in PATH_METHODS)
                or (isinstance(recv, re.Pattern) and name in RE_PATTERN_ATTRS) or (isinstance(recv, re.Match) and name in RE_MATCH_ATTRS)
            )
        if not ok:
            raise Unknown(f"call of {getattr(f, '__qualname__', type(f).__name__)}")
        if f is str and args and not (_is_plain(args[0]) or isinstance(args[0], BaseException)):
            raise Unknown("str() of a model object")
        if f is range and any(isinstance(a, int) and abs(a) > 100_000 for a in args):
            raise Unknown("large range")
        if f in (list, tuple, set, frozenset, sum, any, all, dict, len) and args and isinstance(args[0], (Obj, NativeObj)):
            raise Unknown("container protocol of a model object")
        if getattr(f, "__name__", "") == "sort" and kwargs.get("key") is not None:
            raise Unknown("list.sort with key")
        if getattr(f, "__name__", "") == "join" and isinstance(recv, str) and args and not isinstance(args[0], (Obj, NativeObj)) and self._iterable(args[0]):
            items = list(self._iterate(args[0]))
            if any(x is POISON for x in items):
                return POISON
            args = [items]
        try:
            return f(*args, **kwargs)  # type: ignore[operator]
        except Unknown:
            raise
        except Raised:
            raise
        except Exception as ex:  # noqa: BLE001
            raise Raised(type(ex).__name__, ex) from None


def model(fn):
    """Marks a Python function supplied by a rule as a model callable (may receive model values)."""
    fn._c09_model = True
    return fn


def _raise(e: Exception):
    raise e


def _as_load(t: ast.expr) -> ast.expr:
    new = ast.parse(ast.unparse(t), mode="eval").body
    return new
