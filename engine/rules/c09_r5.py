"""C09.R5 - the level limit acts on the graph through the truncation of node names only.

The property says that the limited architecture *is* the full architecture with truncated names.  The graph drops an import whose two
ends flatten to the same node and merges modules below the limit - nothing else.  So the function that builds the graph must hand the
constructor the module list and the import list of the full scan; if some statement makes one of them depend on the limit (a
"pre-filter"), whatever it withholds must be something the graph would have dropped anyway.

How: in the inline view of the function that calls the constructor, a flow-sensitive dependence analysis (data and control) from the
parameter carrying the user's limit finds the statements in which the limit *meets* the scan result.  Each of them is tabulated
(rules/c09_eval.py) on model imports / module names in the environment it has when the public entry point is evaluated: an import is
withheld only if both ends truncate to the same node, the set of truncated module names is unchanged.  No meeting statement: discharged
by the dependence analysis alone.
"""

from __future__ import annotations

import ast

from core.cfg import always_exits, exit_kinds
from core.inline_stmt import inline_view
from core.loader import FuncInfo, header, norm, parent
from core.types import members

from .c09_eval import POISON, Env, Evaluator, Frame, NativeObj, Raised, Unknown, _Break, _Continue, _Return
from .common import where

IMPORT_PAIRS = (
    ("proj.core.api.handlers", "proj.core.api_v2.schema"),
    ("proj.core.api.handlers", "proj.core.api.models.user"),
    ("proj.core.db.model", "proj.core.db.models.user"),
    ("proj.core.util", "proj.core.utils.text"),
    ("proj.core.api.handlers.v1", "proj.core.api.handlers.v2"),
    ("proj.core", "proj.core.api"),
    ("proj.a.x", "proj.b.y"),
    ("proj.core.api.handlers", "os.path"),
    ("proj.core.api.a.b.c", "proj.core.api.a.b.d"),
    ("proj.ab", "proj.a"),
)


def _parents(name: str) -> list[str]:
    parts = name.split(".")
    return [".".join(parts[:i]) for i in range(1, len(parts))]


def _mock_import(importer: str, importee: str) -> NativeObj:
    return NativeObj(
        f"<Import {importer} -> {importee}>",
        {"importer": lambda: importer, "importee": lambda: importee, "importer_parent_modules": lambda: _parents(importer), "importee_parent_modules": lambda: _parents(importee)},
        {"_c09_pair": (importer, importee)},
    )


def _loads(e: ast.AST | None) -> set[str]:
    return {n.id for n in ast.walk(e) if isinstance(n, ast.Name) and isinstance(n.ctx, ast.Load)} if e is not None else set()


def _stores(t: ast.AST) -> set[str]:
    return {n.id for n in ast.walk(t) if isinstance(n, ast.Name) and isinstance(n.ctx, ast.Store)}


def simple_defs(st: ast.stmt) -> list[tuple[set[str], set[str], bool]]:
    """(variables bound / mutated, variables read, strong update?) of a simple statement; several entries for `a, b = x, y`."""
    if isinstance(st, ast.Assign):
        if len(st.targets) == 1 and isinstance(st.targets[0], (ast.Tuple, ast.List)) and isinstance(st.value, (ast.Tuple, ast.List)) and len(st.targets[0].elts) == len(st.value.elts) and not any(isinstance(x, ast.Starred) for x in [*st.targets[0].elts, *st.value.elts]):
            return [(_stores(t), _loads(v) | _loads(t), isinstance(t, ast.Name)) for t, v in zip(st.targets[0].elts, st.value.elts)]
        tg: set[str] = set()
        us = _loads(st.value)
        strong = True
        for t in st.targets:
            if isinstance(t, (ast.Attribute, ast.Subscript)):
                root = t
                while isinstance(root, (ast.Attribute, ast.Subscript)):
                    root = root.value
                if isinstance(root, ast.Name):
                    tg.add(root.id)
                strong = False
                us |= _loads(t)
            else:
                tg |= _stores(t)
        return [(tg, us, strong)]
    if isinstance(st, ast.AnnAssign) and st.value is not None:
        return [(_stores(st.target), _loads(st.value), isinstance(st.target, ast.Name))]
    if isinstance(st, ast.AugAssign):
        tg = _stores(st.target) | ({st.target.id} if isinstance(st.target, ast.Name) else set())
        if isinstance(st.target, (ast.Attribute, ast.Subscript)):
            root = st.target
            while isinstance(root, (ast.Attribute, ast.Subscript)):
                root = root.value
            if isinstance(root, ast.Name):
                tg.add(root.id)
        return [(tg, _loads(st.value) | tg | _loads(st.target), False)]
    if isinstance(st, ast.Expr) and isinstance(st.value, ast.Call) and isinstance(st.value.func, ast.Attribute):
        root = st.value.func.value
        while isinstance(root, (ast.Attribute, ast.Subscript, ast.Call)):
            root = root.func if isinstance(root, ast.Call) else root.value
        if isinstance(root, ast.Name):
            return [({root.id}, _loads(st.value), False)]  # x.append(v), x.update(v), x.sort(): a mutation of x
    out = []
    for n in ast.walk(st):
        if isinstance(n, ast.NamedExpr) and isinstance(n.target, ast.Name):
            out.append(({n.target.id}, _loads(n.value), False))
    return out


class Dependence:
    """Flow-sensitive forward dependence on a set of root variables (data and control), over the statement tree of one function."""

    def __init__(self, fn: ast.AST, roots: set[str]) -> None:
        self.fn = fn
        self.roots = roots
        self.meetings: list[tuple[ast.stmt, set[str]]] = []  # (simple statement, variables that become limit-dependent there)
        self.at_stmt: dict[int, set[str]] = {}
        self.final = self.block(list(fn.body), set(roots), False)

    def block(self, stmts: list[ast.stmt], dep: set[str], ctl: bool) -> set[str]:
        dep = set(dep)
        for st in stmts:
            self.at_stmt[id(st)] = set(dep)
            if isinstance(st, ast.If):
                c = ctl or bool(_loads(st.test) & dep)
                a = self.block(st.body, dep, c)
                b = self.block(st.orelse, dep, c)
                dep = a | b
                if c:
                    # everything after a `continue` / `break` decided by the limit is control-dependent on it.  A `return` / `raise` is
                    # different: a path that goes on to the constructor has not taken it, so what reaches the constructor was computed as
                    # without a limit (whether a graph is constructed at all, and with which limit, is C09.R4's table)
                    kinds: set[str] = set()
                    if always_exits(st.body):
                        kinds |= exit_kinds(st.body)
                    if st.orelse and always_exits(st.orelse):
                        kinds |= exit_kinds(st.orelse)
                    if kinds & {"continue", "break"}:
                        ctl = True
            elif isinstance(st, (ast.For, ast.AsyncFor, ast.While)):
                head = st.iter if not isinstance(st, ast.While) else st.test
                for _ in range(2):
                    c = ctl or bool(_loads(head) & dep)
                    inner = set(dep)
                    if not isinstance(st, ast.While) and c:
                        inner |= _stores(st.target)
                        if _stores(st.target) and not ctl and _loads(head) & dep:
                            pass
                    dep = dep | self.block(st.body, inner, c) | self.block(st.orelse, inner, c)
            elif isinstance(st, ast.Try):
                d = self.block(st.body, dep, ctl)
                for h in st.handlers:
                    d |= self.block(h.body, dep | d, ctl)
                d |= self.block(st.orelse, d, ctl)
                dep = d | self.block(st.finalbody, d, ctl)
            elif isinstance(st, (ast.With, ast.AsyncWith)):
                for it in st.items:
                    if it.optional_vars is not None and (ctl or _loads(it.context_expr) & dep):
                        dep |= _stores(it.optional_vars)
                dep = self.block(st.body, dep, ctl)
            elif isinstance(st, ast.Match):
                c = ctl or bool(_loads(st.subject) & dep)
                d = set(dep)
                for case in st.cases:
                    d |= self.block(case.body, dep, c)
                dep = d
            else:
                for tg, us, strong in simple_defs(st):
                    if ctl or us & dep:
                        new = tg - self.roots
                        if new:
                            self.meetings.append((st, set(tg)))
                        dep |= tg
                    elif strong:
                        dep -= tg - self.roots
        return dep


def backward(fn: ast.AST, start: set[str]) -> set[str]:
    """Variables the start set depends on (flow-insensitive over-approximation, data and control)."""
    defs: list[tuple[set[str], set[str]]] = []

    def walk(stmts: list[ast.stmt], ctl: set[str]) -> None:
        for st in stmts:
            if isinstance(st, ast.If):
                walk(st.body, ctl | _loads(st.test))
                walk(st.orelse, ctl | _loads(st.test))
            elif isinstance(st, (ast.For, ast.AsyncFor)):
                defs.append((_stores(st.target), _loads(st.iter) | ctl))
                walk(st.body, ctl | _loads(st.iter))
                walk(st.orelse, ctl)
            elif isinstance(st, ast.While):
                walk(st.body, ctl | _loads(st.test))
                walk(st.orelse, ctl)
            elif isinstance(st, ast.Try):
                walk(st.body, ctl)
                for h in st.handlers:
                    walk(h.body, ctl)
                walk(st.orelse, ctl)
                walk(st.finalbody, ctl)
            elif isinstance(st, (ast.With, ast.AsyncWith)):
                for it in st.items:
                    if it.optional_vars is not None:
                        defs.append((_stores(it.optional_vars), _loads(it.context_expr) | ctl))
                walk(st.body, ctl)
            elif isinstance(st, ast.Match):
                for case in st.cases:
                    walk(case.body, ctl | _loads(st.subject))
            else:
                for tg, us, _strong in simple_defs(st):
                    defs.append((tg, us | ctl))

    walk(list(fn.body), set())
    seen = set(start)
    changed = True
    while changed:
        changed = False
        for tg, us in defs:
            if tg & seen and not us <= seen:
                seen |= us
                changed = True
    return seen


def _kind(cx, f: FuncInfo, within: ast.AST, var: str) -> str:
    """imports | modules | other: what a variable of the graph-building function holds, by static type."""
    for n in ast.walk(within):
        if isinstance(n, ast.Name) and n.id == var:
            try:
                t = cx.T.expr(f, n)
            except Exception:  # noqa: BLE001
                continue
            for m in members(t):
                if m[0] == "b" and m[1] in ("list", "seq", "iter", "set", "tuple", "frozenset") and m[2]:
                    el = members(m[2][0])
                    if any(x[0] == "cls" and x[1] in cx.import_classes for x in el):
                        return "imports"
                    if any(x == ("b", "str", ()) for x in el):
                        return "modules"
    return "other"


def rule_r5(cx) -> bool:
    """Returns whether the module / import list handed to the graph depends on the limit at all."""
    from .c09 import ENTRIES, ENTRY_MODULE, GRAPH_CLASS

    res, repo, T = cx.res, cx.repo, cx.T
    sites = cx.ctor_sites()
    if not sites:
        res.observe(f"C09.R5: no construction of {GRAPH_CLASS} found in src (nothing to decide)")
        return False
    depends = False
    em = repo.modules.get(ENTRY_MODULE)
    entry = em.functions.get(ENTRIES[0]) if em is not None else None

    def allow(caller: FuncInfo, callee: FuncInfo) -> bool:
        # the accessors of Import are the vocabulary of the model imports: keep them as calls
        return not (callee.cls is not None and any(c.fq in cx.import_classes for c in repo.mro(callee.cls)))

    for f, call0 in sites:
        v = inline_view(repo, f, T, allow=allow)
        call = next((n for n in ast.walk(v.node) if isinstance(n, ast.Call) and getattr(n, "_src", (None, None))[1] is call0), None)
        if call is None:
            v, call = f, call0
        base = f"{f.relpath}::{f.qualname}"
        names = cx.init.param_names[1:]

        def arg(pname: str):
            for k in call.keywords:
                if k.arg == pname:
                    return k.value
            i = names.index(pname)
            return call.args[i] if i < len(call.args) and not any(isinstance(a, ast.Starred) for a in call.args[: i + 1]) else None

        a_mod, a_imp, a_lim = arg(cx.modules_param), arg(cx.imports_param), arg(cx.limit_param)
        if a_mod is None or a_imp is None:
            continue
        if a_lim is None:
            # R4 speaks about a limit that is not handed on; here only: does the scan result depend on it instead?
            named = {p_ for p_ in f.param_names if "limit" in p_}
            if named:
                d0 = Dependence(v.node, named)
                depends = depends or bool((_loads(a_mod) | _loads(a_imp)) & d0.final - named)
            continue
        lim_back = backward(v.node, _loads(a_lim))
        roots = set()
        for p_ in f.param_names:
            if p_ in lim_back:
                t = T.param_type(f, p_)
                if any(m[0] == "b" and m[1] == "int" for m in members(t)) or "limit" in p_:
                    roots.add(p_)
        if not roots:
            res.observe(f"C09.R5: {f.qualname}: the parameter carrying the user's limit was not identified")
            continue
        data = backward(v.node, _loads(a_mod) | _loads(a_imp))
        dep = Dependence(v.node, roots)
        st_call = call
        while not isinstance(st_call, ast.stmt):
            st_call = parent(st_call)
        at_call = dep.at_stmt.get(id(st_call), dep.final)
        tainted_args = (_loads(a_mod) | _loads(a_imp)) & at_call - roots
        key = f"{base}::modules and imports handed to the graph are computed without the limit"
        relevant = [(st, tg & data) for st, tg in dep.meetings if (tg & data) - roots]
        if not tainted_args and not relevant:
            res.add("C09.R5", key, True, f"neither `{norm(a_mod, 30)}` nor `{norm(a_imp, 30)}` depends (by data or control) on `{', '.join(sorted(roots))}`", where(f, call0), kind="flow")
            continue
        depends = True
        # units to tabulate: the statement in which the limit meets scan data, with the limit-conditionals around it
        units: list[tuple[ast.stmt, dict[str, str]]] = []
        for st, tg in relevant:
            judged = {x: _kind(cx, v, st, x) for x in tg}
            judged = {x: k for x, k in judged.items() if k != "other"}
            if not judged:
                continue
            unit = st
            while isinstance(parent(unit), (ast.If, ast.For, ast.While)) and parent(unit) is not v.node:
                p = parent(unit)
                head = p.test if isinstance(p, (ast.If, ast.While)) else p.iter
                if isinstance(p, ast.If) and not (_loads(head) & dep.at_stmt.get(id(p), set())):
                    break
                unit = p
            hit = next((u for u in units if u[0] is unit), None)
            if hit is None:
                units.append((unit, judged))
            else:
                hit[1].update(judged)
        if not units or entry is None:
            if tainted_args:
                res.undecide("C09.R5", key, f"`{', '.join(sorted(tainted_args))}` handed to the graph depend(s) on the level limit in a way that is not understood", where(f, call0))
            else:
                res.add("C09.R5", key, True, "the limit only reaches helper values that are not handed to the graph", where(f, call0), kind="flow")
            continue
        for unit, judged in units:
            verdict, detail = _tabulate_unit(cx, entry, f, v, unit, judged)
            src = getattr(unit, "_src", None)
            shown = src[0] if src is not None else f
            skey = repo.key(shown, unit) + " [limit-dependent scan result]"
            if verdict is None:
                res.undecide("C09.R5", skey, detail, where(shown, unit))
            else:
                res.add("C09.R5", skey, verdict, detail, where(shown, unit), kind="decision-table")

    return depends

def _tabulate_unit(cx, entry: FuncInfo, f: FuncInfo, v: FuncInfo, unit: ast.stmt, judged: dict[str, str]) -> tuple[bool | None, str]:
    """Tabulates a statement that makes the module / import list depend on the limit: what it withholds must be invisible in the quotient."""
    from .c09 import Capture, trunc

    root = "/srv/work/proj"
    checked = 0
    error = ""
    for lim in (1, 2, 3):
        for depth, sub in enumerate(["", "/core"]):
            for externals in (True, False):
                cap = Capture(cx)
                ev = Evaluator(cx.repo, tolerant=True, intercept={cx.g.fq: cap})
                if v is not f:
                    ev.substitute[f.fq] = v
                record: list[tuple[dict, dict]] = []

                def hook(fr: Frame, record=record) -> None:
                    if record:
                        return
                    snap = dict(fr.env.vars)
                    pairs = [_mock_import(a, b) for a, b in IMPORT_PAIRS]
                    mods = sorted({x for a, b in IMPORT_PAIRS for x in (a, b, *_parents(a), *_parents(b))})
                    inputs: dict[str, list] = {}
                    for var in _loads(unit) | set(judged):
                        k = judged.get(var)
                        if k is None and snap.get(var) is POISON:
                            k = _kind(cx, v, unit, var)  # another scan result read by the statement: model it by its static type
                        if k == "imports":
                            inputs[var] = list(pairs)
                        elif k == "modules":
                            inputs[var] = list(mods)
                    env2 = dict(snap)
                    for var, val in inputs.items():
                        env2[var] = list(val)
                    ev2 = Evaluator(cx.repo, tolerant=True)
                    fr2 = Frame(v, v.module, Env(env2))
                    ev2.stack.append(fr2)
                    try:
                        ev2.stmt(unit, fr2)
                    except (_Return, _Break, _Continue):
                        record.append((inputs, {"_error": "the statement leaves the function"}))
                        return
                    except Raised as r:
                        record.append((inputs, {"_error": f"raises {r.name}"}))
                        return
                    except Unknown as u:
                        record.append((inputs, {"_error": str(u)}))
                        return
                    finally:
                        ev2.stack.pop()
                    if fr2.uncertain:
                        record.append((inputs, {"_error": "conditions of the statement cannot be evaluated" + (f" ({'; '.join(ev2.notes[-2:])})" if ev2.notes else "")}))
                        return
                    record.append((inputs, {x: env2.get(x) for x in judged}))

                ev.stmt_hooks[id(unit)] = hook
                try:
                    ev.call_function(entry, [root, root + sub], {"level_limit": lim, "exclude_external_libraries": externals})
                except (Unknown, Raised):
                    pass
                if not record:
                    continue
                inputs, outputs = record[0]
                if "_error" in outputs:
                    error = error or outputs["_error"]
                    continue
                st, eff = cap.limit()
                eff = eff if st == "ok" and isinstance(eff, int) and not isinstance(eff, bool) else lim + depth
                for var, k in judged.items():
                    out = outputs.get(var)
                    if out is POISON or out is None:
                        return None, f"`{header(unit)}`: the value of `{var}` after the statement cannot be determined"
                    try:
                        out = list(out)
                    except TypeError:
                        return None, f"`{header(unit)}`: `{var}` is not a collection after the statement"
                    src = inputs.get(var, [])
                    if k == "imports":
                        if any(not any(o is i for i in src) for o in out):
                            return None, f"`{header(unit)}` replaces imports by other objects depending on the limit"
                        for i in src:
                            if not any(o is i for o in out):
                                a, b = i.attrs["_c09_pair"]
                                if trunc(a, eff) != trunc(b, eff):
                                    return False, (
                                        f"`{header(unit)}` withholds the import {a} -> {b} from the graph when level_limit={lim} (graph limit {eff}), although its ends flatten to different "
                                        f"nodes ({trunc(a, eff)} and {trunc(b, eff)}): the edge {trunc(a, eff)} -> {trunc(b, eff)} of the quotient graph is lost"
                                    )
                    else:
                        if any(not isinstance(o, str) for o in out):
                            return None, f"`{header(unit)}`: `{var}` does not hold module names after the statement"
                        have = {trunc(o, eff) for o in out}
                        want = {trunc(m, eff) for m in src}
                        if have != want:
                            miss = sorted(want - have) or sorted(have - want)
                            return False, f"`{header(unit)}` changes the module list depending on the limit: with level_limit={lim} (graph limit {eff}) the flattened modules differ from those of the full scan (e.g. {miss[:2]})"
                checked += 1
    if not checked:
        return None, f"`{header(unit)}` makes the scan result depend on the level limit; it cannot be tabulated ({error or 'never reached in the tabulated runs'})"
    return True, f"tabulated on {checked} runs x {len(IMPORT_PAIRS)} model imports: what the statement withholds because of the limit flattens to a self-edge / to modules that stay present"
