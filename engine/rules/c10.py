"""C10 - external-library options affect only external modules, never internal ones.

  C10.R1  external exclusion predicates are evaluated only on values established to be non-internal
  C10.R2  the internal test compares whole dotted components (F-NAME sites of the scan pipeline)
  C10.R3  only externals are appended as modules: the guard of the extension is the internal test
  C10.R4  with externals excluded the module list is returned unchanged and imports are filtered by the internal test; an excluded
          ancestor excludes its descendants
"""

from __future__ import annotations

import ast

from core.flow import Flow, Spec
from core.guards import atom, conds_formula, f_not, f_or, implies, to_formula
from core.loader import AnalysisError, FuncInfo, Repo, ancestors, calls_in, header, norm, own_nodes, parent
from core.report import Result

from . import names
from .c14 import add_sites
from .common import cfg_of, conds, copy_prop, dotted, guard_formula, is_attr_call, reachable_funcs, stmt_of, types_of, where

GG = "pytestarch.eval_structure_generation.graph_generation.graph_generator"
IMF = "pytestarch.eval_structure_generation.file_import.import_filter"
IMC = "pytestarch.eval_structure_generation.file_import.importee_module_calculator"
SCAN_PKG = "pytestarch.eval_structure_generation"


def internal_test_functions(repo: Repo) -> set[str]:
    """Functions that decide 'is internal' by a boundary-safe comparison with the internal prefix (and their wrappers)."""
    base = repo.find_func(IMF, "is_internal_module")
    if base is not None:
        out = {base.fq}
    else:
        # by role: functions of the scan pipeline named *internal* that test a module name against a prefix
        out = {s.fi.fq for s in names.scan(repo) if s.name_typed and s.op == "startswith" and s.fi.module.name.startswith(SCAN_PKG) and "internal" in s.fi.name and any(isinstance(r, ast.Return) for r in own_nodes(s.fi.node))}
        if not out:
            raise AnalysisError("the internal-module test of the scan pipeline was not found")
    changed = True
    T = types_of(repo)
    while changed:
        changed = False
        for f in repo.all_functions():
            if f.fq in out or not f.module.name.startswith(SCAN_PKG):
                continue
            rets = [s for s in own_nodes(f.node) if isinstance(s, ast.Return) and s.value is not None]
            if not rets:
                continue
            # a wrapper returns the test's result on some path and a constant False/True otherwise
            hit = False
            for r in rets:
                if isinstance(r.value, ast.Call):
                    cs, _ = T.callees(f, r.value, byname_fallback=False)
                    if any(c.fq in out for c in cs):
                        hit = True
                elif not isinstance(r.value, ast.Constant):
                    hit = False
                    break
            if hit:
                out.add(f.fq)
                changed = True
    return out


def run(repo: Repo) -> Result:
    res = Result("C10")
    res.explanation = (
        "Decides structurally that external options cannot touch internal modules: (R1) every evaluation of an external exclusion predicate "
        "(a FileFilter built from the external patterns) sits under a guard that establishes the value is not internal - not a scanned module, "
        "resp. not accepted by the internal test; (R2) the internal test compares whole dotted components; (R3) the module list is extended "
        "only under the negated internal test; (R4) with externals excluded the module list is returned unchanged before anything else, "
        "imports are filtered by the internal test, and an excluded ancestor excludes its descendants."
    )
    res.not_decided = "equality of the internal sub-graphs across all configurations (a relation between scans)."
    res.trusted_base = ["engine flow analysis (provenance of the external patterns), guard implication"]
    T = types_of(repo)
    internal_fns = internal_test_functions(repo)
    gen = repo.func(GG, "generate_graph")
    ext_param = next((p for p in gen.param_names if "external_exclusions" in p), None)
    if ext_param is None:
        raise AnalysisError("generate_graph: parameter with the external exclusion patterns not found")

    def transfer(f: FuncInfo, call: ast.Call, names_, args, recv, kwargs):
        return None

    flow = Flow(repo, T, Spec(param_seeds={(gen.fq, ext_param): {"EXT"}}, scope=lambda f: f.module.name.startswith(SCAN_PKG)))

    def is_internal_call(f: FuncInfo, e: ast.AST) -> bool:
        if isinstance(e, ast.Call):
            cs, _ = T.callees(f, e, byname_fallback=False)
            return any(c.fq in internal_fns for c in cs)
        return False

    # ---- R1
    n = 0
    for f in repo.all_functions():
        if not f.module.name.startswith(SCAN_PKG):
            continue
        for c in calls_in(f.node):
            if not (isinstance(c.func, ast.Attribute) and c.func.attr == "is_excluded" and c.args):
                continue
            if "EXT" not in flow.tags(c.func.value):
                continue
            n += 1
            arg = c.args[0]
            cs_ = conds(f, c)
            ok = False
            why = ""
            argn = norm(arg)
            for e, pol in cs_:
                for sub in ast.walk(e):
                    # negated internal test on the value (or on the import it belongs to)
                    if is_internal_call(f, sub):
                        fml = to_formula(e, copy_prop(f, internal_fns))
                        a = atom(f"bool({norm(sub)})")
                        if implies(conds_formula(cs_, copy_prop(f, internal_fns)), f_not(a)):
                            ok, why = True, f"guarded by `not {norm(sub, 50)}`"
                    # membership in the set of scanned modules (taken before externals were added)
                    if isinstance(sub, ast.Compare) and len(sub.ops) == 1 and isinstance(sub.ops[0], (ast.In, ast.NotIn)) and norm(sub.left) == argn:
                        setv = dotted(sub.comparators[0])
                        a = atom(f"{argn} in {setv}")
                        if implies(conds_formula(cs_, copy_prop(f, internal_fns)), f_not(a)) and _is_scanned_set(f, setv):
                            ok, why = True, f"guarded by `{argn} not in {setv}` ({setv} = the scanned modules)"
            # the ancestors of an import already established external count as external
            if not ok:
                for lp in [a for a in ancestors(c) if isinstance(a, (ast.GeneratorExp, ast.ListComp, ast.For))]:
                    its = [g.iter for g in lp.generators] if hasattr(lp, "generators") else [lp.iter]
                    if any(isinstance(it, ast.Call) and isinstance(it.func, ast.Attribute) and it.func.attr == "importee_parent_modules" for it in its):
                        for e, pol in cs_:
                            for sub in ast.walk(e):
                                if is_internal_call(f, sub) and implies(conds_formula(cs_, copy_prop(f, internal_fns)), f_not(atom(f"bool({norm(sub)})"))):
                                    ok, why = True, "ancestors of an import established to be external"
            res.add(
                "C10.R1",
                repo.key(f, stmt_of(c)) + f" [{norm(c, 60)}]",
                ok,
                f"external pattern applied to a non-internal value only ({why})" if ok else f"`{norm(c, 70)}` applies the external exclusion patterns to `{argn}` without establishing that it is not an internal module: a pattern that textually matches an internal module removes it (and its imports)",
                where(f, c),
                kind="dominance",
            )
    res.floor("C10.R1", 3, n)
    # ---- R2
    sites = [s for s in names.scan(repo) if s.fi.module.name.startswith(SCAN_PKG)]
    k = add_sites(repo, res, "C10.R2", sites)
    res.floor("C10.R2", 1, k)
    # every internal decision in the scan pipeline goes through the internal test (no second notion of 'internal')
    flt = repo.cls(IMF, "ExternalImportFilter")
    m = flt.methods.get("_is_internal_import")
    ok = m is not None and m.fq in internal_fns
    res.add("C10.R2", f"{flt.module.relpath}::ExternalImportFilter._is_internal_import::uses the internal test", ok, "imports are classified by the boundary-safe internal test" if ok else "ExternalImportFilter no longer classifies imports with the boundary-safe internal test", kind="structural")
    gi = repo.find_func(GG, "_get_all_internal_modules")
    if gi is not None:
        ok = any(is_internal_call(gi, c) for c in calls_in(gi.node))
        res.add("C10.R2", f"{gi.relpath}::_get_all_internal_modules::uses the internal test", ok, "the internal-module set is selected by the internal test" if ok else "the internal-module set is not selected by the boundary-safe internal test", where(gi, gi.node), kind="structural")
    # ---- R3
    calc = repo.cls(IMC, "ImporteeModuleCalculator")
    cm = calc.methods.get("calculate_importee_modules")
    if cm is None:
        raise AnalysisError("ImporteeModuleCalculator.calculate_importee_modules not found")
    ups = [c for c in calls_in(cm.node) if isinstance(c.func, ast.Attribute) and c.func.attr in ("update", "add", "extend", "append") and any(isinstance(a, (ast.For,)) for a in ancestors(c))]
    if not ups:
        raise AnalysisError(f"{cm.fq}: extension of the module set not found")
    for c in ups:
        cs_ = conds(cm, c)
        ok = False
        for e, pol in cs_:
            for sub in ast.walk(e):
                if is_internal_call(cm, sub) and implies(conds_formula(cs_, copy_prop(cm, internal_fns)), f_not(atom(f"bool({norm(sub)})"))):
                    ok = True
        res.add(
            "C10.R3",
            repo.key(cm, stmt_of(c)),
            ok,
            "an importee and its ancestors become modules only if the internal test rejects the importee" if ok else f"`{norm(c, 70)}` adds imported names as modules under `{' and '.join(('' if pol else 'not ') + norm(e, 50) for e, pol in cs_) or 'no guard'}`, not under the negated internal test: names below the internal prefix that are not scanned modules (imported functions, excluded files) become modules, so internal content depends on the external options",
            where(cm, c),
            kind="dominance",
        )
    # the prefix must reach the calculator
    ap = repo.func(GG, "_append_external_modules_to_module_list")
    ctor = [c for c in calls_in(ap.node) if dotted(c.func) == "ImporteeModuleCalculator"]
    ok = len(ctor) == 1 and any("prefix" in norm(a) for a in [*ctor[0].args, *[k.value for k in ctor[0].keywords]])
    res.add("C10.R3", f"{ap.relpath}::{ap.qualname}::prefix handed to the calculator", ok, "the calculator receives the internal module prefix" if ok else "the calculator is built without the internal module prefix: nothing counts as internal", where(ap, ap.node), kind="flow")
    callsite = [c for c in calls_in(gen.node) if dotted(c.func) == ap.name]
    ok = len(callsite) == 1 and any("prefix" in norm(a) for a in [*callsite[0].args, *[k.value for k in callsite[0].keywords]])
    res.add("C10.R3", f"{gen.relpath}::{gen.qualname}::prefix handed on", ok, "generate_graph passes the internal prefix on" if ok else "generate_graph does not pass the internal prefix to the module-list extension", where(gen, gen.node), kind="flow")
    isint = calc.methods.get("_is_internal")
    if isint is not None:
        consts = [s for s in own_nodes(isint.node) if isinstance(s, ast.Return) and isinstance(s.value, ast.Constant)]
        ok = all(implies(guard_formula(isint, s), atom("self._internal_module_prefix is None")) for s in consts)
        res.add("C10.R3", f"{isint.relpath}::{isint.qualname}::constant answers", ok, "answers without the test only when no prefix is configured" if ok else "the calculator's internal test answers with a constant although a prefix is configured", where(isint, isint.node), kind="dominance")
    # ---- R4
    first = ap.body[0] if not (isinstance(ap.body[0], ast.Expr) and isinstance(ap.body[0].value, ast.Constant)) else ap.body[1]
    flag = ap.param_names[1]
    ok = isinstance(first, ast.If) and dotted(first.test) == flag and len(first.body) == 1 and isinstance(first.body[0], ast.Return) and dotted(first.body[0].value) == ap.param_names[0]
    res.add("C10.R4", f"{ap.relpath}::{ap.qualname}::excluded externals: unchanged list", ok, "with externals excluded the scanned module list is returned unchanged, first thing" if ok else "with externals excluded the module list is not returned unchanged before anything else happens", where(ap, ap.node), kind="dominance")
    fl = flt.methods.get("filter")
    if fl is None:
        raise AnalysisError("ExternalImportFilter.filter not found")
    rets = [s for s in own_nodes(fl.node) if isinstance(s, ast.Return)]
    for r in rets:
        gf = guard_formula(fl, r)
        excl = atom("bool(self._exclude_external_libraries)")
        has = atom("bool(self._external_exclusion_filter.has_filter())")
        if implies(gf, excl) and not implies(gf, has):
            comp = r.value if isinstance(r.value, ast.ListComp) else None
            ok = comp is not None and len(comp.generators) == 1 and len(comp.generators[0].ifs) == 1 and is_internal_call(fl, comp.generators[0].ifs[0]) and dotted(comp.elt) == dotted(comp.generators[0].target)
            res.add("C10.R4", repo.key(fl, r) + " [exclude mode]", ok, "with externals excluded exactly the imports accepted by the internal test remain" if ok else "with externals excluded the imports are not filtered by the internal test alone", where(fl, r), kind="structural")
    keep = flt.methods.get("_is_internal_or_retained_external_import")
    if keep is None:
        raise AnalysisError("ExternalImportFilter._is_internal_or_retained_external_import not found")
    anc = [c for c in calls_in(keep.node) if dotted(c.func) == "any" and c.args and isinstance(c.args[0], ast.GeneratorExp) and any(isinstance(g.iter, ast.Call) and isinstance(g.iter.func, ast.Attribute) and g.iter.func.attr == "importee_parent_modules" for g in c.args[0].generators)]
    last = [s for s in own_nodes(keep.node) if isinstance(s, ast.Return) and not isinstance(s.value, ast.Constant)]
    ok = len(anc) == 1 and len(last) == 1 and isinstance(last[0].value, ast.UnaryOp) and isinstance(last[0].value.operand, ast.BoolOp) and isinstance(last[0].value.operand.op, ast.Or) and len(last[0].value.operand.values) == 2
    res.add("C10.R4", f"{keep.relpath}::{keep.qualname}::ancestor exclusion", ok, "an external is dropped when it or any of its ancestors matches a pattern" if ok else "an external whose ancestor matches a pattern is not dropped together with it (or the retained condition is not `not (excluded or any ancestor excluded)`)", where(keep, keep.node), kind="structural")
    first_int = [s for s in keep.body if isinstance(s, ast.If)]
    ok = bool(first_int) and is_internal_call(keep, first_int[0].test) and isinstance(first_int[0].body[0], ast.Return) and isinstance(first_int[0].body[0].value, ast.Constant) and first_int[0].body[0].value.value is True
    res.add("C10.R4", f"{keep.relpath}::{keep.qualname}::internal imports always retained", ok, "internal imports are retained before any pattern is consulted" if ok else "internal imports are not unconditionally retained before the external patterns are consulted", where(keep, keep.node), kind="dominance")
    # ---- R5: the scan pipeline keeps no state between scans
    from .c15 import shared_state_writes

    ws = [w for w in shared_state_writes(repo) if w.fi.module.name.startswith(SCAN_PKG)]
    for w in ws:
        res.add("C10.R5", repo.key(w.fi, stmt_of(w.node)), False, f"`{header(stmt_of(w.node))}` keeps {w.root_kind} state `{w.root}.{w.field}` in the scan pipeline: verdicts about externals computed for one option set are served to the next scan", where(w.fi, w.node), kind="effect")
    res.add("C10.R5", "src/pytestarch/eval_structure_generation::no shared state", not ws, "no function of the scan pipeline writes class-level or module-level state", kind="effect")
    return res


def _is_scanned_set(f: FuncInfo, var: str) -> bool:
    """`var = set(<module list parameter>)` assigned before the module list is extended."""
    params = f.param_names
    for i, s in enumerate(f.body):
        if isinstance(s, ast.Assign) and dotted(s.targets[0]) == var and isinstance(s.value, ast.Call) and dotted(s.value.func) in ("set", "frozenset") and s.value.args and dotted(s.value.args[0]) in params:
            src = dotted(s.value.args[0])
            # no re-assignment of the parameter before this statement
            for t in f.body[:i]:
                if any(isinstance(x, ast.Name) and x.id == src and isinstance(x.ctx, ast.Store) for x in ast.walk(t)):
                    return False
            return True
    return False
