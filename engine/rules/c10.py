"""C10 - external-library options affect only external modules, never internal ones.

The scan entry point (`generate_graph`, found as the function of the scan package that the public `get_evaluable_architecture`
hands the options to) is interpreted symbolically (rules/c10_model.py).  The result is a description of the two collections the
graph is built from - the module list and the import list - as parts with guards over the atoms FLAG (externals excluded), HAS
(external patterns present), EXCL[x] / ∃EXCL[anc:x] (a pattern matches the name of x / one of its ancestors), INT[x] (the internal
test accepts the name of x) and INSCAN[x] (x is a scanned module).  The rules are propositional statements about these
descriptions, decided by exhaustive evaluation, so they do not depend on helper names, on loops versus comprehensions, on early
returns, on where a guard sits, or on which object carries a decision:

  C10.R1  no decision that depends on the external options changes what happens to an internal element: the retention condition of
          an import whose importee is internal, and of a scanned internal module, is the same for every value of FLAG / HAS / EXCL
  C10.R2  the internal test compares whole dotted components (F-NAME sites of everything reachable from the scan entry point, with
          the positive fixture of rules/names.py instead of a floor) and complete prefixes (no comparison of component lists
          truncated by zip - embedded positive fixture)
  C10.R3  exactly the externals are appended as modules: names derived from an import are added only when the internal test
          rejects its importee, and the importee and its ancestors of every retained external import are added
  C10.R4  with externals excluded the scanned module list is handed on unchanged, nothing is appended, and only imports accepted by
          the internal test remain; with externals included an import is dropped exactly when its importee or one of its
          ancestors matches a pattern
  C10.R5  the scan pipeline keeps no class-level or module-level state between scans

"Internal" is `is_internal_module` (a name other modules import) wherever it is called; its body - interpreted for a generic name -
defines INT in terms of the other tests on the same name met in the pipeline (a class answering the same question, a duplicate of
the test: pure predicates are named after what they test, not after the function).  Where the pipeline never calls it, INT is what
alone decides, with externals excluded, which imports remain.

Three outcomes: discharged; VIOLATED - only when a counter-example exists whatever the values of the facts the model cannot judge,
and only on formulas free of modelling gaps (values the interpreter had to leave open carry the mark GAP); undecided otherwise
(incomplete description of a collection, tests in a spelling the model does not know), with the construct and the reason named.
"""

from __future__ import annotations

import ast

from core.flow import Flow, Spec
from core.guards import FALSE, TRUE, Formula, atom, atoms_of, evaluate, f_not
from core.loader import AnalysisError, FuncInfo, Repo, calls_in, header, norm, own_nodes
from core.report import Result

from . import c10_model as M
from . import names
from .c10_model import conj, disj, rename_sym, show
from .common import reachable_funcs, stmt_of, types_of, where

GG = "pytestarch.eval_structure_generation.graph_generation.graph_generator"
API = "pytestarch.pytestarch"
SCAN_PKG = M.SCAN_PKG
E = "e"  # the generic element in the formulas of the rules


# --------------------------------------------------------------------------- anchors by role


def find_entry(repo: Repo) -> tuple[FuncInfo, set[str], set[str]]:
    """The scan entry point and its parameters that carry the `exclude_external_libraries` option / the external patterns.

    Anchors: the public `get_evaluable_architecture(.., exclude_external_libraries, .., external_exclusions,
    regex_external_exclusions)`; the entry is the function of the scan package it hands these options to.
    """
    T = types_of(repo)
    api = repo.find_func(API, "get_evaluable_architecture")
    entry = repo.find_func(GG, "generate_graph")
    seeds: dict[tuple[str, str], set[str]] = {}
    if api is not None:
        for p in api.param_names:
            if p == "exclude_external_libraries":
                seeds[(api.fq, p)] = {"FLAG"}
            elif p in ("external_exclusions", "regex_external_exclusions"):
                seeds[(api.fq, p)] = {"EXT"}
    flow = None

    def get_flow():
        nonlocal flow
        if flow is None and seeds:
            flow = Flow(repo, T, Spec(param_seeds=seeds, scope=lambda f: f.module.name == API or f.module.name.startswith(SCAN_PKG)))
        return flow

    if entry is None and get_flow() is not None:
        # by role: functions of the scan package called from the public module that receive the option
        cands = []
        for f in repo.all_functions():
            if f.module.name.startswith(SCAN_PKG) and any("FLAG" in flow.param_tags.get((f.fq, p), ()) for p in f.param_names):
                callers = [g for g in repo.all_functions() if g.module.name == API and any(f in T.callees(g, c, byname_fallback=False)[0] for c in calls_in(g.node))]
                if callers:
                    cands.append(f)
        if len(cands) == 1:
            entry = cands[0]
    if entry is None:
        raise AnalysisError("the scan entry point (generate_graph) was not found")
    # the entry's own parameter names repeat the public option names; the flow from the public API is the fallback (it is
    # context-insensitive: a helper shared by the internal and the external patterns would taint both)
    flag = {p for p in entry.param_names if p == "exclude_external_libraries"}
    ext = {p for p in entry.param_names if p in ("external_exclusions", "regex_external_exclusions")}
    if not flag and get_flow() is not None:
        flag = {p for p in entry.param_names if "FLAG" in flow.param_tags.get((entry.fq, p), ())}
    if not ext and get_flow() is not None:
        ext = {p for p in entry.param_names if "EXT" in flow.param_tags.get((entry.fq, p), ())}
        named = {p for p in ext if "external" in p}
        ext = named or ext
    if not flag or not ext:
        raise AnalysisError(f"{entry.qualname}: the parameters carrying the external options were not found")
    return entry, flag, ext - flag


def named_internal_tests(repo: Repo) -> set[str]:
    """`is_internal_module` is imported by other modules of the scan package: a public name of the pipeline."""
    return {f.fq for f in repo.all_functions() if f.cls is None and f.outer is None and f.name == "is_internal_module"}


def build_model(repo: Repo) -> tuple[M.Interp, set[str], str]:
    """Interprets the scan entry point and settles what "internal" means in the description.

    `is_internal_module` (a name other modules import) is an atom INT[x] wherever it is called; its body, interpreted for a generic
    name, defines INT in terms of whatever other tests on the same name occur in the pipeline (a class that answers the same
    question, a helper it delegates to), so that both spellings are recognised as the same test.  Where the pipeline never calls
    it, INT is defined by role: what alone decides, with externals excluded, which imports remain.
    """
    entry, flag, ext = find_entry(repo)
    internal = named_internal_tests(repo)
    it = M.Interp(repo, entry, flag, ext, internal)
    interpret(it)
    how = "by name (is_internal_module)"
    definition = None
    for fq in sorted(internal):
        d = it.formula_of_predicate(repo.funcs[fq])
        if d is not None and d not in (TRUE, FALSE) and usable_definition(it, d):
            definition = d
    if not it.int_calls or not internal:
        # by role: with externals excluded (and no patterns) exactly the imports accepted by a test on the importee remain
        for s in it.sinks:
            if isinstance(s.imports, M.Coll):
                k = M.retention(s.imports, "x0", lambda b: True)
                psi = k
                for a_ in sorted(atoms_of(k)):
                    if a_ == "FLAG":
                        psi = M.subst_atom(psi, a_, TRUE)
                    elif a_ == "HAS" or "EXCL[" in a_ or (it.taint_of_atom(a_) & {"EXT"} and a_.startswith("ISNONE[")):
                        psi = M.subst_atom(psi, a_, FALSE)
                for a_ in sorted(atoms_of(psi)):
                    if M.valid(psi, atom(a_)) and M.valid(atom(a_), psi):
                        psi = atom(a_)  # e.g. (P and INSCAN) or P
                        break
                if psi not in (TRUE, FALSE) and usable_definition(it, psi) and (definition is None or not (atoms_of(definition) & atoms_of(k))):
                    definition = psi
                    fns = sorted({it.predicates[a_[: a_.index("[")]].qualname for a_ in atoms_of(psi) if a_.startswith("P<") and a_[: a_.index("[")] in it.predicates})
                    how = f"by role (`{show(psi)}` alone decides which imports remain when externals are excluded" + (f"; predicates: {', '.join(fns)})" if fns else ")")
                    internal = internal | {it.predicates[a_[: a_.index("[")]].fq for a_ in atoms_of(psi) if a_.startswith("P<") and a_[: a_.index("[")] in it.predicates}
    it.int_def = definition
    return it, internal, how


def usable_definition(it: M.Interp, d: Formula) -> bool:
    """Only tests on the generic name itself, none of them depending on the external options."""
    return all(M.mentions(a, "x0") and not it.taint_of_atom(a) and not a.startswith(("INT[", "INSCAN[", "EXCL[")) for a in atoms_of(d))


def interpret(it: M.Interp) -> None:
    try:
        it.run()
    except AnalysisError:
        raise
    except RecursionError as e:
        raise AnalysisError(f"C10 model: interpretation of {it.entry.qualname} does not terminate ({' -> '.join(x.rsplit('::', 1)[-1] for x in it.stack[-6:])})") from e
    except Exception as e:  # noqa: BLE001 - a construct the interpreter does not handle is not a verdict
        raise AnalysisError(f"C10 model: interpretation of {it.entry.qualname} failed in {it.stack[-1].rsplit('::', 1)[-1] if it.stack else '?'}: {type(e).__name__}: {e}") from e


# --------------------------------------------------------------------------- formula helpers


CANON = ("FLAG", "HAS", "INT[", "EXCL[", "∃EXCL[", "INSCAN[")
NAME_RELATIONAL = ("STR[", "EQ[", "P<", "CMP[")


def shape_only(a: str, sym: str) -> bool:
    """The atom looks at the name of `sym` only through the number of its components / characters (`e.count('.')`,
    `len(e.split('.'))`, `len(e)`): such a test cannot be the internal test written out a second time - that one compares text."""
    import re

    s_ = re.escape(sym)
    rest = re.sub(rf"len\({s_}\.r?split\([^()]*\)\)|{s_}\.count\([^()]*\)|len\({s_}\)", "#", a)
    return rest != a and not M.mentions(rest, sym)


def is_canonical(a: str) -> bool:
    return a in ("FLAG", "HAS") or a.startswith(CANON[2:])


def e_atoms(it: M.Interp, f: Formula) -> set[str]:
    return {a for a in atoms_of(f) if it.taint_of_atom(a) & {"FLAG", "EXT"}}


def constraints(it: M.Interp, atoms: set[str]) -> Formula:
    """What is known about the atoms: patterns are rejected together with FLAG by the public entry point (C13.R2); a pattern can
    only match when there is one; a matching generic ancestor is a matching ancestor; no patterns when the option is None; what the
    internal test means when it is spelled out somewhere (its definition in terms of the other atoms about the same name)."""
    cs = [f_not(conj([atom("FLAG"), atom("HAS")]))]
    for p in sorted(it.ext_params):
        if f"ISNONE[{p}]" in atoms:
            cs.append(disj([f_not(atom(f"ISNONE[{p}]")), f_not(atom("HAS"))]))
    if it.int_def is not None:
        for k in (E, f"anc:{E}"):
            d = rename_sym(it.int_def, "x0", k)
            if f"INT[{k}]" in atoms or atoms_of(d) & atoms:
                i = atom(f"INT[{k}]")
                cs.append(disj([f_not(i), d]))
                cs.append(disj([i, f_not(d)]))
    for a in sorted(atoms):
        if "EXCL[" in a or "EXCL(" in a:
            cs.append(disj([f_not(atom(a)), atom("HAS")]))
        if a.startswith("EXCL[anc:"):
            cs.append(disj([f_not(atom(a)), atom("∃" + a)]))
        if a.startswith("INSCAN["):
            # every scanned module lies below module_path: the parser names modules relative to the root (C04)
            cs.append(disj([f_not(atom(a)), atom("INT[" + a[len("INSCAN["):])]))
    return conj(cs)


def depends_on_options(it: M.Interp, k: Formula, assume: dict[str, bool]) -> "dict | None":
    """A witness (assignment of the other atoms) under which `k` changes its value when only option-dependent atoms change."""
    names_ = atoms_of(k) | set(assume)
    ea = sorted(a for a in names_ if it.taint_of_atom(a) & {"FLAG", "EXT"} and a not in assume)
    rest = sorted(names_ - set(ea) - set(assume))
    if not ea:
        return None
    cons = constraints(it, names_ | {"FLAG", "HAS"})
    names_ = names_ | atoms_of(cons)
    ea = sorted(a for a in names_ if it.taint_of_atom(a) & {"FLAG", "EXT"} and a not in assume)
    rest = sorted(names_ - set(ea) - set(assume))
    all_e = sorted(set(ea) | {a for a in atoms_of(cons) if a not in rest and a not in assume})
    for env_r in M.assignments(rest):
        seen: dict[bool, dict] = {}
        for env_e in M.assignments(all_e):
            env = {**env_r, **env_e, **assume}
            if not evaluate(cons, env):
                continue
            v = evaluate(k, env)
            seen.setdefault(v, env)
            if len(seen) == 2:
                return {"kept": seen[True], "dropped": seen[False]}
    return None


def tri(it: M.Interp, premise: Formula, conclusion: Formula) -> tuple[str, "dict | None"]:
    """'ok' | 'violated' | 'undecided' for premise -> conclusion.

    Violated: some assignment of the canonical atoms and of the element-dependent facts refutes it whatever the values of the free
    atoms about the configuration (and of unrecognised tests on the name, which might be a second spelling of the internal test)."""
    names_ = atoms_of(premise) | atoms_of(conclusion)
    cons = constraints(it, names_ | {"FLAG", "HAS"})
    names_ |= atoms_of(cons)
    if M.valid(premise, conclusion, cons):
        return "ok", None
    # a test on the element's name in a spelling the model does not know may be the internal test written out a second time
    int_atom = atom(f"INT[{E}]")
    for a in sorted(names_):
        if a.startswith(NAME_RELATIONAL) and M.mentions(a, E) and not shape_only(a, E) and M.valid(M.subst_atom(premise, a, int_atom), M.subst_atom(conclusion, a, int_atom), cons):
            return "undecided", {a: True}
    # (facts about a whole collection - `∃EXCL[•1]`: some name of it matches - are related to the facts about one element in
    # ways the model does not know: soft)
    soft = sorted(a for a in names_ if ("•" in a) or (not is_canonical(a) and not about_entry_options(it, a) and (a.startswith(NAME_RELATIONAL) or not (M.mentions(a, E) or any(M.mentions(a, f"x{i}") for i in range(6))))))
    hard = sorted(names_ - set(soft))
    for env_h in M.assignments(hard):
        # a counter-example must not depend on facts the model cannot judge: whatever their values, the premise holds and the
        # conclusion fails
        consistent = False
        robust = True
        witness = None
        for env_s in M.assignments(soft):
            env = {**env_h, **env_s}
            if not evaluate(cons, env):
                continue
            consistent = True
            if not evaluate(premise, env) or evaluate(conclusion, env):
                robust = False
                break
            witness = env
        if consistent and robust:
            # a free atom that depends on the external options may stand for a pattern test in a spelling the model does not
            # know: then nothing can be said about EXCL / HAS
            opaque = sorted(a for a in names_ if not is_canonical(a) and it.taint_of_atom(a) & {"FLAG", "EXT"} and not a.startswith("ISNONE["))
            opaque = sorted(set(opaque) | set(not_understood(it, premise, conclusion)))
            if opaque:
                return "undecided", {a: True for a in opaque}
            return "violated", witness
    return "undecided", None


def unrelated_atoms(it: M.Interp, names_: set[str]) -> list[str]:
    """Facts that have nothing to do with the external options: not canonical, not computed from FLAG / the patterns, understood
    by the model (a level limit, a test on the number of components of a name ...).  They have the same value in every
    configuration of the external options."""
    return sorted(a for a in names_ if not is_canonical(a) and not (it.taint_of_atom(a) & {"FLAG", "EXT"}) and understood(it, a) and not any(a == f"ISNONE[{p}]" for p in it.ext_params))


def kept_whenever_kept_elsewhere(it: M.Interp, k: Formula, premise: Formula) -> "list[str] | None":
    """`premise -> k` up to filters that do not depend on the external options: for every value of the unrelated facts, an
    element that satisfies `k` in SOME configuration satisfies it in EVERY configuration in which the premise holds.  Returns the
    unrelated facts used (the obligation holds) or None (it does not hold / nothing unrelated is involved)."""
    names_ = atoms_of(k) | atoms_of(premise)
    cons = constraints(it, names_ | {"FLAG", "HAS"})
    names_ |= atoms_of(cons)
    free_ = unrelated_atoms(it, names_)
    if not free_:
        return None
    hard = sorted(names_ - set(free_))
    if len(hard) + len(free_) > 16:
        return None
    for env_u in M.assignments(free_):
        somewhere = False
        everywhere = True
        for env_h in M.assignments(hard):
            env = {**env_u, **env_h}
            if not evaluate(cons, env):
                continue
            v = evaluate(k, env)
            if v and env.get(f"INSCAN[{E}]", True):
                somewhere = True
            if not v and evaluate(premise, env):
                everywhere = False
        if somewhere and not everywhere:
            return None
    return free_


_OPS = {"Eq", "NotEq", "Gt", "GtE", "Lt", "LtE", "Is", "IsNot", "In", "NotIn", "None", "True", "False", "Add", "Sub"}


def about_entry_options(it: M.Interp, a: str) -> bool:
    """A free atom that only talks about parameters of the scan entry point (`ISNONE[level_limit]`): a fact about the
    configuration that can be true or false - a verdict that fails for one of its values fails for a real configuration."""
    import re

    m = re.fullmatch(r"(ISNONE|T|EQ|IS|CMP)\[(.*)\]", a)
    if m is None:
        return False
    body = re.sub(r"'[^']*'|\"[^\"]*\"", "", m.group(2))
    ids = [t for t in re.findall(r"[A-Za-z_][A-Za-z0-9_]*", body) if t not in _OPS]
    return bool(ids) and all(t in it.entry.param_names for t in ids)


def understood(it: M.Interp, a: str) -> bool:
    """Atoms whose meaning the model knows.  Values and tests the model had to leave open (a call it could not follow, a read from a
    dictionary, an object compared as a value, a quantifier it could not resolve ...) carry the mark GAP; a verdict VIOLATED is
    only given on formulas free of them: a counter-example built on a gap may not exist."""
    return "GAP" not in it.taint_of_atom(a) and not a.startswith("§")


def not_understood(it: M.Interp, *fs: Formula) -> list[str]:
    out: set[str] = set()
    for f in fs:
        out |= {a for a in atoms_of(f) if not understood(it, a)}
    return sorted(out)


def fmt_env(env: "dict | None", only: "set[str] | None" = None) -> str:
    if not env:
        return ""
    return ", ".join(f"{k}={'T' if v else 'F'}" for k, v in sorted(env.items()) if only is None or k in only)


def part_key(repo: Repo, p: M.Part) -> str:
    if p.fi is None or p.node is None:
        return f"<{p.kind} {p.base}>"
    st = stmt_of(p.node)
    return repo.key(p.fi, st if st is not None else p.node) + f" [{norm(p.node, 70)}]"


def strip_unrelated(it: M.Interp, c: M.Coll) -> M.Coll:
    """The collection with every filter whose condition mentions neither the external options nor the internal test / the scanned
    modules made transparent: such filters treat all configurations and all kinds of modules alike and are not the business of C10."""
    parts = []
    for p in c.parts:
        if p.kind == "filter" and p.src is not None:
            src = strip_unrelated(it, p.src)
            if p.guard == FALSE:
                continue
            if not e_atoms(it, p.guard) and not any(is_canonical(a) for a in atoms_of(p.guard)):
                # same elements, whatever the options (the path condition under which the filter runs stays)
                path = strip_elem(p.guard, p.sym)
                parts += [M.Part(q.kind, conj([q.guard, path]), q.base, q.src, q.sym, q.what, q.items, q.fi, q.node, q.partial, q.loop) for q in src.parts]
            else:
                parts.append(M.Part(p.kind, p.guard, p.base, src, p.sym, p.what, p.items, p.fi, p.node, p.partial, p.loop))
        elif p.kind == "adds" and p.src is not None:
            parts.append(M.Part(p.kind, p.guard, p.base, strip_unrelated(it, p.src), p.sym, p.what, p.items, p.fi, p.node, p.partial, p.loop))
        else:
            parts.append(p)
    return M.Coll(parts, list(c.removals), c.label)


def transparent(c: M.Coll, victim: M.Part) -> M.Coll:
    """The collection with one filter part (all its copies: same statement) replaced by its source."""
    parts = []
    for p in c.parts:
        if p.kind == "filter" and p.src is not None:
            src = transparent(p.src, victim)
            if p.node is victim.node:
                parts += [M.Part(q.kind, conj([q.guard, strip_elem(p.guard, p.sym)]), q.base, q.src, q.sym, q.what, q.items, q.fi, q.node, q.partial, q.loop) for q in src.parts]
            else:
                parts.append(M.Part(p.kind, p.guard, p.base, src, p.sym, p.what, p.items, p.fi, p.node, p.partial, p.loop))
        else:
            parts.append(p)
    return M.Coll(parts, list(c.removals), c.label)


def strip_elem(g: Formula, sym: str) -> Formula:
    """The conjuncts of a guard that do not talk about the element (the path condition under which the filter runs)."""
    cs = g[1] if g[0] == "and" else [g]
    return conj([h for h in cs if not any(M.mentions(a, sym) for a in atoms_of(h))])


# --------------------------------------------------------------------------- the ancestor walk, unrolled on concrete names


def check_walk(repo: Repo, res: Result, it: M.Interp, internal: set[str]) -> "bool | None":
    """R4, ancestor part made concrete: the pipeline is interpreted once more with four concrete imports (of `aa`, `aa.bb`,
    `aa.bb.cc`, `aa.bb.cc.dd`) instead of a generic one.  Strings derived from these names are computed (partition / rpartition /
    split / slices / join / f-strings ...), `while` loops over them are carried out round by round and recursion on them is
    followed; a pattern test on the concrete name n is the atom EXCL('n').  With externals included, patterns present and the
    import external, the retention of the import of N must be false as soon as N or ANY of its proper ancestors matches, and
    true when none does: an ancestor whose atom does not switch the import off is never tested.

    True: decided and fine for all four names; False: a violation was reported; None: no verdict from the unrolling.
    """
    try:
        itc = M.Interp(repo, it.entry, it.flag_params, it.ext_params, internal, concrete=True)
        itc.run()
    except Exception as e:  # noqa: BLE001 - the symbolic rules still speak
        res.observe(f"C10.R4 ancestor walk: the unrolling on concrete names failed ({type(e).__name__}: {e})")
        return None
    if len(itc.sinks) != 1 or not isinstance(itc.sinks[0].imports, M.Coll):
        return None
    sink = itc.sinks[0]
    sink_key = repo.key(sink.fi, stmt_of(sink.node) or sink.node)
    verdicts = []
    for ci in itc.conc_imports:
        k = disj(p.guard for p in sink.imports.parts if p.kind == "lit" and any(i is ci for i in p.items))
        if any(p.kind != "lit" for p in sink.imports.parts):
            return None  # the import list is not made of the concrete imports only
        gaps = not_understood(itc, k)
        if gaps:
            # a value the interpreter had to leave open decides here (a table look-up, an opaque call ..): which names the
            # patterns are applied to cannot be read off this formula - no verdict from the unrolling
            res.observe(f"C10.R4 ancestor walk: the retention of the import of `{ci.name}` contains tests the model does not know ({', '.join(gaps[:4])}) - no verdict from the unrolling")
            return None
        lineage = [ci.name, *reversed(M.dotted_ancestors(ci.name))]
        excl = {n: f"EXCL({n!r})" for n in lineage}
        inexact = sorted(a_ for a_ in atoms_of(k) if (a_.startswith(("EXCL(", "∃EXCL", "EXCL[")) and a_ not in {f"EXCL({n!r})" for n in itc.CONCRETE_NAMES}) or M._SYM.search(a_))
        if inexact:
            # a pattern test on a name the run could not compute, a fact about a generic element: the names were not all followed
            res.observe(f"C10.R4 ancestor walk: the retention of the import of `{ci.name}` mentions names the unrolling could not compute ({', '.join(inexact[:4])}) - no verdict from the unrolling")
            return None
        others = sorted(atoms_of(k) - set(excl.values()))
        if len(others) > 12:
            return None
        # a situation in which this import is an external one that is kept because nothing matches - and is dropped when it
        # matches itself: externals included, patterns present, every other fact as favourable as needed
        # every situation (values of the other facts) in which this import is an external one that is kept because nothing
        # matches and dropped when it matches itself - externals included: in each of them every ancestor must switch it off too
        tested_all: "set[str] | None" = None
        has_int = any(a_.startswith("INT(") for a_ in others)
        for env_o in M.assignments(others):
            if env_o.get("FLAG") or env_o.get("HAS") is False or any(v for a_, v in env_o.items() if a_.startswith("INT(")):
                continue  # externals included, patterns present, the import not internal
            base = {**env_o, **{a_: False for a_ in excl.values()}}
            if not evaluate(k, base):
                continue
            if not has_int and evaluate(k, {**base, excl[ci.name]: True}):
                continue  # (no named internal test in the formula: a situation in which the patterns have no say is an internal one)
            t_here = {n for n in lineage if not evaluate(k, {**base, excl[n]: True})}
            tested_all = t_here if tested_all is None else (tested_all & t_here)
        if tested_all is None:
            return None  # no situation in which this import is a retained external one: R4 (symbolic) speaks
        tested = [n for n in lineage if n in tested_all]
        skipped = [n for n in lineage if n not in tested_all]
        extra = sorted(a_ for a_ in atoms_of(k) if a_.startswith("EXCL(") and a_ not in excl.values())
        verdicts.append((ci.name, tested, skipped, extra, k))
    cuts = []
    for f, text, _node in itc.cuts:
        c = f"`{text}` in {f.qualname}"
        if c not in cuts:
            cuts.append(c)
    if not any(t for _n, t, _sk, _x, _k in verdicts):
        # no pattern test on any concrete name has a say.  When every retention condition is made of facts about the options and
        # about the concrete names only (nothing left open, no pattern test in another spelling), that is the verdict: the
        # patterns are never consulted.  Otherwise the symbolic obligations speak.
        names_ok = {f"{kind}({n!r})" for kind in ("EXCL", "INT") for n in itc.CONCRETE_NAMES} | {"FLAG", "HAS"}
        if not all(atoms_of(k_) <= names_ok for _n, _t, _sk, _x, k_ in verdicts) or not any("HAS" in atoms_of(k_) for _n, _t, _sk, _x, k_ in verdicts):
            return None
    bad = [(n, t, sk) for n, t, sk, _x, _k in verdicts if sk]
    construct = sink_key + " [include mode: every ancestor consulted]"
    if bad:
        n, t, sk = max(bad, key=lambda b: len(b[0]))
        detail = (
            f"for an external import of `{n}` the exclusion patterns are applied to {', '.join('`' + x + '`' for x in t) or 'no name'} but never to "
            f"{', '.join('`' + x + '`' for x in sk)}: an external whose ancestor `{sk[0]}` matches a pattern keeps its import (and the calculator re-adds the excluded package). "
            + (f"The names are derived by {'; '.join(cuts[:4])}." if cuts else "")
            + " (unrolled on " + ", ".join(f"`{v[0]}`: tested {{{', '.join(v[1])}}}" for v in verdicts) + ")"
        )
        where_ = ""
        for f, _text, node in itc.cuts:
            where_ = where(f, node)
            break
        res.add("C10.R4", construct, False, detail, where_ or where(sink.fi, sink.node), kind="decision-table")
        return False
    res.add("C10.R4", construct, True, "unrolled on the names aa, aa.bb, aa.bb.cc, aa.bb.cc.dd: an external import is switched off by a match of the importee and of each of its proper ancestors (" + "; ".join(f"{v[0]}: {{{', '.join(v[1])}}}" for v in verdicts) + ")" + (f"; names derived by {'; '.join(cuts[:3])}" if cuts else ""), where(sink.fi, sink.node), kind="decision-table")
    return True


# --------------------------------------------------------------------------- R5: the verdict on one import is a function of that import


ORDER_NAMES = ("aa", "aa.bb", "aa.bb.cx", "aa.bb.cc", "aa.bb.cc.dd")


def var_masks(names: list[str]) -> dict[str, int]:
    """Bit masks of the assignments (numbered 0 .. 2^n - 1, names[j] = bit j of the number) in which a name is true."""
    size = 1 << len(names)
    var: dict[str, int] = {}
    for j, a in enumerate(names):
        half = 1 << j
        block = ((1 << half) - 1) << half
        m = 0
        for s in range(0, size, half << 1):
            m |= block << s
        var[a] = m
    return var


def truth_table(f: Formula, names: list[str], var: "dict[str, int] | None" = None) -> int:
    """The truth table of `f` over `names` as one integer (bit i = value under assignment number i).  Shared sub-formulas are
    evaluated once: the descriptions of the concrete runs are small graphs that print as huge trees."""
    full = (1 << (1 << len(names))) - 1
    var = var if var is not None else var_masks(names)
    memo: dict[int, int] = {}

    def go(g: Formula) -> int:
        r = memo.get(id(g))
        if r is not None:
            return r
        tag = g[0]
        if tag == "const":
            r = full if g[1] else 0
        elif tag == "atom":
            r = var[g[1]]
        elif tag == "not":
            r = full & ~go(g[1])
        elif tag == "and":
            r = full
            for h in g[1]:
                r &= go(h)
        else:
            r = 0
            for h in g[1]:
                r |= go(h)
        memo[id(g)] = r
        return r

    return go(f)


def state_carriers(repo: Repo, visited: set[str]) -> list:
    """Writes to objects that outlive the treatment of one import in the functions the interpretation went through: fields of
    `self` outside the constructor, parameters, locals that may hold an object created elsewhere."""
    from core.effects import Effects

    eff = Effects(repo, types_of(repo))
    out = []
    for f in repo.all_functions():
        if f.fq not in visited or isinstance(f.node, ast.Lambda) or f.name in ("__init__", "__post_init__", "__new__"):
            continue
        loops = [n for n in own_nodes(f.node) if isinstance(n, (ast.For, ast.AsyncFor, ast.While))]
        for w in eff.writes(f):
            if w.root_kind == "self" or w.root_kind in ("classvar", "global"):
                out.append(w)
            elif w.root_kind == "local" and f.name not in ("__init__", "__post_init__"):
                # a local container that lives across the iterations of a loop and is changed inside it
                for lp in loops:
                    inside = {id(n) for st in lp.body for n in ast.walk(st)}
                    if id(w.node) in inside and not any(isinstance(n, ast.Name) and n.id == w.root and isinstance(n.ctx, ast.Store) for st in [lp.target] if isinstance(lp, (ast.For, ast.AsyncFor)) for n in ast.walk(st)) and not any(isinstance(n, ast.Name) and n.id == w.root and isinstance(n.ctx, ast.Store) for st in lp.body for n in ast.walk(st)):
                        out.append(w)
                        break
    # fields of `self` first: they outlive the call
    return sorted(out, key=lambda w: 0 if w.root_kind != "local" else 1)


def check_order(repo: Repo, res: Result, it: M.Interp, internal: set[str]) -> None:
    """R5, instance level: whether an import is dropped is decided by the import alone.

    Property: an external disappears exactly when it, or one of its ancestors, matches a pattern.  Necessary: with externals
    included the retention of the import of N is a function of the pattern facts about N and its ancestors - never of the facts
    about a descendant, a sibling or any other name, whichever imports were filtered before.  A memo that is sound (it only ever
    holds names for which "the name or an ancestor matches" is true: the matching name and what lies below it) leaves the
    retention unchanged; one that also stores the ancestors above the match makes a later import of such an ancestor vanish.

    Decided on the concrete imports of aa, aa.bb, aa.bb.cx, aa.bb.cc, aa.bb.cc.dd, filtered one after the other in both orders
    (objects of the pipeline keep their fields between the imports): the truth table of every retention condition must not
    change with EXCL('m') for a name m that is neither N nor an ancestor of N.
    """
    if len(it.sinks) != 1:
        return
    findings = []
    inspected = 0
    visited: set[str] = set()
    sink = None
    for order in (ORDER_NAMES, tuple(reversed(ORDER_NAMES))):
        try:
            itc = M.Interp(repo, it.entry, it.flag_params, it.ext_params, internal, concrete=True)
            itc.conc_imports = [M.ConcImport(n) for n in order]
            itc.run()
        except Exception as e:  # noqa: BLE001 - the other obligations still speak
            res.observe(f"C10.R5 order independence: the unrolling on concrete names failed ({type(e).__name__}: {e})")
            return
        if len(itc.sinks) != 1 or not isinstance(itc.sinks[0].imports, M.Coll) or any(p.kind != "lit" for p in itc.sinks[0].imports.parts):
            res.observe("C10.R5 order independence: the import list of the concrete run is not made of the concrete imports only - no verdict")
            return
        sink = itc.sinks[0]
        visited |= itc.visited
        for ci in itc.conc_imports:
            k = disj(p.guard for p in sink.imports.parts if p.kind == "lit" and any(i is ci for i in p.items))
            names_ = sorted(atoms_of(k))
            lineage = {ci.name, *M.dotted_ancestors(ci.name)}
            outside = [a for a in names_ if a.startswith("EXCL(") and not any(a == f"EXCL({n!r})" for n in lineage)]
            if not outside:
                inspected += 1
                continue
            if len(names_) > 16:
                res.observe(f"C10.R5 order independence: retention of the import of `{ci.name}` mentions {len(names_)} facts - not enumerated")
                return
            hard = [a for a in names_ if a in ("FLAG", "HAS") or a.startswith(("EXCL(", "INT("))]
            soft = [a for a in names_ if a not in hard]
            if any(not understood(itc, a) for a in names_):
                res.observe(f"C10.R5 order independence: retention of the import of `{ci.name}` contains tests the model does not know ({', '.join(a for a in names_ if not understood(itc, a))}) - no verdict")
                return
            var = var_masks(names_)
            table = truth_table(k, names_, var)
            full = (1 << (1 << len(names_))) - 1
            idx = {a: j for j, a in enumerate(names_)}
            mask_of = var.__getitem__

            # situations that exist: externals included, patterns present; an internal name has internal descendants
            ok = full
            if "FLAG" in idx:
                ok &= full & ~mask_of("FLAG")
            if "HAS" in idx:
                ok &= mask_of("HAS")
            ints = {a[len("INT("):-1].strip("'\""): a for a in names_ if a.startswith("INT(")}
            for n, a in ints.items():
                for m_, b in ints.items():
                    if m_.startswith(n + "."):
                        ok &= (full & ~mask_of(a)) | mask_of(b)
            inspected += 1
            for o in outside:
                j = idx[o]
                low = full & ~mask_of(o)  # assignments with o false; the partner with o true is 2^j further
                diff = (table ^ (table >> (1 << j))) & low & ok
                if not diff:
                    continue
                # robust in the facts the model cannot judge: whatever their values, some situation shows the dependence
                robust = True
                for env_s in M.assignments(soft):
                    sel = full
                    for a, v in env_s.items():
                        sel &= mask_of(a) if v else (full & ~mask_of(a))
                    if not (diff & sel):
                        robust = False
                        break
                if not robust:
                    res.observe(f"C10.R5 order independence: retention of the import of `{ci.name}` changes with {o} only for some values of {', '.join(soft)} - no verdict")
                    continue
                i = (diff & -diff).bit_length() - 1
                env = {a: bool((i >> idx[a]) & 1) for a in names_}
                kept_when = bool((table >> i) & 1)
                findings.append((ci.name, o[len("EXCL("):-1].strip("'\""), env, kept_when, [n for n in order], k))
    if sink is None:
        return
    sink_key = repo.key(sink.fi, stmt_of(sink.node) or sink.node)
    construct = sink_key + " [an import is judged on its own]"
    if findings:
        ws = state_carriers(repo, visited)
        carriers = []
        for w in ws:
            t = f"`{header(stmt_of(w.node))}` in {w.fi.qualname}"
            if t not in carriers:
                carriers.append(t)
        # the shortest name whose verdict is spoiled: the ancestor that vanishes
        n, m_, env, kept_when, order, _k = min(findings, key=lambda f_: (len(f_[0]), f_[0], f_[1]))
        rel = "descendant" if m_.startswith(n + ".") else ("sibling" if m_.rpartition(".")[0] == n.rpartition(".")[0] else "unrelated name")
        others = sorted({f"`{a}` (by `{b}`)" for a, b, *_ in findings if (a, b) != (n, m_)})
        detail = (
            f"with externals included the import of the external `{n}` is {'kept' if kept_when else 'dropped'} when no pattern matches `{m_}` and {'dropped' if kept_when else 'kept'} when one does "
            f"(all other facts equal: {fmt_env(env, {a for a in env if a != f'EXCL({m_!r})'})}; imports filtered in the order {', '.join(order)}), although `{m_}` is a {rel} of `{n}`, neither `{n}` nor one of its ancestors: "
            f"the verdict on one import depends on which imports were filtered before it - "
            + ("an external that matches a pattern (or has a matching ancestor) keeps its import. " if any(v for a, v in env.items() if a.startswith("EXCL(") and a != f"EXCL({m_!r})" and a[len("EXCL("):-1].strip("'\"") in {n, *M.dotted_ancestors(n)}) else "an external that matches no pattern and has no matching ancestor vanishes with its import. ")
            + (f"State kept between imports: {'; '.join(carriers[:4])}. " if carriers else "")
            + "A memo of excluded names may only hold names for which `the name or one of its ancestors matches` is true (the matching name and its descendants), never the ancestors above the match."
            + (f" Also spoiled: {', '.join(others[:6])}." if others else "")
        )
        at = where(ws[0].fi, ws[0].node) if ws else where(sink.fi, sink.node)
        res.add("C10.R5", construct, False, detail, at, kind="decision-table")
        return
    res.add("C10.R5", construct, True, f"unrolled on imports of {', '.join(ORDER_NAMES)} filtered in both orders with the objects of the pipeline keeping their fields: no retention condition depends on a pattern fact about a name outside the import's own lineage ({inspected} conditions inspected)", where(sink.fi, sink.node), kind="decision-table")


# --------------------------------------------------------------------------- the rules on one sink


def check_sink(repo: Repo, res: Result, it: M.Interp, s: M.Sink, walk_ok: "bool | None" = None) -> None:
    sink_key = repo.key(s.fi, stmt_of(s.node) or s.node)
    sink_where = where(s.fi, s.node)
    mods, imps = s.modules, s.imports
    if not isinstance(imps, M.Coll) or not isinstance(mods, M.Coll):
        res.undecide("C10.R1", sink_key, "the module list / import list handed to the graph could not be described as a collection", sink_where)
        return
    any_base = lambda b: True  # noqa: E731
    scanned = lambda b: b.startswith("scanned:")  # noqa: E731
    # ---- things the model cannot speak about: no verdict on a description that is incomplete
    n_und = len(res.undecided)
    # ---- R1 at the source: the scan itself is configured with the external patterns
    for fi_, call in it.ext_scans:
        res.add(
            "C10.R1",
            repo.key(fi_, stmt_of(call) or call) + f" [{norm(call, 70)}: scan filter <- external patterns]",
            False,
            f"`{norm(call, 70)}` in {fi_.qualname} builds the scanner with a pattern filter whose tests (`is_excluded` / `has_filter`) read configuration attributes that carry the external exclusion patterns "
            "(followed attribute by attribute through the configuration object and the fields of the filter): files and directories of the scanned tree whose path matches an external pattern are never scanned, "
            "so internal modules and the imports from and to them disappear when an external exclusion pattern is given",
            where(fi_, call),
            kind="flow",
        )
    if it.ext_scans:
        return
    for c, what in ((imps, "import list"), (mods, "module list")):
        seen_rem = set()
        for p, _down in M.walk_parts(c):
            if p.partial:
                res.undecide("C10.R1", part_key(repo, p), f"`{p.text()}` contributes to the {what} from inside a loop the model does not follow (while / break / growing work list)", p.where())
            elif p.kind == "base":
                origin = p.base.split(":", 1)[1]
                if set(p.items) & {"FLAG", "EXT"}:
                    res.undecide("C10.R1", sink_key + f" [{p.base}]", f"the {what} contains the result of `{origin}`, which depends on the external options in a way the model cannot follow", sink_where)
                elif what == "import list" and scanned(p.base):
                    res.undecide("C10.R1", sink_key + f" [{p.base}]", f"the import list contains scanned module names (`{origin}`)", sink_where)
                elif what == "module list" and not scanned(p.base):
                    res.undecide("C10.R3", sink_key + f" [{p.base}]", f"the module list contains names of unknown origin (`{origin}`): neither scanned modules nor names derived from an import in a way the model follows", sink_where)
            elif p.kind == "lit" and any(not isinstance(i, M.Const) for i in p.items):
                res.undecide("C10.R1", part_key(repo, p), f"`{p.text()}` puts a value of unknown origin ({', '.join(M.key(i) for i in p.items)}) into the {what}", p.where())
            elif p.kind == "adds" and what == "import list":
                res.undecide("C10.R1", part_key(repo, p), f"`{p.text()}` puts module names into the import list", p.where())
        for p, _down in [(None, None), *M.walk_parts(c)]:
            cc = c if p is None else p.src
            if cc is None:
                continue
            for g, text, fi, node in cc.removals:
                if id(node) not in seen_rem:
                    seen_rem.add(id(node))
                    res.undecide("C10.R1", repo.key(fi, stmt_of(node) or node), f"`{text}` removes elements from the {what}: removals are not modelled", where(fi, node))
    if not [p for p in M.bases_of(mods) if scanned(p.base)]:
        res.undecide("C10.R1", sink_key, "the module list handed to the graph is not derived from the parser's module list (Parser.parse)", sink_where)
    if len(res.undecided) > n_und:
        return
    k_imp = M.retention(imps, E, any_base)
    k_scan = M.retention(mods, E, scanned)
    INT, FLAG, HAS = atom(f"INT[{E}]"), atom("FLAG"), atom("HAS")
    EX, EXA, INSCAN = atom(f"EXCL[{E}]"), atom(f"∃EXCL[anc:{E}]"), atom(f"INSCAN[{E}]")

    # ---- R1: option-dependent decisions never touch internal elements
    def r1(c: M.Coll, k: Formula, assume: dict[str, bool], what: str, breaks: str) -> None:
        fparts = [p for p, _ in M.walk_parts(c) if p.kind == "filter" and e_atoms(it, p.guard)]
        w = depends_on_options(it, k, assume)
        if w is None:
            for p in fparts:
                res.add("C10.R1", part_key(repo, p), True, f"{what}: kept under `{show(rename_sym(p.guard, p.sym, E))}`; for an internal element the combined retention condition does not depend on the external options", p.where(), kind="decision-table")
            res.add("C10.R1", sink_key + f" [{what}]", True, f"retention of an internal element is `{show(k)}`: constant in FLAG / HAS / EXCL once the element is internal", sink_where, kind="decision-table")
            return
        # a test on the name in a spelling the model does not know may be the internal test written out a second time: if the
        # dependence disappears once it is assumed to hold, the verdict hinges on what that test means (F-NAME, R2, judges it)
        for a in sorted(atoms_of(k)):
            if a.startswith(NAME_RELATIONAL) and M.mentions(a, E) and not shape_only(a, E) and depends_on_options(it, k, {**assume, a: True}) is None:
                res.undecide("C10.R1", sink_key + f" [{what}]", f"the retention of an internal element, `{show(k)}`, is independent of the external options only if `{a}` holds for internal elements: a test on the name that is not the recognised internal test decides here", sink_where)
                return
        unknown = not_understood(it, k)
        if unknown:
            res.undecide("C10.R1", sink_key + f" [{what}]", f"the retention of an internal element, `{show(k)}`, seems to depend on the external options, but it contains tests the model does not know: {', '.join(unknown)}", sink_where)
            return
        # name the filters without which the dependence disappears
        named = False
        base_ok = scanned if what == "modules" else any_base
        seen_nodes: set[int] = set()
        for p in fparts:
            if id(p.node) in seen_nodes:
                continue  # a copy of a filter already judged (the same statement reached on another path)
            seen_nodes.add(id(p.node))
            k_wo = M.retention(transparent(c, p), E, base_ok)
            if depends_on_options(it, k_wo, assume) is None:
                named = True
                res.add("C10.R1", part_key(repo, p), False, f"{what}: `{norm(p.node, 70)}` keeps an element under `{show(rename_sym(p.guard, p.sym, E))}`; with it the retention of an internal element is `{show(k)}`: true under ({fmt_env(w['kept'])}), false under ({fmt_env(w['dropped'])}), which differ only in the external options: {breaks}", p.where(), kind="decision-table")
        if not named:
            res.add("C10.R1", sink_key + f" [{what}]", False, f"retention of an internal element is `{show(k)}`: true under ({fmt_env(w['kept'])}), false under ({fmt_env(w['dropped'])}), which differ only in the external options: {breaks}", sink_where, kind="decision-table")

    r1(imps, k_imp, {f"INT[{E}]": True}, "imports", "an external pattern that textually matches an internal importee (or the exclude option) removes an import between internal modules")
    r1(mods, k_scan, {f"INT[{E}]": True, f"INSCAN[{E}]": True}, "modules", "an external pattern that textually matches an internal module removes it (and its imports) from the architecture")

    # ---- R4: the two modes on the import list (filters unrelated to the options made transparent)
    imps_r, mods_r = strip_unrelated(it, imps), strip_unrelated(it, mods)
    k_imp_r = M.retention(imps_r, E, any_base)
    k_scan_r = M.retention(mods_r, E, scanned)

    def verdict(rule: str, construct: str, premise: Formula, conclusion: Formula, ok_text: str, bad_text: str, at: str, by_unrolling: bool = False) -> None:
        if by_unrolling and walk_ok is not None:
            # which names the patterns are applied to is decided on the concrete names aa .. aa.bb.cc.dd (obligation `every
            # ancestor consulted`): exact for walks over the ancestors (recursive, iterative, by index), which the generic
            # description can only leave open or misread
            if walk_ok:
                res.add(rule, construct, True, ok_text + " (decided by unrolling the pipeline on imports of names with 1 to 4 components)", at, kind="decision-table")
            return
        st, w = tri(it, premise, conclusion)
        if st == "ok":
            res.add(rule, construct, True, ok_text, at, kind="decision-table")
        elif st == "violated":
            res.add(rule, construct, False, bad_text + f" (witness: {fmt_env(w)})", at, kind="decision-table")
        else:
            hint = f" (tests in a spelling the model does not know: {', '.join(w)})" if w else ""
            res.undecide(rule, construct, f"cannot decide `{show(premise)}` -> `{show(conclusion)}`: it hinges on facts the model does not know{hint}", at)

    verdict("C10.R4", sink_key + " [exclude mode: imports]", conj([k_imp_r, FLAG]), INT, "with externals excluded only imports accepted by the internal test remain", f"with externals excluded an import whose importee is not internal is retained: retention is `{show(k_imp_r)}`", sink_where)
    verdict("C10.R4", sink_key + " [include mode: matching externals dropped]", conj([k_imp_r, f_not(INT), f_not(FLAG)]), conj([f_not(EX), f_not(EXA)]), "an external import is dropped when its importee or one of its ancestors matches a pattern", f"an external import whose importee or one of whose ancestors matches an external exclusion pattern is retained (the patterns are not consulted for it): retention is `{show(k_imp_r)}`", sink_where, by_unrolling=True)
    verdict("C10.R4", sink_key + " [include mode: other externals kept]", conj([f_not(FLAG), f_not(EX), f_not(EXA)]), k_imp_r, "with externals included every import that matches no pattern (itself and its ancestors) is retained", f"with externals included an import that matches no external pattern is dropped: retention is `{show(k_imp_r)}`", sink_where, by_unrolling=True)
    # (a filter of the scanned modules that does not depend on the external options - a level limit - is not the business of
    # C10: the internal modules must be the same in every configuration, so a scanned module that any configuration hands on
    # must be handed on with externals excluded)
    st_mod, _w = tri(it, conj([FLAG, INSCAN]), k_scan_r)
    unrel = kept_whenever_kept_elsewhere(it, k_scan, conj([FLAG, INSCAN])) if st_mod != "ok" else None
    if unrel:
        res.add("C10.R4", sink_key + " [exclude mode: modules]", True, f"with externals excluded every scanned module that any configuration hands to the graph is handed on (the other conditions do not depend on the external options: {', '.join(unrel)})", sink_where, kind="decision-table")
    else:
        verdict("C10.R4", sink_key + " [exclude mode: modules]", conj([FLAG, INSCAN]), k_scan_r, "with externals excluded every scanned module is handed to the graph", f"with externals excluded a scanned module is not handed on: retention is `{show(k_scan_r)}`", sink_where)

    # ---- R3 / R4: what is appended to the module list
    adds = [(p, down) for p, down in M.walk_parts(mods_r) if p.kind == "adds"]
    cover: dict[str, list[Formula]] = {"self": [], "parents": []}
    grouped: dict[tuple[int, str], tuple[M.Part, list[Formula]]] = {}
    for p, down in adds:
        if not (p.items and p.items[0] == "import"):
            continue  # ancestors of scanned names etc.: not derived from an import
        name = E if p.what == "self" else f"anc:{E}"
        gate = conj([rename_sym(p.guard, p.sym, E), rename_sym(down, "@", name)])
        # the element the names are derived from is an element of the part's source: it satisfies the source's own conditions
        src_ret = M.retention(p.src, E, any_base) if p.src is not None else TRUE
        gate = conj([gate, src_ret])
        # coverage: "unless the name was added before by this very loop" (de-duplication against the accumulator) adds nothing new
        cov = gate
        if p.loop is not None:
            for a_ in sorted(atoms_of(gate)):
                if a_.startswith("IN[") and a_.endswith(f"@L{p.loop.serial}]"):
                    cov = M.subst_atom(cov, a_, FALSE)
        cover[p.what].append(cov)
        grouped.setdefault((id(p.node), p.what), (p, []))[1].append(gate)
    for (_nid, _w), (p, gates) in grouped.items():
        gate = disj(gates)
        what = "the importee" if p.what == "self" else "the ancestors of the importee"
        st, w = tri(it, gate, f_not(INT))
        if st == "ok":
            res.add("C10.R3", part_key(repo, p), True, f"{what} become(s) a module only under `{show(gate)}`, which implies that the internal test rejects the importee", p.where(), kind="dominance")
        elif st == "violated":
            res.add("C10.R3", part_key(repo, p), False, f"`{norm(p.node, 70)}` adds {what} of an import as module(s) under `{show(gate)}`, which does not establish that the internal test rejects the importee (witness: {fmt_env(w)}): names below the internal prefix that are not scanned modules (imported functions, excluded files) become modules, so internal content depends on the external options", p.where(), kind="dominance")
        else:
            res.undecide("C10.R3", part_key(repo, p), f"cannot establish that `{show(gate)}` implies that the importee is not internal", p.where())
        st, w = tri(it, gate, f_not(FLAG))
        if st == "ok":
            res.add("C10.R4", part_key(repo, p) + " [include mode only]", True, "names of imports are appended only when externals are included", p.where(), kind="dominance")
        elif st == "violated":
            res.add("C10.R4", part_key(repo, p) + " [include mode only]", False, f"`{norm(p.node, 70)}` appends {what} under `{show(gate)}` although externals are excluded: with externals excluded the module list is not the scanned list", p.where(), kind="dominance")
        else:
            res.undecide("C10.R4", part_key(repo, p) + " [include mode only]", f"cannot establish that `{show(gate)}` implies that externals are included", p.where())
        # excluded externals disappear together with their imports: a name derived from an import reaches the module list only
        # when the patterns spare it (the importee: itself and its ancestors; an ancestor: itself, unless it is a scanned module)
        # (stated relative to the import list handed to the graph: the names come from a retained import, or the patterns spare
        # them - which names the import filter applies the patterns to is the business of the unrolled obligations)
        spared = conj([f_not(EX), f_not(EXA)]) if p.what == "self" else disj([f_not(atom(f"EXCL[anc:{E}]")), atom(f"INSCAN[anc:{E}]")])
        concl = disj([k_imp_r, spared])
        st, w = tri(it, conj([gate, f_not(FLAG), f_not(INT)]), concl)  # (names below the internal prefix: R3)
        key_x = part_key(repo, p) + " [excluded externals are not appended]"
        if st == "ok":
            res.add("C10.R4", key_x, True, f"{what} of an import become(s) a module only when the import is among those handed to the graph or no external exclusion pattern matches the name (the importee: nor one of its ancestors)", p.where(), kind="dominance")
        elif st == "violated":
            res.add("C10.R4", key_x, False, f"`{norm(p.node, 70)}` adds {what} of an import as module(s) under `{show(gate)}`, which holds for an import that is not handed to the graph because an external exclusion pattern matches {'the importee or one of its ancestors' if p.what == 'self' else 'that ancestor'} (witness: {fmt_env(w)}): the import is dropped but the excluded external stays in the architecture as a module (the names are derived from imports that were not filtered, and the module-list filter only looks at the name itself)", p.where(), kind="dominance")
        else:
            res.observe(f"C10.R4 {key_x}: not decided (`{show(gate)}` -> `{show(concl)}` hinges on facts the model does not know)")
    for whatk, label in (("self", "importee"), ("parents", "ancestors")):
        name = E if whatk == "self" else f"anc:{E}"
        present = disj([*cover[whatk], conj([atom(f"INSCAN[{name}]"), rename_sym(k_scan_r, E, name)])])
        # (imports that match a pattern are the business of R4)
        premise = conj([k_imp_r, f_not(INT), f_not(FLAG), f_not(EX), f_not(EXA)])
        verdict("C10.R3", sink_key + f" [externals appended: {label}]", premise, present, f"the {label} of every retained external import is in the module list", f"with externals included the {label} of a retained external import is not appended to the module list (it is a module only under `{show(present)}`): the external module and its import silently vanish from the architecture", sink_where)
    res.extra.setdefault("c10_model", []).append({"sink": sink_key, "imports_retained": show(k_imp), "scanned_module_retained": show(k_scan), "appended": [f"{p.what}: {show(p.guard)}" for p, _ in adds]})


# --------------------------------------------------------------------------- R2: the internal test itself


def internal_closure(repo: Repo, internal: set[str]) -> list[FuncInfo]:
    roots = [f for f in repo.all_functions() if f.fq in internal]
    return list(reachable_funcs(repo, roots, byname=False))


def _split_components(repo: Repo, f: FuncInfo, e: ast.expr, depth: int = 0) -> "str | None":
    """Text of the string whose '.'-components `e` is (through single-assignment locals, list()/tuple(), fields set in the
    class, helpers with a single return; the separator may be a constant that folds to '.'), else None."""
    from core.fold import fold

    if depth > 6:
        return None
    if isinstance(e, ast.Call) and isinstance(e.func, ast.Attribute) and e.func.attr in ("split", "rsplit") and e.args and fold(repo, f.module, e.args[0], f) == ".":
        return norm(e.func.value)
    if isinstance(e, ast.Call) and isinstance(e.func, ast.Name) and e.func.id in ("list", "tuple") and len(e.args) == 1:
        return _split_components(repo, f, e.args[0], depth + 1)
    if isinstance(e, ast.Call):
        try:
            cs, how = types_of(repo).callees(f, e, byname_fallback=False)
        except Exception:  # noqa: BLE001
            cs, how = [], ""
        if len(cs) == 1 and how == "repo" and not isinstance(cs[0].node, ast.Lambda):
            rets = [r for r in own_nodes(cs[0].node) if isinstance(r, ast.Return) and r.value is not None]
            if len(rets) == 1:
                inner = _split_components(repo, cs[0], rets[0].value, depth + 1)
                if inner is not None:
                    return f"{cs[0].name}({', '.join(norm(a, 30) for a in e.args)})"
    if isinstance(e, ast.Attribute) and isinstance(e.value, ast.Name) and e.value.id == "self" and f.cls is not None:
        vals = []
        for m in f.cls.methods.values():
            for n in own_nodes(m.node):
                if isinstance(n, (ast.Assign, ast.AnnAssign)) and n.value is not None:
                    for t in (n.targets if isinstance(n, ast.Assign) else [n.target]):
                        if isinstance(t, ast.Attribute) and isinstance(t.value, ast.Name) and t.value.id == "self" and t.attr == e.attr:
                            vals.append(_split_components(repo, m, n.value, depth + 1))
        if vals and all(v is not None for v in vals):
            return f"self.{e.attr}"
    if isinstance(e, ast.Name) and not isinstance(f.node, ast.Lambda):
        assigns = [n for n in own_nodes(f.node) if isinstance(n, (ast.Assign, ast.AnnAssign)) and n.value is not None and any(isinstance(t, ast.Name) and t.id == e.id for t in (n.targets if isinstance(n, ast.Assign) else [n.target]))]
        if len(assigns) == 1:
            return _split_components(repo, f, assigns[0].value, depth + 1)
        # a, b = x.split("."), y.split(".")
        for n in own_nodes(f.node):
            if isinstance(n, ast.Assign) and len(n.targets) == 1 and isinstance(n.targets[0], ast.Tuple) and isinstance(n.value, ast.Tuple) and len(n.value.elts) == len(n.targets[0].elts):
                for t, v in zip(n.targets[0].elts, n.value.elts):
                    if isinstance(t, ast.Name) and t.id == e.id:
                        return _split_components(repo, f, v, depth + 1)
    return None


def zip_truncations(repo: Repo, funcs: list[FuncInfo]) -> list[tuple[FuncInfo, ast.Call, bool, str]]:
    """zip(<components of a>, <components of b>) calls: (function, call, length guarded?, text)."""
    out = []
    for f in funcs:
        if isinstance(f.node, ast.Lambda):
            continue
        for c in calls_in(f.node):
            if not (isinstance(c.func, ast.Name) and c.func.id == "zip" and len(c.args) == 2):
                continue
            comps = [_split_components(repo, f, a) for a in c.args]
            if None in comps:
                continue
            strict = any(k.arg == "strict" and isinstance(k.value, ast.Constant) and k.value.value is True for k in c.keywords)
            texts = {norm(a) for a in c.args}
            guarded = strict
            for n in own_nodes(f.node):
                if isinstance(n, ast.Compare):
                    lens = [x for x in ast.walk(n) if isinstance(x, ast.Call) and isinstance(x.func, ast.Name) and x.func.id == "len" and x.args]
                    if len({norm(x.args[0]) for x in lens} & texts) == 2 or len({_split_components(repo, f, x.args[0]) for x in lens} & set(comps)) == 2:
                        guarded = True
            out.append((f, c, guarded, f"zip({norm(c.args[0], 40)}, {norm(c.args[1], 40)})"))
    return out


def add_sites(repo: Repo, res: Result, rule: str, sites) -> int:
    """One obligation per classified F-NAME site (same reporting as C14.R1)."""
    n = 0
    for s in sites:
        key = repo.key(s.fi, stmt_of(s.node)) + f" [{s.op}: {norm(s.node, 70)}]"
        if s.verdict in ("safe", "unsafe"):
            n += 1
            res.add(rule, key, s.verdict == "safe", s.why, where(s.fi, s.node), kind="flow")
        elif s.verdict == "reviewed":
            res.observe(f"{rule} reviewed site {s.fi.relpath}::{s.fi.qualname}: `{norm(s.node, 60)}` - {s.why}")
        elif s.verdict == "unknown":
            if s.op in ("startswith", "removeprefix") and s.needle is not None and ends_with_separator(repo, s.fi, s.needle):
                n += 1
                res.add(rule, key, True, "prefix ends in '.' (constant separator appended: whole dotted components)", where(s.fi, s.node), kind="flow")
            else:
                res.undecide(rule, key, s.why, where(s.fi, s.node))
        elif s.verdict == "unclassified":
            res.observe(f"{rule} unclassified (not armed) {s.fi.relpath}::{s.fi.qualname}: `{norm(s.node, 60)}` - {s.why}")
    return n


ZIP_FIXTURE = '''
def unsafe_zip(module: str, prefix: str) -> bool:
    wanted = prefix.rstrip(".").split(".")
    return all(a == b for a, b in zip(module.split("."), wanted))


def safe_zip_with_length(module: str, prefix: str) -> bool:
    have, wanted = module.split("."), prefix.split(".")
    return len(have) >= len(wanted) and all(a == b for a, b in zip(have, wanted))


def safe_slice(module: str, prefix: str) -> bool:
    wanted = prefix.split(".")
    return module.split(".")[: len(wanted)] == wanted
'''


def zip_fixture_selfcheck() -> str:
    """The expected number of truncated comparisons on the real tree is zero: a positive fixture shows that the lint still bites."""
    import shutil
    import tempfile
    from pathlib import Path

    tmp = Path(tempfile.mkdtemp(prefix="pta-c10-fixture-"))
    try:
        (tmp / "src" / "pytestarch").mkdir(parents=True)
        (tmp / "src" / "pytestarch" / "fixture_c10_zip.py").write_text(ZIP_FIXTURE)
        fx = Repo(tmp)
        got = {f.name: guarded for f, _c, guarded, _t in zip_truncations(fx, fx.all_functions())}
        if got != {"unsafe_zip": False, "safe_zip_with_length": True}:
            raise AnalysisError(f"C10.R2 fixture: zip comparisons not classified as expected: {got}")
        return "1 truncated and 1 length-guarded zip comparison of component lists classified as expected (embedded fixture)"
    finally:
        shutil.rmtree(tmp, ignore_errors=True)


def ends_with_separator(repo: Repo, f: FuncInfo, e: ast.expr, depth: int = 0) -> bool:
    """The string provably ends with '.', also when the separator is a module-level constant or comes through a local
    (rules/names.py leaves such prefixes unclassified)."""
    from core.fold import fold

    if depth > 5:
        return False
    s = fold(repo, f.module, e, f)
    if s is not None:
        return s.endswith(".")
    if isinstance(e, ast.BinOp) and isinstance(e.op, ast.Add):
        return ends_with_separator(repo, f, e.right, depth + 1)
    if isinstance(e, ast.JoinedStr) and e.values:
        last = e.values[-1]
        return ends_with_separator(repo, f, last.value if isinstance(last, ast.FormattedValue) else last, depth + 1)
    if isinstance(e, ast.IfExp):
        return ends_with_separator(repo, f, e.body, depth + 1) and ends_with_separator(repo, f, e.orelse, depth + 1)
    if isinstance(e, ast.Name) and not isinstance(f.node, ast.Lambda) and e.id not in f.param_names:
        assigns = [n for n in own_nodes(f.node) if isinstance(n, (ast.Assign, ast.AnnAssign)) and n.value is not None and any(isinstance(t, ast.Name) and t.id == e.id for t in (n.targets if isinstance(n, ast.Assign) else [n.target]))]
        stores = [n for n in own_nodes(f.node) if isinstance(n, ast.Name) and n.id == e.id and isinstance(n.ctx, ast.Store)]
        if assigns and len(stores) == len(assigns):
            return all(ends_with_separator(repo, f, a.value, depth + 1) for a in assigns)
    return False


def run_r2(repo: Repo, res: Result, it: M.Interp, internal: set[str], how: str) -> None:
    stop = {f.fq for f in repo.all_functions() if f.cls is not None and any(c.name == M.SINK_CLASS for c in repo.mro(f.cls))}
    reach = reachable_funcs(repo, [it.entry], byname=True, stop=stop)
    reach_fq = {f.fq for f in reach if f.fq not in stop and not (f.cls is not None and not f.module.name.startswith(SCAN_PKG) and any(c.name == "EvaluableArchitectureGraph" for c in repo.mro(f.cls)))}
    reach_fq |= {f.fq for f in internal_closure(repo, internal)}
    sites = [s for s in names.scan(repo) if s.fi.fq in reach_fq or (s.fi.outer is not None and s.fi.outer.fq in reach_fq)]
    add_sites(repo, res, "C10.R2", sites)
    # the expected number of unsafe sites is zero and a refactoring may legitimately remove every string operation on names
    # (comparison of component lists): the positive fixture shows on every run that the lint still bites
    res.add("C10.R2", "fixture::engine/fixtures/name_ops.py", True, names.fixture_selfcheck(), nontrivial=False)
    res.analysed["functions_reachable_from_scan_entry"] = len(reach_fq)
    # the internal test exists and is what the pipeline uses
    if not it.int_calls and it.int_def is None:
        res.undecide("C10.R2", f"{it.entry.relpath}::{it.entry.qualname}::internal test", "no internal-module test was met while interpreting the scan pipeline (neither a call of `is_internal_module` nor a test on the importee in its role)", where(it.entry, it.entry.node))
        return
    fns = internal_closure(repo, internal)
    res.observe(f"C10.R2 internal test found {how}; closure: {sorted(f.qualname for f in fns)}")
    zs = zip_truncations(repo, [f for f in repo.all_functions() if f.fq in reach_fq or f in fns])
    for f, c, guarded, text in zs:
        res.add(
            "C10.R2",
            repo.key(f, stmt_of(c) or c) + f" [{text}]",
            guarded,
            "component lists are compared pairwise together with their lengths" if guarded else f"`{text}` compares the dotted components pairwise but zip() stops at the shorter list and no length comparison accompanies it: a module with fewer components than the internal prefix that agrees on all of them (a proper ancestor package of module_path) counts as internal, so imports of it survive `exclude_external_libraries=True` and matching external exclusion patterns",
            where(f, c),
            kind="structural",
        )
    res.add("C10.R2", "fixture::zip comparison of component lists", True, zip_fixture_selfcheck(), nontrivial=False)
    for f in [g for g in fns if g.fq in internal][:1] or [it.entry]:
        res.add("C10.R2", f"{f.relpath}::{f.qualname}::complete prefixes", all(g for _f, _c, g, _t in zs), f"the internal test ({how}) contains no comparison of component lists truncated by zip ({len(zs)} zip comparison(s) of component lists inspected)", where(f, f.node), nontrivial=bool(zs), kind="structural")


# --------------------------------------------------------------------------- R5: values shared through a memoised function


MEMO_DECORATORS = {"lru_cache", "cache", "cached", "memoize", "memoized"}
CONTAINER_MUTATORS = {
    "append", "extend", "insert", "pop", "remove", "clear", "sort", "reverse", "add", "discard", "update", "setdefault", "popitem",
    "difference_update", "intersection_update", "symmetric_difference_update", "appendleft", "extendleft", "popleft",
    "__setitem__", "__delitem__", "__iadd__", "__ior__",
}


def memo_alias_mutations(repo: Repo, in_scope) -> tuple[list[FuncInfo], list[tuple[FuncInfo, FuncInfo, ast.AST]]]:
    """(memoised functions, [(memoised function, mutating function, mutating node)]): in-place changes - in the functions selected
    by `in_scope` - of a value that IS the result of a memoised function (an alias: through locals, fields, returns of repository
    functions; copies and derived values are new objects).  The result of a memoised function is one object handed to every caller
    of every scan: changing it changes what all later callers compute from it."""
    from core.flow import Flow, Spec

    memo = [f for f in repo.all_functions() if set(getattr(f, "decorators", ()) or ()) & MEMO_DECORATORS]
    if not memo:
        return [], []
    T = types_of(repo)
    by_fq = {f.fq: f for f in memo}

    def sources(fi, e):
        if isinstance(e, ast.Call):
            try:
                cs, _how = T.callees(fi, e, byname_fallback=False)
            except Exception:  # noqa: BLE001
                return None
            tags = {"MEMO:" + c.fq for c in cs if c.fq in by_fq}
            return tags or None
        return None

    def post(fi, e, tags):
        mine = {t for t in tags if t.startswith("MEMO:")}
        if not mine:
            return tags
        if isinstance(e, (ast.Name, ast.Attribute, ast.IfExp, ast.BoolOp, ast.NamedExpr, ast.Starred)):
            return tags
        if isinstance(e, ast.Call):
            if sources(fi, e):
                return tags
            try:
                cs, how = T.callees(fi, e, byname_fallback=False)
            except Exception:  # noqa: BLE001
                cs, how = [], ""
            if cs and how == "repo":
                return tags  # a repository function may return its argument / a field: the alias survives
        return frozenset(tags) - mine

    flow = Flow(repo, T, Spec(sources=sources, post=post, objects_carry=False, non_absorbed=frozenset("MEMO:" + fq for fq in by_fq)))
    bad = []
    for g in repo.all_functions():
        if isinstance(g.node, ast.Lambda) or not in_scope(g):
            continue
        for n_ in own_nodes(g.node):
            tgt = None
            if isinstance(n_, ast.Call) and isinstance(n_.func, ast.Attribute) and n_.func.attr in CONTAINER_MUTATORS:
                tgt = n_.func.value
            elif isinstance(n_, ast.Subscript) and isinstance(n_.ctx, (ast.Store, ast.Del)):
                tgt = n_.value
            elif isinstance(n_, ast.AugAssign) and isinstance(n_.target, ast.Name):
                tgt = ast.copy_location(ast.Name(id=n_.target.id, ctx=ast.Load()), n_.target)
                # (`x += [..]` on a list is in place; on a str / int / tuple it rebinds: only containers can alias a memoised list)
            if tgt is None:
                continue
            try:
                tags = flow.tags(tgt) if not isinstance(n_, ast.AugAssign) else flow.tags(n_.target)
            except Exception:  # noqa: BLE001
                continue
            for t in sorted(tags):
                if t.startswith("MEMO:") and t[5:] in by_fq:
                    bad.append((by_fq[t[5:]], g, n_))
    return memo, bad


MEMO_FIXTURE = {
    "src/pytestarch/eval_structure/fx_types.py": '''
from functools import lru_cache


@lru_cache(maxsize=None)
def parents(module: str) -> list[str]:
    parts = module.split(".")
    return [".".join(parts[:d]) for d in range(1, len(parts))]


class Rec:
    def __init__(self, name: str) -> None:
        self._name = name
        self._parents = parents(name)

    def parent_modules(self) -> list[str]:
        return self._parents
''',
    "src/pytestarch/eval_structure_generation/fx_calc.py": '''
from pytestarch.eval_structure.fx_types import Rec


def mutating(rec: Rec) -> list[str]:
    names = rec.parent_modules()
    names.append("x")
    return names


def copying(rec: Rec) -> list[str]:
    names = list(rec.parent_modules())
    names.append("x")
    return names


def fresh_set(rec: Rec) -> set[str]:
    names = {"x"}
    names.update(rec.parent_modules())
    return names
''',
}


def memo_fixture_selfcheck() -> str:
    """The expected number of mutated memoised results on the real tree is zero: a positive fixture shows that the lint bites."""
    import shutil
    import tempfile
    from pathlib import Path

    tmp = Path(tempfile.mkdtemp(prefix="pta-c10-memo-fixture-"))
    try:
        for rel, text in MEMO_FIXTURE.items():
            (tmp / rel).parent.mkdir(parents=True, exist_ok=True)
            (tmp / rel).write_text(text)
        for d in ("src/pytestarch", "src/pytestarch/eval_structure", "src/pytestarch/eval_structure_generation"):
            (tmp / d / "__init__.py").write_text("")
        fx = Repo(tmp)
        memo, bad = memo_alias_mutations(fx, lambda f: f.module.name.startswith(SCAN_PKG))
        got = sorted({g.name for _m, g, _n in bad})
        if [m.name for m in memo] != ["parents"] or got != ["mutating"]:
            raise AnalysisError(f"C10.R5 fixture: mutations of memoised results not classified as expected: memoised {[m.name for m in memo]}, mutated in {got}")
        return "embedded fixture: the in-place change of an aliased memoised list is found, the change of a copy and of a fresh set filled from it are not"
    finally:
        shutil.rmtree(tmp, ignore_errors=True)


def run_r5_memo(repo: Repo, res: Result) -> None:
    memo, bad = memo_alias_mutations(repo, lambda f: f.module.name.startswith(SCAN_PKG))
    seen = set()
    for m, g, n_ in bad:
        k_ = repo.key(g, stmt_of(n_) or n_)
        if k_ in seen:
            continue
        seen.add(k_)
        res.add("C10.R5", k_, False, f"`{header(stmt_of(n_) or n_)}` in {g.qualname} changes in place a value that is the result of the memoised {m.qualname} ({', '.join(sorted(set(m.decorators) & MEMO_DECORATORS))}): that object is shared by every caller and every later scan, so what a scan with externals included does to it (the calculator only runs then) changes what later scans - of any configuration - compute from it for internal modules", where(g, n_), kind="effect")
    res.add("C10.R5", "src/pytestarch/eval_structure_generation::results of memoised functions are not changed in place", not bad, (f"{len(memo)} memoised function(s) ({', '.join(m.qualname for m in memo)}); {'a scan function mutates a value aliasing a result' if bad else 'no scan function mutates a value aliasing their results'}; " if memo else "no memoised function in the repository; ") + memo_fixture_selfcheck(), nontrivial=bool(memo), kind="effect")


# --------------------------------------------------------------------------- run


def run(repo: Repo) -> Result:
    res = Result("C10")
    res.explanation = (
        "Interprets the scan entry point symbolically (rules/c10_model.py: statements once, loops for a generic element, calls of repository "
        "functions followed with their arguments, vocabulary classes opaque) and obtains the module list and the import list handed to the graph "
        "as parts with propositional guards over FLAG / HAS / EXCL / INT / INSCAN. Decides on these descriptions: (R1) the retention condition of an "
        "internal import and of a scanned internal module is the same for every value of the external options; (R2) the internal test compares whole "
        "dotted components and complete prefixes; (R3) names derived from an import are appended exactly when the internal test rejects the importee; "
        "(R4) with externals excluded the scanned module list is handed on unchanged and only internal imports remain, with externals included an import "
        "is dropped exactly when the importee or an ancestor matches a pattern; (R5) the scan pipeline writes no shared state."
    )
    res.not_decided = "equality of the internal sub-graphs across all configurations as a relation between scans; the meaning of the atoms themselves (FileFilter.is_excluded: C08, Import.importee: C02)."
    res.trusted_base = [
        "rules/c10_model.py (symbolic interpretation: one generic element per loop, exhaustive propositional evaluation)",
        "the public entry point rejects external patterns together with exclude_external_libraries (C13.R2): FLAG and HAS exclude each other",
        "scanned modules lie below module_path (C04): the internal test accepts every scanned module",
        "vocabulary of the pipeline: FileFilter.is_excluded / has_filter, Parser.parse, ImportConverter.convert, Import.importee / importee_parent_modules, get_parent_modules, NetworkxGraph(modules, imports, ..)",
    ]
    it, internal, how = build_model(repo)
    res.analysed["functions_interpreted"] = len(it.visited)
    for n in it.notes:
        res.observe("C10 model: " + n)
    if not it.sinks:
        # by role: an object of a class outside the scan package built from a collection that stems from the parser and another one
        for ci, colls, g, fi, node in it.other_sinks:
            mods = [c for c in colls if isinstance(c, M.Coll) and any(p.base.startswith("scanned:") for p in M.bases_of(c))]
            imps = [c for c in colls if isinstance(c, M.Coll) and c not in mods]
            if len(mods) == 1 and len(imps) == 1:
                it.sinks.append(M.Sink(mods[0], imps[0], g, fi, node))
    if not it.sinks:
        res.undecide("C10.R1", f"{it.entry.relpath}::{it.entry.qualname}::graph construction", f"no construction of {M.SINK_CLASS}(modules, imports, ..) was met while interpreting the scan entry point", where(it.entry, it.entry.node))
    walk_ok = check_walk(repo, res, it, internal) if it.sinks else None
    check_order(repo, res, it, internal)
    for s in it.sinks:
        check_sink(repo, res, it, s, walk_ok)
    run_r2(repo, res, it, internal, how)
    # ---- R5: the scan pipeline keeps no state between scans
    from core.effects import Effects

    eff = Effects(repo, types_of(repo))
    ws = [w for f in repo.all_functions() if f.module.name.startswith(SCAN_PKG) for w in eff.writes(f) if w.root_kind in ("classvar", "global")]
    for w in ws:
        res.add("C10.R5", repo.key(w.fi, stmt_of(w.node)), False, f"`{header(stmt_of(w.node))}` keeps {w.root_kind} state `{w.root}.{w.field}` in the scan pipeline: verdicts about externals computed for one option set are served to the next scan", where(w.fi, w.node), kind="effect")
    res.add("C10.R5", "src/pytestarch/eval_structure_generation::no shared state", not ws, "no function of the scan pipeline writes class-level or module-level state", kind="effect")
    run_r5_memo(repo, res)
    return res
