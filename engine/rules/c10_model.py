"""Abstract interpretation of the scan pipeline for C10 (external options never touch internal modules).

The rules of C10 are statements about two collections handed to the graph: the module list and the import list.  Instead of
looking for today's helpers by name, this module *interprets* the scan entry point (`generate_graph`) symbolically and describes
both collections at the sink (`NetworkxGraph(<modules>, <imports>, ...)`):

    collection  =  parts, each present under a guard (a propositional formula)
    part        =  base     elements of an opaque origin (result of Parser.parse / ImportConverter.convert / a parameter)
                |  filter   the elements x of a source collection for which the guard holds        (guard mentions x)
                |  adds     for every element x of a source collection for which the guard holds: the name of x / its ancestors
                |  lit      literal items

Guards are formulas over canonical atoms (core/guards.py formulas):

    FLAG          externals excluded (the `exclude_external_libraries` option, wherever it was copied to)
    HAS           external exclusion patterns present (`<filter built from the patterns>.has_filter()`, truthiness of the tuple)
    EXCL[x]       a filter built from the external patterns matches the name of element x      (x an import: its importee)
    EXCL[anc:x]   ... matches the generic ancestor of that name;   the closure over all ancestors is the atom `∃EXCL[anc:x]`
    INT[x]        the internal test accepts the name of element x
    INSCAN[x]     the name of x is one of the scanned modules (membership in a copy of the parser's module list)
    everything else is a free atom named after the values it compares (T[..], EQ[..], IN[..], ISNONE[..], ISINST[..], P<fn>[..]).

Statements are executed once, loops once for a *generic element*; calls of repository functions are followed (context sensitive:
parameters are bound to the abstract values of the arguments, objects carry their fields), so extract-method / inline-method /
move-helper / loop-vs-comprehension / early-return-vs-else / generator refactorings all lead to the same description.  Classes
that are vocabulary of the pipeline (FileFilter, Config, Parser, ImportConverter, the Import classes, NetworkxGraph) are not
entered; their results are opaque values that carry the taint of their inputs.

What is modelled: assignments (names, tuples, fields of objects built by the pipeline), if / elif / else with early return /
continue / break (path conditions, bindings merged per branch), conditional expressions, for loops and comprehensions over
collections (one run for the generic element; per-iteration literals such as `[imp.importee(), *imp.importee_parent_modules()]`
are unrolled), `for .. else`, work-list `while` loops, generators (yield = add to the result), any / all / next(it, default) /
truthiness of collections as existential closures over the loop variable, flag variables switched on / off in a loop, accumulators
(append / add / extend / update / += / |= / item stores into a dict used as ordered set), copies (list / set / frozenset / tuple /
sorted / dict.fromkeys / .copy()), set algebra (| & - union difference ..., membership expanded through filters), filter / map /
enumerate / functools.partial / itertools.chain, lambdas and closures, strategy objects and callables chosen under a condition
(alternatives, operations distribute over them), dataclass-like objects, properties, class attributes, super().
What is not modelled makes the affected values *unknown* (free atoms carrying the taint of what they were computed from, parts
marked partial, bases of unknown origin); the rules then give no verdict (undecided) instead of a wrong one.  Exception handlers
are not interpreted: the property speaks about scans that succeed.

Nothing of the repository is executed: the interpreter only ever manipulates formulas and descriptions it built itself.
"""

from __future__ import annotations

import ast
import itertools
import re
from dataclasses import dataclass, field, replace
from typing import Any, Callable, Iterable

from core.cfg import exit_kinds as _exit_kinds
from core.guards import FALSE, TRUE, Formula, atom, atoms_of, evaluate, f_not
from core.loader import AnalysisError, ClassInfo, FuncInfo, Repo, norm, own_nodes

SCAN_PKG = "pytestarch.eval_structure_generation"
VOCABULARY_MODULES = ("file_filter", "config", "parser", "converter", "import_types", "exceptions")
SINK_CLASS = "NetworkxGraph"
MAX_CALL_DEPTH = 14
MAX_ATOMS = 20


# --------------------------------------------------------------------------- formulas (flattening, de-duplicating constructors)


def conj(fs: Iterable[Formula]) -> Formula:
    out: list[Formula] = []
    for f in fs:
        if f == TRUE:
            continue
        if f == FALSE:
            return FALSE
        for g in f[1] if f[0] == "and" else [f]:
            if g not in out:
                out.append(g)
    for g in out:
        if f_not(g) in out:
            return FALSE
    if not out:
        return TRUE
    return out[0] if len(out) == 1 else ("and", out)


def disj(fs: Iterable[Formula]) -> Formula:
    out: list[Formula] = []
    for f in fs:
        if f == FALSE:
            continue
        if f == TRUE:
            return TRUE
        for g in f[1] if f[0] == "or" else [f]:
            if g not in out:
                out.append(g)
    for g in out:
        if f_not(g) in out:
            return TRUE
    if not out:
        return FALSE
    return out[0] if len(out) == 1 else ("or", out)


def subst_atom(f: Formula, name: str, by: Formula) -> Formula:
    tag = f[0]
    if tag == "atom":
        return by if f[1] == name else f
    if tag == "const":
        return f
    if tag == "not":
        return f_not(subst_atom(f[1], name, by))
    parts = [subst_atom(g, name, by) for g in f[1]]
    return conj(parts) if tag == "and" else disj(parts)


def map_atoms(f: Formula, fn: Callable[[str], str]) -> Formula:
    tag = f[0]
    if tag == "atom":
        return atom(fn(f[1]))
    if tag == "const":
        return f
    if tag == "not":
        return f_not(map_atoms(f[1], fn))
    parts = [map_atoms(g, fn) for g in f[1]]
    return conj(parts) if tag == "and" else disj(parts)


def rename_sym(f: Formula, old: str, new: str) -> Formula:
    """Element symbols occur in atom names as `[sym]`, `:sym]`, `[sym,`, `,sym]`, `(sym)`."""
    if old == new:
        return f
    pat = re.compile(r"(?<![A-Za-z0-9_])" + re.escape(old) + r"(?![A-Za-z0-9_])")
    return map_atoms(f, lambda a: pat.sub(new, a))


_SYM = re.compile(r"(?<![A-Za-z0-9_])(x\d+|e|@|•\d+)(?![A-Za-z0-9_])")


def mentions(a: str, sym: str) -> bool:
    return re.search(r"(?<![A-Za-z0-9_])" + re.escape(sym) + r"(?![A-Za-z0-9_])", a) is not None


def show(f: Formula) -> str:
    tag = f[0]
    if tag == "const":
        return "true" if f[1] else "false"
    if tag == "atom":
        return f[1]
    if tag == "not":
        return "not " + (show(f[1]) if f[1][0] in ("atom", "const") else "(" + show(f[1]) + ")")
    sep = " and " if tag == "and" else " or "
    return "(" + sep.join(show(g) for g in f[1]) + ")"


def assignments(names: Iterable[str]):
    names = sorted(set(names))
    if len(names) > MAX_ATOMS:
        raise AnalysisError(f"C10 model: formula over {len(names)} atoms exceeds the enumeration bound {MAX_ATOMS}")
    for values in itertools.product([False, True], repeat=len(names)):
        yield dict(zip(names, values))


def valid(premise: Formula, conclusion: Formula, constraints: Formula = TRUE) -> bool:
    names = atoms_of(premise) | atoms_of(conclusion) | atoms_of(constraints)
    for env in assignments(names):
        if evaluate(constraints, env) and evaluate(premise, env) and not evaluate(conclusion, env):
            return False
    return True


# --------------------------------------------------------------------------- abstract values


class V:
    pass


@dataclass(eq=False)
class Unknown(V):
    text: str
    taint: frozenset = frozenset()
    maybe_none: "bool | None" = None  # None: not known
    patterns: bool = False  # the external pattern tuple (truthiness = HAS)
    flag: bool = False  # the exclude-externals option itself (truthiness = FLAG)


@dataclass(eq=False)
class NoneV(V):
    pass


@dataclass(eq=False)
class Const(V):
    value: Any


@dataclass(eq=False)
class BoolV(V):
    f: Formula


@dataclass(eq=False)
class Opaque(V):
    """Instance of a vocabulary class (not entered)."""

    cls: str
    taint: frozenset = frozenset()
    text: str = ""
    payload: "V | None" = None  # what a Config / FileFilter was built from (the pattern tuple)
    cfg: "dict | None" = None  # a configuration object: attribute -> value it was built with
    exact: bool = False  # a pattern filter whose taint is that of exactly the configuration attributes its tests read


_loop_serial = itertools.count(1)


@dataclass(eq=False)
class Loop:
    sym: str
    src: "Coll"
    node: ast.AST | None = None
    fi: FuncInfo | None = None
    active: bool = True
    broken: bool = False
    serial: int = field(default_factory=lambda: next(_loop_serial))


@dataclass(eq=False)
class Elem(V):
    sym: str
    loop: Loop


@dataclass(eq=False)
class Importee(V):
    elem: Elem


@dataclass(eq=False)
class Anc(V):
    of: V  # Elem (a name) or Importee


@dataclass(eq=False)
class Obj(V):
    cls: ClassInfo
    fields: dict = field(default_factory=dict)


@dataclass(eq=False)
class Fn(V):
    fi: FuncInfo
    selfv: "V | None" = None
    closure: "dict | None" = None


@dataclass(eq=False)
class ClassRef(V):
    ci: ClassInfo


@dataclass(eq=False)
class Builtin(V):
    name: str


@dataclass(eq=False)
class BoundAPI(V):
    recv: V
    attr: str


@dataclass(eq=False)
class TupleV(V):
    items: list


@dataclass(eq=False)
class ConcImport(V):
    """A concrete import of the module `name` (ancestor walks are unrolled on the names a, a.b, a.b.c, a.b.c.d)."""

    name: str


_NOCONC = object()


def conc(v: V):
    """The Python constant an abstract value stands for (strings, ints, None, tuples of them), else _NOCONC."""
    if isinstance(v, Const):
        return v.value
    if isinstance(v, NoneV):
        return None
    if isinstance(v, TupleV):
        items = [conc(i) for i in v.items]
        return _NOCONC if any(i is _NOCONC for i in items) else tuple(items)
    return _NOCONC


def absv(x) -> V:
    if x is None:
        return NoneV()
    if isinstance(x, (str, int, float, bool)):
        return Const(x)
    if isinstance(x, (tuple, list)):
        return TupleV([absv(i) for i in x])
    raise TypeError(type(x).__name__)


def dotted_ancestors(name: str) -> list[str]:
    parts = name.split(".")
    return [".".join(parts[:i]) for i in range(1, len(parts))]


CONCRETE_STR_METHODS = {"partition", "rpartition", "split", "rsplit", "join", "startswith", "endswith", "find", "rfind", "index", "rindex", "count", "strip", "rstrip", "lstrip", "removeprefix", "removesuffix", "replace", "lower", "upper", "isidentifier", "title", "casefold", "splitlines", "isdigit", "isalpha"}
CUT_METHODS = {"partition", "rpartition", "split", "rsplit", "find", "rfind", "index", "rindex"}


@dataclass(eq=False)
class AltV(V):
    """One of several values, each under a condition (a strategy object / callable chosen by the options, a field assigned in
    different branches).  Operations distribute over the alternatives."""

    alts: list  # [(Formula, V)]


@dataclass(eq=False)
class SuperRef(V):
    obj: V
    after: ClassInfo


@dataclass(eq=False)
class StarV(V):
    """`*collection_of_collections` passed as arguments (set().union(*map(f, xs))): the callee receives every element."""

    v: V


@dataclass(eq=False)
class PartialV(V):
    """functools.partial(fn, *args, **kwargs)."""

    fn: V
    args: list
    kwargs: dict


@dataclass(eq=False)
class DictV(V):
    """A dictionary: not modelled, but what is read from it carries the taint of what was stored into it."""

    text: str
    taint: frozenset = frozenset()
    stores: list = field(default_factory=list)  # (key of the key value, stored value): memo tables `if k not in d: d[k] = f(k)`
    entries: list = field(default_factory=list)  # (key value, value) of a literal: dispatch tables


@dataclass(eq=False)
class DictCompV(V):
    """{k: v for x in xs if c}: iterated lazily (keys / values / items), lookups are unknown."""

    node: ast.DictComp
    fr: "Frame"
    env: dict
    mode: str = "keys"  # keys | values | items
    taint: frozenset = frozenset({"GAP"})


@dataclass(eq=False)
class EnumV(V):
    """enumerate(collection) / itertools.groupby(collection) without key: pairs (index, element) / (element, group)."""

    src: V
    grouped: bool = False
    start: "int | None" = 0  # enumerate(xs, start); None: not a constant


@dataclass(eq=False)
class MapV(V):
    """map(fn, collection): iterated lazily - each element of the collection with `fn` applied."""

    fn: V
    src: V


@dataclass(frozen=True)
class Part:
    kind: str  # base | filter | adds | lit
    guard: Formula
    base: str = ""
    src: "Coll | None" = None
    sym: str = ""
    what: str = ""  # adds: self | parents
    items: tuple = ()
    fi: "FuncInfo | None" = None
    node: "ast.AST | None" = None
    partial: bool = False
    loop: "Loop | None" = None
    template: tuple = ()  # filter parts whose elements are collections derived from the element (its "lineage"): their parts

    def where(self) -> str:
        return f"{self.fi.relpath}:{getattr(self.node, 'lineno', 0)}" if self.fi is not None else ""

    def text(self) -> str:
        return norm(self.node, 90) if self.node is not None else self.kind


@dataclass(eq=False)
class Coll(V):
    parts: list = field(default_factory=list)
    removals: list = field(default_factory=list)  # (guard, text, fi, node): elements were removed - not modelled
    label: str = ""
    keyed: bool = False  # a dict used as an ordered set (dict.fromkeys, {}): item stores add the key
    stores: list = field(default_factory=list)  # keyed: (key of the key value, stored value) - look-ups of what was stored
    store_guards: list = field(default_factory=list)  # parallel to `stores`: (condition of the store, the key is a constant)

    def snapshot(self) -> "Coll":
        return Coll(list(self.parts), list(self.removals), self.label, self.keyed, list(self.stores), list(self.store_guards))


def root_elem(v: V) -> "Elem | None":
    while True:
        if isinstance(v, Elem):
            return v
        if isinstance(v, Importee):
            return v.elem
        if isinstance(v, Anc):
            v = v.of
            continue
        return None


def key(v: V) -> str:
    if isinstance(v, Elem):
        return v.sym
    if isinstance(v, Importee):
        return v.elem.sym
    if isinstance(v, Anc):
        return "anc:" + key(v.of)
    if isinstance(v, Const):
        return repr(v.value)
    if isinstance(v, NoneV):
        return "None"
    if isinstance(v, Unknown):
        return v.text
    if isinstance(v, Opaque):
        return v.text or v.cls
    if isinstance(v, Obj):
        return f"<{v.cls.name}>"
    if isinstance(v, Coll):
        return v.label or f"coll{id(v) % 10007}"
    if isinstance(v, TupleV):
        return "(" + ",".join(key(i) for i in v.items) + ")"
    if isinstance(v, BoolV):
        return "{" + show(v.f) + "}"
    if isinstance(v, DictV):
        return v.text
    if isinstance(v, DictCompV):
        return f"{{dict@{v.node.lineno}}}.{v.mode}"
    if isinstance(v, ConcImport):
        return f"<import {v.name}>"
    if isinstance(v, AltV):
        return "alt(" + "|".join(key(x) for _g, x in v.alts) + ")"
    if isinstance(v, Builtin):
        return v.name
    if isinstance(v, Fn):
        return v.fi.name
    if isinstance(v, ClassRef):
        return v.ci.name
    if isinstance(v, BoundAPI):
        return f"{key(v.recv)}.{v.attr}"
    return type(v).__name__


def taint_of(v: V) -> frozenset:
    if isinstance(v, (Unknown, Opaque)):
        return v.taint
    if isinstance(v, TupleV):
        out: frozenset = frozenset()
        for i in v.items:
            out |= taint_of(i)
        return out
    if isinstance(v, BoundAPI):
        return taint_of(v.recv)
    if isinstance(v, AltV):
        out = frozenset()
        for _g, x in v.alts:
            out |= taint_of(x)
        return out
    if isinstance(v, MapV):
        return taint_of(v.fn) | taint_of(v.src)
    if isinstance(v, (DictV, DictCompV)):
        return v.taint
    if isinstance(v, PartialV):
        out = taint_of(v.fn)
        for a in [*v.args, *v.kwargs.values()]:
            out |= taint_of(a)
        return out
    if isinstance(v, EnumV):
        return taint_of(v.src)
    if isinstance(v, Fn) and v.selfv is not None and not isinstance(v.selfv, Obj):
        return taint_of(v.selfv)
    return frozenset()


def maybe_none(v: V) -> "bool | None":
    if isinstance(v, NoneV):
        return True
    if isinstance(v, AltV):
        ms = [maybe_none(x) for _g, x in v.alts]
        return True if any(m for m in ms) else (False if all(m is False for m in ms) else None)
    if isinstance(v, Unknown):
        return v.maybe_none
    return False


@dataclass
class Sink:
    modules: V
    imports: V
    guard: Formula
    fi: FuncInfo
    node: ast.AST


@dataclass
class Frame:
    fi: FuncInfo
    env: dict
    base: int  # index into the guard stack at function entry
    returns: list = field(default_factory=list)  # (relative guard, value)
    breaks: list = field(default_factory=list)  # relative guards of the break statements met
    yields: "Coll | None" = None
    selfv: "V | None" = None


@dataclass(eq=False)
class _Mapped:
    """Loop variable of an iteration over map(fn, ..): the value is fn(element), computed once the element is bound."""

    fn: "V | str | None"
    inner: "V | _Mapped | None"
    index: "int | None" = None  # enumerate over a sequence whose elements are all known: the position


# --------------------------------------------------------------------------- the pattern filter, field by field


_REFLECTION = {"getattr", "vars", "astuple", "asdict", "fields", "replace", "__dict__", "setattr", "locals", "globals"}


def config_fields(ci: ClassInfo) -> "list[tuple[str, ast.expr | None]] | None":
    """The attributes of the configuration class in the order of its constructor arguments, with their defaults: annotated
    attributes of a dataclass-like class without `__init__`, or the parameters of an `__init__` that stores each of them in an
    attribute (`self.a = a`).  None: not that simple."""
    init = ci.methods.get("__init__")
    if init is None:
        out = []
        for st in ci.node.body:
            if isinstance(st, ast.AnnAssign) and isinstance(st.target, ast.Name) and "ClassVar" not in ast.unparse(st.annotation):
                out.append((st.target.id, st.value))
        return out or None
    a = init.node.args
    if a.vararg or a.kwarg or a.kwonlyargs or a.posonlyargs:
        return None
    params = [x.arg for x in a.args][1:]
    defaults = dict(zip(params[len(params) - len(a.defaults):], a.defaults)) if a.defaults else {}
    stored: dict[str, str] = {}
    for st in init.node.body:
        if isinstance(st, (ast.Assign, ast.AnnAssign)) and st.value is not None and isinstance(st.value, ast.Name) and st.value.id in params:
            for t in (st.targets if isinstance(st, ast.Assign) else [st.target]):
                if isinstance(t, ast.Attribute) and isinstance(t.value, ast.Name) and t.value.id == "self":
                    stored[st.value.id] = t.attr
    if set(stored) != set(params):
        return None
    return [(stored[p_], defaults.get(p_)) for p_ in params]


def filter_reads(ci: ClassInfo) -> "dict[str, frozenset] | None":
    """Which attributes of the configuration the public tests of the pattern filter depend on, method by method: data flow inside
    the class from `<config parameter>.<attribute>` into fields of `self` (through locals, loops, comprehensions) and from the
    fields into the methods that read them (through `self.helper()` calls; `@m.register` functions belong to `m`).  None when the
    class does something this summary does not follow (the configuration handed on as a whole, reflection, inheritance)."""
    if [b for b in ci.base_exprs if ast.unparse(b) not in ("object",)]:
        return None
    fns = [st for st in ci.node.body if isinstance(st, (ast.FunctionDef, ast.AsyncFunctionDef))]
    for n in ast.walk(ci.node):
        if isinstance(n, ast.Name) and n.id in _REFLECTION or isinstance(n, ast.Attribute) and n.attr in _REFLECTION:
            return None
    group: dict[int, str] = {}
    for fn in fns:
        g = fn.name
        for d in fn.decorator_list:
            if isinstance(d, ast.Call) and isinstance(d.func, ast.Attribute) and d.func.attr == "register" and isinstance(d.func.value, ast.Name):
                g = d.func.value.id
        group[id(fn)] = g
    init = next((fn for fn in fns if fn.name == "__init__"), None)
    if init is None or len(init.args.args) < 2:
        return None
    cfg = init.args.args[1].arg
    cfg_fields: set[str] = set()
    field_src: dict[str, set] = {}
    # the configuration parameter itself may only be read attribute by attribute, or stored in a field
    parents = {id(c): n for n in ast.walk(init) for c in ast.iter_child_nodes(n)}
    for n in ast.walk(init):
        if isinstance(n, ast.Name) and n.id == cfg and isinstance(n.ctx, ast.Load):
            par = parents.get(id(n))
            if isinstance(par, ast.Attribute) and par.value is n:
                continue
            if isinstance(par, (ast.Assign, ast.AnnAssign)) and par.value is n:
                ts = par.targets if isinstance(par, ast.Assign) else [par.target]
                if all(isinstance(t, ast.Attribute) and isinstance(t.value, ast.Name) and t.value.id == "self" for t in ts):
                    cfg_fields |= {t.attr for t in ts}
                    continue
            return None

    def attrs_of(e: ast.AST, env: dict, fn) -> set:
        out: set = set()
        for n in ast.walk(e):
            if isinstance(n, ast.Attribute) and isinstance(n.value, ast.Name) and n.value.id == cfg and fn is init:
                out.add(n.attr)
            elif isinstance(n, ast.Attribute) and isinstance(n.value, ast.Attribute) and isinstance(n.value.value, ast.Name) and n.value.value.id == "self" and n.value.attr in cfg_fields:
                out.add(n.attr)
            elif isinstance(n, ast.Attribute) and isinstance(n.value, ast.Name) and n.value.id == "self" and isinstance(n.ctx, ast.Load):
                out |= field_src.get(n.attr, set())
            elif isinstance(n, ast.Name) and isinstance(n.ctx, ast.Load):
                out |= env.get(n.id, set())
        return out

    def names_in(t: ast.AST) -> list:
        return [n.id for n in ast.walk(t) if isinstance(n, ast.Name)]

    for _round in range(4):
        before = {k_: set(v) for k_, v in field_src.items()}
        for fn in fns:
            env: dict = {}
            for _pass in range(2):
                for n in ast.walk(fn):
                    if isinstance(n, (ast.For, ast.AsyncFor, ast.comprehension)):
                        src = attrs_of(n.iter, env, fn)
                        for v in names_in(n.target):
                            env.setdefault(v, set()).update(src)
                    elif isinstance(n, (ast.Assign, ast.AnnAssign, ast.AugAssign, ast.NamedExpr)) and getattr(n, "value", None) is not None:
                        src = attrs_of(n.value, env, fn)
                        ts = n.targets if isinstance(n, ast.Assign) else [n.target]
                        for t in ts:
                            for x in ast.walk(t):
                                if isinstance(x, ast.Attribute) and isinstance(x.value, ast.Name) and x.value.id == "self" and isinstance(x.ctx, ast.Store):
                                    field_src.setdefault(x.attr, set()).update(src)
                                elif isinstance(x, ast.Name) and isinstance(x.ctx, ast.Store):
                                    env.setdefault(x.id, set()).update(src)
                                elif isinstance(x, ast.Subscript) and isinstance(x.ctx, ast.Store):
                                    for y in ast.walk(x.value):
                                        if isinstance(y, ast.Attribute) and isinstance(y.value, ast.Name) and y.value.id == "self":
                                            field_src.setdefault(y.attr, set()).update(src)
                                        elif isinstance(y, ast.Name):
                                            env.setdefault(y.id, set()).update(src)
                    elif isinstance(n, ast.Call) and isinstance(n.func, ast.Attribute) and n.func.attr in ("append", "extend", "add", "update", "insert", "setdefault", "appendleft", "extendleft"):
                        src = set()
                        for a_ in [*n.args, *[k_.value for k_ in n.keywords]]:
                            src |= attrs_of(a_, env, fn)
                        r = n.func.value
                        if isinstance(r, ast.Attribute) and isinstance(r.value, ast.Name) and r.value.id == "self":
                            field_src.setdefault(r.attr, set()).update(src)
                        elif isinstance(r, ast.Name):
                            env.setdefault(r.id, set()).update(src)
        if before == field_src:
            break
    direct: dict[str, set] = {}
    calls: dict[str, set] = {}
    for fn in fns:
        g = group[id(fn)]
        direct.setdefault(g, set()).update(attrs_of(fn, {}, fn) if fn is not init else set())
        for n in ast.walk(fn):
            if isinstance(n, ast.Call) and isinstance(n.func, ast.Attribute) and isinstance(n.func.value, ast.Name) and n.func.value.id == "self":
                calls.setdefault(g, set()).add(n.func.attr)
    reads = {g: set(v) for g, v in direct.items()}
    for _round in range(len(reads) + 1):
        for g, cs in calls.items():
            for c in cs:
                reads[g] |= reads.get(c, set())
    return {g: frozenset(v) for g, v in reads.items()}


# --------------------------------------------------------------------------- the interpreter


class Interp:
    CONCRETE_NAMES = ("aa", "aa.bb", "aa.bb.cc", "aa.bb.cc.dd")

    def __init__(self, repo: Repo, entry: FuncInfo, flag_params: set[str], ext_params: set[str], internal_fns: set[str], concrete: bool = False) -> None:
        self.concrete = concrete  # the imports are four concrete imports (of aa, aa.bb, aa.bb.cc, aa.bb.cc.dd) instead of a generic one
        self.conc_imports = [ConcImport(n) for n in self.CONCRETE_NAMES]
        self.cuts: list = []  # where a concrete name was cut (partition / split / slice ...)
        self.repo = repo
        self.entry = entry
        self.flag_params = flag_params
        self.ext_params = ext_params
        self.internal_fns = internal_fns
        self.frames: list[Formula] = []
        self.loops: list[Loop] = []
        self.stack: list[str] = []
        self.sinks: list[Sink] = []
        self.other_sinks: list = []  # constructions of other classes outside the scan package from two collections
        self.notes: list[str] = []
        self.atom_taint: dict[str, frozenset] = {}
        self.predicates: dict[str, FuncInfo] = {}  # collapsed pure predicates: atom prefix -> function
        self.predicate_names: dict[str, set] = {}
        self.int_args: list = []  # the further arguments (prefix) of the calls of the named internal test
        self.int_calls: list[tuple[FuncInfo, ast.AST]] = []
        self.visited: set[str] = set()
        self._module_frames: dict[str, Frame] = {}
        self._class_attrs: dict[tuple[str, str], V] = {}
        self._bound: dict = {}  # markers of variables bound by closures
        self.int_def: "Formula | None" = None  # what INT[x0] means in terms of other atoms about x0 (set by the rules)
        self._vocab: dict = {}  # summaries of the vocabulary classes (config_fields / filter_reads)
        self.ext_scans: list = []  # (function, call): a scanner built with a pattern filter that evaluates the external patterns
        self._run_conds: list[Formula] = []  # conditions attached to the element of the current run (filtering dict comprehension)

    # ------------------------------------------------------------------ helpers
    def note(self, text: str) -> None:
        if text not in self.notes:
            self.notes.append(text)

    def guard(self) -> Formula:
        return conj(self.frames)

    def rel_guard(self, fr: Frame) -> Formula:
        return conj(self.frames[fr.base:])

    @staticmethod
    def _norm_atom(name: str) -> str:
        """Atom names up to the element symbols (formulas are renamed from loop symbols to the symbol of a rule)."""
        return _SYM.sub("§", name)

    def free(self, name: str, taint: frozenset = frozenset()) -> Formula:
        if taint:
            k = self._norm_atom(name)
            self.atom_taint[k] = self.atom_taint.get(k, frozenset()) | taint
        return atom(name)

    def transparent_class(self, ci: ClassInfo) -> bool:
        m = ci.module.name
        if not m.startswith(SCAN_PKG):
            return False
        return m.rsplit(".", 1)[-1] not in VOCABULARY_MODULES

    def transparent_func(self, fi: FuncInfo) -> bool:
        if fi.cls is not None:
            if (fi.is_classmethod or fi.is_staticmethod) and fi.cls.name in ("FileFilter", "Config"):
                return True
            return self.transparent_class(fi.cls)
        m = fi.module.name
        if m.startswith(SCAN_PKG) and m.rsplit(".", 1)[-1] in VOCABULARY_MODULES:
            return False
        return True

    # ------------------------------------------------------------------ run
    def run(self) -> None:
        args = []
        for p in self.entry.param_names:
            if p in self.flag_params:
                args.append(Unknown(p, frozenset({"FLAG"}), False, flag=True))
            elif p in self.ext_params:
                args.append(Unknown(p, frozenset({"EXT"}), None, patterns=True))
            else:
                args.append(Unknown(p))
        self.call_function(self.entry, args, {}, None, None)

    def formula_of_predicate(self, fi: FuncInfo) -> "Formula | None":
        """Truth of `fi(<generic name x0>, <some prefix>)` with the body interpreted (also for the named internal test)."""
        lp = Loop("x0", Coll([Part("base", TRUE, base="src:names")]), None, fi)
        saved_loops, saved_int, saved_frames = self.loops, self.internal_fns, self.frames
        self.loops, self.internal_fns, self.frames = [lp], set(), []
        try:
            rest, kw = (self.int_args[0] if self.int_args else ([Unknown(p, maybe_none=False) for p in fi.param_names[1:]], {}))
            kw = {k: v for k, v in kw.items() if k != fi.param_names[0]}
            args = [Elem("x0", lp), *rest][: len(fi.param_names)]
            res = self.call_function(fi, args, kw, None, None)
            res = self.collapse_predicate(fi, Fn(fi), args, kw, res)
            return self.truth(res)
        except Exception:  # noqa: BLE001 - no definition then
            return None
        finally:
            lp.active = False
            self.loops, self.internal_fns, self.frames = saved_loops, saved_int, saved_frames

    # ------------------------------------------------------------------ calls
    def call_function(self, fi: FuncInfo, args: list, kwargs: dict, selfv: "V | None", closure: "dict | None", call: "ast.Call | None" = None, caller: "Frame | None" = None) -> V:
        concrete_rec = fi.fq in self.stack and self.stack.count(fi.fq) < 8 and len(self.stack) <= MAX_CALL_DEPTH + 8 and any(conc(a) is not _NOCONC and isinstance(conc(a), (str, tuple)) for a in [*args, *kwargs.values()])
        if (len(self.stack) > MAX_CALL_DEPTH or fi.fq in self.stack) and not concrete_rec:
            # what a recursive call computes is not known: it may depend on anything, in particular on the external options
            self.note(f"call of {fi.qualname} not followed (recursion / depth)")
            return Unknown(f"{fi.name}(..)", self._taints(args, kwargs) | {"EXT", "FLAG", "GAP"})
        if fi.is_abstract:
            return Unknown(f"{fi.name}(..)", self._taints(args, kwargs) | {"GAP"})
        a = fi.node.args
        env: dict = dict(closure or {})
        params = [p.arg for p in [*a.posonlyargs, *a.args]]
        values = list(args)
        if selfv is not None and not fi.is_staticmethod and fi.cls is not None and fi.outer is None:
            values = [selfv if not fi.is_classmethod else ClassRef(fi.cls), *values]
        if len(values) > len(params) and a.vararg is None:
            self.note(f"call of {fi.qualname}: too many positional arguments")
            return Unknown(f"{fi.name}(..)", self._taints(args, kwargs) | {"GAP"})
        for p, v in zip(params, values):
            env[p] = v
        if a.vararg is not None:
            env[a.vararg.arg] = TupleV(values[len(params):])
        all_names = [*params, *[p.arg for p in a.kwonlyargs]]
        for k, v in kwargs.items():
            if k in all_names:
                env[k] = v
            elif a.kwarg is None:
                self.note(f"call of {fi.qualname}: unknown keyword {k}")
        mf = self.module_frame(fi)
        pos_all = [*a.posonlyargs, *a.args]
        for p, d in zip(pos_all[len(pos_all) - len(a.defaults):], a.defaults):
            if p.arg not in env:
                env[p.arg] = self.ev(mf, d)
        for p, d in zip(a.kwonlyargs, a.kw_defaults):
            if p.arg not in env and d is not None:
                env[p.arg] = self.ev(mf, d)
        for p in [*pos_all, *a.kwonlyargs]:
            if p.arg not in env:
                env[p.arg] = Unknown(p.arg)
            env[p.arg] = self._refine_by_annotation(env[p.arg], p.annotation)
        fr = Frame(fi, env, len(self.frames), selfv=selfv)
        self.visited.add(fi.fq)
        if isinstance(fi.node, ast.Lambda):
            self.stack.append(fi.fq)
            try:
                return self.ev(fr, fi.node.body)
            finally:
                self.stack.pop()
        if any(isinstance(n, (ast.Yield, ast.YieldFrom)) for n in own_nodes(fi.node)):
            fr.yields = Coll(label=f"{fi.name}()")
        self.stack.append(fi.fq)
        try:
            self.exec_block(fr, fi.node.body)
        finally:
            self.stack.pop()
            del self.frames[fr.base:]
        if fr.yields is not None:
            return fr.yields
        res = self._merge_returns(fr)
        return self._refine_by_annotation(res, fi.node.returns)

    def _taints(self, args: list, kwargs: dict) -> frozenset:
        out: frozenset = frozenset()
        for v in [*args, *kwargs.values()]:
            out |= self.value_taint(v)
        return out

    @staticmethod
    def _refine_by_annotation(v: V, ann: "ast.expr | None") -> V:
        if ann is None or not isinstance(v, Unknown) or v.maybe_none is not None:
            return v
        txt = ast.unparse(ann)
        if isinstance(ann, ast.Constant) and isinstance(ann.value, str):
            txt = ann.value
        if "None" in txt or "Optional" in txt or "Any" in txt or txt in ("object",):
            return v
        return Unknown(v.text, v.taint, False, v.patterns, v.flag)

    def _merge_returns(self, fr: Frame) -> V:
        rets = fr.returns
        if not rets:
            return NoneV()
        if len(rets) == 1:
            return rets[0][1]
        vals = [v for _, v in rets]
        if all(isinstance(v, TupleV) for v in vals) and len({len(v.items) for v in vals}) == 1:
            cur = vals[-1]
            for g, v in reversed(rets[:-1]):
                cur = self.join_ite(g, v, cur)
            return cur
        if any(isinstance(v, BoolV) or (isinstance(v, Const) and isinstance(v.value, bool)) for v in vals) and not any(isinstance(v, (Coll, TupleV, Obj)) for v in vals):
            # a predicate: the truth of its result
            return BoolV(disj(conj([g, self.truth(v)]) for g, v in rets))
        if any(isinstance(v, Coll) for v in vals):
            out = Coll(label=f"{fr.fi.name}()")
            for g, v in rets:
                c = self.as_coll(v)
                out.parts += [replace(p, guard=conj([p.guard, g])) for p in c.parts]
                out.removals += c.removals
            return out
        cur = vals[-1]
        for g, v in reversed(rets[:-1]):
            cur = self.join_ite(g, v, cur)
        return cur

    def module_frame(self, fi: FuncInfo) -> Frame:
        m = fi.module.name
        if m not in self._module_frames:
            self._module_frames[m] = Frame(fi, {}, 0)
        fr = self._module_frames[m]
        fr.base = len(self.frames)
        return fr

    # ------------------------------------------------------------------ statements
    def exec_block(self, fr: Frame, stmts: list) -> Formula:
        pushed = 0
        ft: Formula = TRUE
        for s in stmts:
            if ft == FALSE:
                break
            r = self.exec_stmt(fr, s)
            if r != TRUE:
                self.frames.append(r)
                pushed += 1
                ft = conj([ft, r])
        for _ in range(pushed):
            self.frames.pop()
        return ft

    def exec_stmt(self, fr: Frame, s: ast.stmt) -> Formula:
        if isinstance(s, ast.Expr):
            if isinstance(s.value, ast.Constant):
                return TRUE
            self.ev(fr, s.value)
            return TRUE
        if isinstance(s, ast.Assign):
            v = self.ev(fr, s.value)
            for t in s.targets:
                self.assign(fr, t, v, s)
            return TRUE
        if isinstance(s, ast.AnnAssign):
            if s.value is not None:
                self.assign(fr, s.target, self.ev(fr, s.value), s)
            return TRUE
        if isinstance(s, ast.AugAssign):
            cur = self.ev(fr, self._as_load(s.target))
            val = self.ev(fr, s.value)
            if isinstance(cur, Coll) and isinstance(s.op, (ast.Add, ast.BitOr)):
                self.coll_extend(fr, cur, val, s)
                return TRUE
            if isinstance(cur, Coll) and isinstance(s.op, (ast.Sub, ast.BitAnd)):
                new = self.set_algebra(fr, cur, val, s.op, s)
                self.assign(fr, s.target, new, s)
                return TRUE
            cc, cv_ = conc(cur), conc(val)
            if cc is not _NOCONC and cv_ is not _NOCONC and cc is not None and cv_ is not None and isinstance(s.op, (ast.Add, ast.Sub)):
                try:
                    self.assign(fr, s.target, absv(cc + cv_ if isinstance(s.op, ast.Add) else cc - cv_), s)
                    return TRUE
                except Exception:  # noqa: BLE001
                    pass
            self.assign(fr, s.target, Unknown(f"({key(cur)} {type(s.op).__name__} {key(val)})", taint_of(cur) | taint_of(val), False), s)
            return TRUE
        if isinstance(s, ast.Return):
            v = self.ev(fr, s.value) if s.value is not None else NoneV()
            fr.returns.append((self.rel_guard(fr), v))
            return FALSE
        if isinstance(s, ast.If):
            return self.exec_if(fr, s)
        if isinstance(s, (ast.For, ast.AsyncFor)):
            return self.exec_for(fr, s)
        if isinstance(s, ast.While):
            return self.exec_while(fr, s)
        if isinstance(s, (ast.Continue, ast.Break)):
            if isinstance(s, ast.Break) and self.loops:
                # (a run for one known element of a written-out sequence is exact: what follows a conditional break runs under
                # its negation, later runs under "no break so far" - nothing is lost; a generic element cannot say "the rest")
                if not getattr(self.loops[-1], "exact_run", False):
                    self.loops[-1].broken = True
                fr.breaks.append(self.rel_guard(fr))
            return FALSE
        if isinstance(s, ast.Raise):
            return FALSE
        if isinstance(s, (ast.Pass, ast.Import, ast.ImportFrom, ast.Global, ast.Nonlocal, ast.Assert, ast.Delete)):
            return TRUE
        if isinstance(s, (ast.FunctionDef, ast.AsyncFunctionDef)):
            nf = getattr(s, "_func", None)
            if nf is not None:
                fr.env[s.name] = Fn(nf, None, fr.env)
            return TRUE
        if isinstance(s, (ast.With, ast.AsyncWith)):
            for it in s.items:
                v = self.ev(fr, it.context_expr)
                if it.optional_vars is not None:
                    self.assign(fr, it.optional_vars, v, s)
            return self.exec_block(fr, s.body)
        if isinstance(s, ast.Try) and len(s.handlers) == 1 and s.handlers[0].type is not None and norm(s.handlers[0].type) in ("KeyError", "LookupError") and not s.orelse and not s.finalbody and any(isinstance(n, ast.Subscript) and isinstance(n.ctx, ast.Load) for st in s.body for n in ast.walk(st)):
            # `try: return table[k]  except KeyError: v = f(k); table[k] = v; return v`: a look-up with a fallback.  The fallback
            # runs first (under "missing") so that what it stores is what the look-up finds.
            miss = self.free(f"MISSING[{norm(s.body[0], 40)}@{s.lineno}]")
            return self.branch(fr, miss, s.handlers[0].body, s.body)
        if isinstance(s, ast.Try):
            ft = self.exec_block(fr, s.body)
            if ft != FALSE:
                self.frames.append(ft)
                try:
                    ft = conj([ft, self.exec_block(fr, s.orelse)])
                finally:
                    self.frames.pop()
            if s.handlers:
                # exceptional paths are not part of the property (what the architecture contains when the scan succeeds)
                self.note(f"{fr.fi.qualname}: exception handlers are not interpreted (only the path on which nothing is raised)")
            if s.finalbody:
                self.exec_block(fr, s.finalbody)
            return ft
        if isinstance(s, ast.Match):
            return self.exec_match(fr, s)
        if isinstance(s, ast.ClassDef):
            return TRUE
        self.note(f"{fr.fi.qualname}: statement {type(s).__name__} not interpreted")
        return TRUE

    @staticmethod
    def _as_load(t: ast.expr) -> ast.expr:
        if isinstance(t, ast.Name):
            n = ast.Name(id=t.id, ctx=ast.Load())
        elif isinstance(t, ast.Attribute):
            n = ast.Attribute(value=t.value, attr=t.attr, ctx=ast.Load())
        elif isinstance(t, ast.Subscript):
            n = ast.Subscript(value=t.value, slice=t.slice, ctx=ast.Load())
        else:
            return t
        return ast.copy_location(n, t)

    def exec_if(self, fr: Frame, s: ast.If) -> Formula:
        c = self.bf(fr, s.test)
        return self.branch(fr, c, s.body, s.orelse)

    def exec_match(self, fr: Frame, s: ast.Match) -> Formula:
        """A match statement is a chain of branches whose conditions the model does not know (free atoms with the subject's taint)."""
        subject = self.ev(fr, s.subject)
        t = self.value_taint(subject)

        def chain(i: int) -> Formula:
            if i == len(s.cases):
                return TRUE
            case = s.cases[i]
            c = self.match_pattern(fr, subject, case.pattern)
            if c is None:
                c = self.free(f"CASE[{key(subject)}:{norm(case.pattern, 30)}@{s.lineno}]", t | {"GAP"})
                for n in ast.walk(case.pattern):
                    nm = getattr(n, "name", None)
                    if isinstance(nm, str):
                        fr.env[nm] = Unknown(f"{key(subject)}~{nm}", taint_of(subject))
            if case.guard is not None:
                c = conj([c, self.bf(fr, case.guard)])
            return self.branch(fr, c, case.body, lambda: chain(i + 1))

        return chain(0)

    def match_pattern(self, fr: Frame, v: V, p: ast.pattern) -> "Formula | None":
        """Condition under which the value matches the pattern (literals, True / False / None, wildcards and captures, fixed-length
        sequences over a tuple, alternatives); None if the model cannot tell."""
        if isinstance(p, ast.MatchAs):
            inner = TRUE if p.pattern is None else self.match_pattern(fr, v, p.pattern)
            if inner is not None and p.name:
                fr.env[p.name] = v
            return inner
        if isinstance(p, ast.MatchOr):
            parts = [self.match_pattern(fr, v, q) for q in p.patterns]
            return None if any(x is None for x in parts) else disj(parts)
        if isinstance(p, ast.MatchSingleton):
            if p.value is None:
                return self.isnone(v)
            if isinstance(v, (BoolV, Const)) or (isinstance(v, Unknown) and (v.flag or v.patterns)):
                return self.truth(v) if p.value is True else f_not(self.truth(v))
            return None
        if isinstance(p, ast.MatchValue):
            if isinstance(p.value, ast.Constant):
                if isinstance(v, Const):
                    return TRUE if v.value == p.value.value else FALSE
                if isinstance(p.value.value, bool) and isinstance(v, BoolV):
                    return v.f if p.value.value else f_not(v.f)
                return self.free(f"EQ[{key(v)},{p.value.value!r}]", self.value_taint(v))
            return None
        if isinstance(p, ast.MatchSequence) and isinstance(v, TupleV) and not any(isinstance(q, ast.MatchStar) for q in p.patterns):
            if len(p.patterns) != len(v.items):
                return FALSE
            parts = [self.match_pattern(fr, x, q) for x, q in zip(v.items, p.patterns)]
            return None if any(x is None for x in parts) else conj(parts)
        return None

    def branch(self, fr: Frame, c: Formula, body, orelse) -> Formula:
        """Executes `body` under c and `orelse` under not c (statement lists or callables) and merges the bindings."""

        def run(blk) -> Formula:
            return blk() if callable(blk) else self.exec_block(fr, blk)

        def kinds(blk) -> set:
            return {"fall", "continue", "break"} if callable(blk) else _exit_kinds(blk)

        if c == TRUE:
            return run(body)
        if c == FALSE:
            return run(orelse)
        env0 = fr.env
        fr.env = dict(env0)
        self.frames.append(c)
        try:
            ft1 = run(body)
        finally:
            self.frames.pop()
        env1 = fr.env
        fr.env = dict(env0)
        nc = f_not(c)
        self.frames.append(nc)
        try:
            ft2 = run(orelse)
        finally:
            self.frames.pop()
        env2 = fr.env
        # a branch that ends in continue / break still hands its bindings on (to the next iteration / to the code after the
        # loop): only return / raise make them irrelevant
        gone1 = ft1 == FALSE and not (kinds(body) & {"continue", "break"})
        gone2 = ft2 == FALSE and not (kinds(orelse) & {"continue", "break"})
        if gone1 and gone2:
            fr.env = env0
            return FALSE
        if gone1:
            fr.env = env2
        elif gone2:
            fr.env = env1
        else:
            merged = {}
            for k in {*env1, *env2}:
                v1, v2 = env1.get(k), env2.get(k)
                if v1 is None or v2 is None:
                    merged[k] = v1 if v2 is None else v2
                elif v1 is v2:
                    merged[k] = v1
                else:
                    merged[k] = self.join_ite(c, v1, v2)
            fr.env = merged
        return disj([conj([c, ft1]), conj([nc, ft2])])

    def sat(self, f: Formula) -> bool:
        if f == FALSE:
            return False
        if f == TRUE:
            return True
        names = atoms_of(f)
        if len(names) > MAX_ATOMS:
            return True
        return any(evaluate(f, env) for env in assignments(names))

    def mk_alt(self, pairs: list) -> V:
        flat: list = []
        for g, v in pairs:
            if isinstance(v, AltV):
                flat += [(conj([g, h]), x) for h, x in v.alts]
            else:
                flat.append((g, v))
        cur = self.guard()
        out: list = []
        for g, v in flat:
            if g == FALSE or not self.sat(conj([cur, g])):
                continue
            for i, (h, x) in enumerate(out):
                if x is v:
                    out[i] = (disj([h, g]), x)
                    break
            else:
                out.append((g, v))
        if not out:
            return Unknown("<no value>", frozenset({"GAP"}))
        if len(out) == 1:
            return out[0][1]
        return AltV(out)

    def live(self, v: V) -> list:
        """The alternatives of a value that are possible under the current path condition."""
        if not isinstance(v, AltV):
            return [(TRUE, v)]
        cur = self.guard()
        out = [(g, x) for g, x in v.alts if self.sat(conj([cur, g]))]
        return out or [(TRUE, Unknown("<no value>", frozenset({"GAP"})))]

    def distribute(self, v: V, fn: Callable[[V], V]) -> V:
        alts = self.live(v)
        if len(alts) == 1:
            return fn(alts[0][1])
        res = []
        for g, x in alts:
            self.frames.append(g)
            try:
                res.append((g, fn(x)))
            finally:
                self.frames.pop()
        cur = res[-1][1]
        for g, r in reversed(res[:-1]):
            cur = self.join_ite(g, r, cur)
        return cur

    def join_ite(self, c: Formula, v1: V, v2: V) -> V:
        if v1 is v2:
            return v1
        if isinstance(v1, TupleV) and isinstance(v2, TupleV) and len(v1.items) == len(v2.items):
            return TupleV([self.join_ite(c, a, b) for a, b in zip(v1.items, v2.items)])
        if (isinstance(v1, AltV) and all(isinstance(x, (Const, NoneV)) for _g, x in v1.alts) and isinstance(v2, (Const, NoneV, AltV))) or (isinstance(v2, AltV) and all(isinstance(x, (Const, NoneV)) for _g, x in v2.alts) and isinstance(v1, (Const, NoneV))):
            return self.mk_alt([(c, v1), (f_not(c), v2)])
        if isinstance(v1, AltV) or isinstance(v2, AltV) or any(isinstance(x, (Fn, Obj, ClassRef, Opaque, BoundAPI, SuperRef, MapV, EnumV, DictV, DictCompV, PartialV)) for x in (v1, v2)):
            if not (isinstance(v1, Coll) or isinstance(v2, Coll)):
                return self.mk_alt([(c, v1), (f_not(c), v2)])
        if isinstance(v1, Coll) or isinstance(v2, Coll):
            if isinstance(v1, (Coll, NoneV, TupleV)) and isinstance(v2, (Coll, NoneV, TupleV)):
                a, b = self.as_coll(v1), self.as_coll(v2)
                out = Coll(label=a.label or b.label)
                out.parts = [replace(p, guard=conj([p.guard, c])) for p in a.parts] + [replace(p, guard=conj([p.guard, f_not(c)])) for p in b.parts]
                out.removals = a.removals + b.removals
                return out
            if isinstance(v1, Unknown) or isinstance(v2, Unknown):
                a, b = self.as_coll(v1), self.as_coll(v2)
                out = Coll(label=a.label or b.label)
                out.parts = [replace(p, guard=conj([p.guard, c])) for p in a.parts] + [replace(p, guard=conj([p.guard, f_not(c)])) for p in b.parts]
                out.removals = a.removals + b.removals
                return out
        bools = (BoolV,)
        if isinstance(v1, bools) or isinstance(v2, bools) or (isinstance(v1, Const) and isinstance(v1.value, bool) and isinstance(v2, Const) and isinstance(v2.value, bool)):
            return BoolV(disj([conj([c, self.truth(v1)]), conj([f_not(c), self.truth(v2)])]))
        if isinstance(v1, Const) and isinstance(v2, Const) and v1.value == v2.value:
            return v1
        if isinstance(v1, NoneV) and isinstance(v2, NoneV):
            return v1
        if isinstance(v1, (Const, NoneV)) and isinstance(v2, (Const, NoneV)):
            return self.mk_alt([(c, v1), (f_not(c), v2)])  # mode constants chosen by the options
        for a, b in ((v1, v2), (v2, v1)):
            if isinstance(a, (Unknown, Opaque)) and a.taint & {"FLAG", "EXT"} and isinstance(b, (Const, NoneV, Unknown)) and not taint_of(b) - a.taint:
                if isinstance(a, Unknown):
                    mn = a.maybe_none if not isinstance(b, NoneV) else True
                    if isinstance(b, Const):
                        mn = False if a.maybe_none is False else a.maybe_none
                    return Unknown(a.text, a.taint, mn, a.patterns, a.flag)
                return a
        mn1, mn2 = maybe_none(v1), maybe_none(v2)
        mn = True if (mn1 or mn2) else (False if (mn1 is False and mn2 is False) else None)
        out_ = Unknown(f"ite({key(v1)},{key(v2)})", taint_of(v1) | taint_of(v2), mn)
        for a, b in ((v1, v2), (v2, v1)):
            if self._is_pattern_tuple(a) and (isinstance(b, NoneV) or (isinstance(b, TupleV) and not b.items) or self._is_pattern_tuple(b)):
                out_._pattern_tuple = True  # type: ignore[attr-defined]  # (`() if patterns is None else patterns`: still the pattern tuple)
        return out_

    # ------------------------------------------------------------------ loops
    def iteration_plan(self, fr: Frame, src: V, node: ast.AST) -> list:
        """Runs of a loop body: (value or None for a generic element, extra guard, loop for a generic element or None, closure key)."""
        if isinstance(src, TupleV):
            return [(it, TRUE, None, None) for it in src.items]
        if isinstance(src, MapV):
            runs = []
            for value, g, lp, ckey in self.iteration_plan(fr, src.src, node):
                runs.append((_Mapped(src.fn, value), g, lp, ckey))
            return runs
        if isinstance(src, EnumV):
            inner = self.iteration_plan(fr, src.src, node)
            # (concrete runs) a sequence written out element by element under one condition: the positions are known
            exact = self.concrete and not src.grouped and src.start is not None and bool(inner) and all(lp is None and ckey is None and g == inner[0][1] for _v, g, lp, ckey in inner) and self._sequence_items(src.src) is not None
            return [(_Mapped("groupby" if src.grouped else None, value, (src.start + i) if exact else None), g, lp, ckey) for i, (value, g, lp, ckey) in enumerate(inner)]
        if isinstance(src, DictCompV):
            gen = src.node.generators[0]
            saved_env = src.fr.env
            src.fr.env = dict(src.env)
            try:
                inner_src = self.ev(src.fr, gen.iter)
            finally:
                src.fr.env = saved_env
            return [(_Mapped(src, value), g, lp, ckey) for value, g, lp, ckey in self.iteration_plan(fr, inner_src, node)]
        c = self.as_coll(src)
        if not c.parts:
            return []  # nothing was ever put into it: no run at all (`chain((), parents)` of a top-level name)
        runs: list = []
        generic: list[Part] = []
        for p in c.parts:
            lp = p.loop if p.kind == "adds" and p.loop is not None and p.loop.active and any(l is p.loop for l in self.loops) else None
            # (whether an element of a part the model only knows partially - a slice, a loop left by break - is there at all
            # is an open fact)
            pg = p.guard if not p.partial else conj([p.guard, self.free(f"PRESENT[{p.what or p.kind}@{getattr(p.node, 'lineno', 0)}]", frozenset({"GAP"}))])
            if p.kind == "adds" and lp is not None:
                e = Elem(p.sym, lp)
                name = Importee(e) if p.items and p.items[0] == "import" else e
                if p.what == "self":
                    runs.append((name, pg, None, None))
                else:
                    a = Anc(name)
                    runs.append((a, pg, None, key(a)))
            elif p.kind == "lit" and len(p.items) <= 6:
                for it in p.items:
                    runs.append((it, pg, None, None))
            else:
                generic.append(p)
        if generic or not runs:
            # elements that are values derived from the element of another loop (records, lineages) are iterated per kind of
            # value: the collection is the union of these groups
            groups: list[tuple[object, list[Part]]] = []
            for p in generic:
                if p.kind == "filter" and p.template:
                    sig: object = ("record", id(p.template[1])) if p.template[0] == "record" else ("lineage", tuple((q.what, q.items, id(q.node)) for q in p.template))
                else:
                    sig = None
                for g_sig, members in groups:
                    if g_sig == sig:
                        members.append(p)
                        break
                else:
                    groups.append((sig, [p]))
            if not groups:
                groups = [(None, [])]
            depth = len(self.loops)
            for sig, members in groups:
                lp = Loop(f"x{depth}", Coll(members, list(c.removals), c.label), node, fr.fi)
                rg: Formula = TRUE
                if sig is not None:
                    lp.template = members[0].template  # type: ignore[attr-defined]
                    lp.template_loop = members[0].loop  # type: ignore[attr-defined]
                    # a value of this kind exists for an element exactly under the conditions of its parts
                    rg = disj(rename_sym(q.guard, q.sym, lp.sym) for q in members)
                runs.append((None, rg, lp, lp.sym))
        return runs

    def exec_for(self, fr: Frame, s: ast.For) -> Formula:
        src = self.ev(fr, s.iter)
        exits: list[Formula] = []  # per run: no return / no break happened in it (later runs and the code after run under these)
        broke: list[Formula] = []
        pushed = 0
        for value, g, lp, ckey in self.iteration_plan(fr, src, s):
            before, before_b = len(fr.returns), len(fr.breaks)
            self.frames.append(g)
            saved = self.loops
            if lp is not None:
                self.loops = [*self.loops, lp]
            else:
                marker = Loop(f"u{len(self.loops)}", Coll(), s, fr.fi)
                marker.exact_run = self.concrete and ckey is None and not isinstance(value, _Mapped) or (self.concrete and ckey is None and isinstance(value, _Mapped) and value.index is not None)  # type: ignore[attr-defined]
                self.loops = [*self.loops, marker]
            flags = self._flags_before(fr, s.body) if ckey is not None else {}
            try:
                value = self.loop_value(fr, value, lp, s)
                self.frames[-1] = conj([self.frames[-1], self.take_run_conds()])  # the run's own guard frame (pushed above)
                self.assign(fr, s.target, value, s)
                self.exec_block(fr, s.body)
            finally:
                cur = self.loops[-1]
                cur.active = False
                self.loops = saved
                self.frames.pop()
            if flags:
                self._flags_after(fr, flags, ckey, g)
            if cur.broken and lp is not None:
                self._mark_partial(lp)
            run_exits = []
            for i in range(before, len(fr.returns)):
                rg, rv = fr.returns[i]
                if ckey is not None:
                    rg = self.exists(rg, ckey)
                fr.returns[i] = (rg, rv)
                run_exits.append(rg)
            run_breaks = [self.exists(bg, ckey) if ckey is not None else bg for bg in fr.breaks[before_b:]]
            del fr.breaks[before_b:]
            broke += run_breaks
            if run_exits or run_breaks:
                # (the relative guards contain the frames of this function below the loop as well: harmless duplicates)
                ex = f_not(disj([*run_exits, *run_breaks]))
                self.frames.append(ex)
                pushed += 1
            if run_exits:
                exits.append(f_not(disj(run_exits)))
        for _ in range(pushed):
            self.frames.pop()
        cont = conj(exits)
        if s.orelse:
            # the else block runs when the loop was not left by break; after a break control continues behind it
            no_break = f_not(disj(broke))
            self.frames.append(conj([cont, no_break]))
            try:
                ft_else = self.exec_block(fr, s.orelse)
            finally:
                self.frames.pop()
            cont = conj([cont, disj([disj(broke), conj([no_break, ft_else])])])
        return cont

    def _flags_before(self, fr: Frame, body: list) -> dict:
        """Boolean variables assigned in the body are replaced by placeholders while the body runs for the generic element, so that
        the effect of one iteration on them can be read off afterwards (`found = False; for x in xs: if p(x): found = True`)."""
        flags = {}
        assigned = {n.id for st in body for n in ast.walk(st) if isinstance(n, ast.Name) and isinstance(n.ctx, ast.Store)}
        for name, v in list(fr.env.items()):
            if name not in assigned:
                continue
            if isinstance(v, BoolV) or (isinstance(v, Const) and isinstance(v.value, bool)):
                ph = f"§{name}§{len(self.loops)}"
                flags[name] = (v, ph)
                fr.env[name] = BoolV(atom(ph))
        return flags

    def _flags_after(self, fr: Frame, flags: dict, var: str, run_guard: Formula) -> None:
        for name, (old, ph) in flags.items():
            cur = fr.env.get(name)
            b0 = self.truth(old)
            if isinstance(cur, BoolV) and cur.f == atom(ph):
                fr.env[name] = old
                continue
            if cur is None or not (isinstance(cur, BoolV) or (isinstance(cur, Const) and isinstance(cur.value, bool))):
                continue  # re-bound to something else: keep
            t = self.truth(cur)
            t1, t0 = subst_atom(t, ph, TRUE), subst_atom(t, ph, FALSE)
            b = atom(ph)
            if valid(t, disj([b, t0])) and valid(disj([b, t0]), t):
                # the body can only switch the flag on: on after the loop iff it was on or some element switches it on
                fr.env[name] = BoolV(disj([b0, self.exists(conj([run_guard, t0]), var)]))
            elif valid(t, conj([b, t1])) and valid(conj([b, t1]), t):
                # the body can only switch it off
                fr.env[name] = BoolV(conj([b0, f_not(self.exists(conj([run_guard, f_not(t1)]), var))]))
            else:
                self.note(f"{fr.fi.qualname}: `{name}` is re-assigned in a loop in a way that is not a flag; its value after the loop is unknown")
                taint: frozenset = frozenset()
                for a in atoms_of(t):
                    taint |= self.taint_of_atom(a)
                fr.env[name] = Unknown(f"{name}@loop", taint | {"GAP"})

    def take_run_conds(self) -> Formula:
        f = conj(self._run_conds)
        self._run_conds = []
        return f

    def loop_value(self, fr: Frame, value, lp: "Loop | None", node: ast.AST) -> V:
        """The value bound to the loop variable of one run of `iteration_plan` (conditions on the element: `take_run_conds`)."""
        if isinstance(value, _Mapped):
            inner = self.loop_value(fr, value.inner, lp, node)
            if value.fn == "groupby":
                return TupleV([inner, Unknown(f"group@{getattr(node, 'lineno', 0)}", maybe_none=False)])
            if value.fn is None:  # enumerate
                idx = Unknown(f"index@{getattr(node, 'lineno', 0)}", maybe_none=False) if value.index is None else Const(value.index)
                idx._elem = inner  # type: ignore[attr-defined]
                return TupleV([idx, inner])
            if isinstance(value.fn, DictCompV):
                d = value.fn
                gen = d.node.generators[0]
                saved_env = d.fr.env
                d.fr.env = dict(d.env)
                try:
                    self.assign(d.fr, gen.target, inner, d.node)
                    self._run_conds += [self.bf(d.fr, c) for c in gen.ifs]
                    k = self.ev(d.fr, d.node.key) if d.mode in ("keys", "items") else None
                    v = self.ev(d.fr, d.node.value) if d.mode in ("values", "items") else None
                finally:
                    d.fr.env = saved_env
                return k if d.mode == "keys" else (v if d.mode == "values" else TupleV([k, v]))
            return self.apply(fr, value.fn, [inner], node)
        if value is None:
            assert lp is not None
            tpl = getattr(lp, "template", None)
            if tpl and tpl[0] == "record":
                return self.instantiate(tpl[1], lp.template_loop, lp)  # type: ignore[attr-defined]
            if tpl:
                # the elements are collections derived from an element: the template instantiated for the generic element
                old = tpl[0].sym
                g = self.guard()
                return Coll([replace(q, guard=g, sym=lp.sym, src=lp.src, loop=lp, partial=False) if old == lp.sym or True else q for q in tpl], label="lineage")
            return Elem(lp.sym, lp)
        return value

    def apply(self, fr: Frame, f: V, args: list, node: ast.AST) -> V:
        call = node if isinstance(node, ast.Call) else ast.copy_location(ast.Call(func=ast.Name(id="<fn>", ctx=ast.Load()), args=[], keywords=[]), node)
        return self.call_value(fr, f, args, {}, call)

    def exec_while(self, fr: Frame, s: ast.While) -> Formula:
        """`while work: x = work.pop() ...` is a loop over the elements of the work list; any other while loop is executed once and
        everything it builds is marked as not understood."""
        test = s.test
        work = None
        it_loop = self._iterator_loop(fr, s)
        if it_loop is not None:
            return self.exec_for(fr, it_loop)
        if isinstance(test, (ast.Name, ast.Attribute)):
            w = self.ev(fr, test)
            if isinstance(w, Coll) or (isinstance(w, Unknown) and (hasattr(w, "_coll") or w.taint & {"PARSED", "CONVERTED"})):
                work = self.as_coll(w)
        if work is None:
            done = self._concrete_while(fr, s)
            if done is not None:
                return done
        depth = len(self.loops)
        if work is not None:
            lp = Loop(f"x{depth}", work.snapshot(), s, fr.fi)
            lp.worklist = work  # type: ignore[attr-defined]
            n_before = len(work.parts)
        else:
            self.note(f"{fr.fi.qualname}: `while {norm(s.test, 40)}` is not a work-list loop: what it builds is not modelled")
            lp = Loop(f"w{depth}", Coll(), s, fr.fi)
            lp.broken = True
            self.frames.append(self.bf(fr, s.test))
        saved = self.loops
        self.loops = [*self.loops, lp]
        before = len(fr.returns)
        try:
            self.exec_block(fr, s.body)
        finally:
            lp.active = False
            self.loops = saved
            if work is None:
                self.frames.pop()
        if work is not None and len(work.parts) != n_before:
            self.note(f"{fr.fi.qualname}: the work list of `while {norm(s.test, 30)}` grows inside the loop: pushed elements are not followed")
            for i in range(n_before, len(work.parts)):
                work.parts[i] = replace(work.parts[i], partial=True)
        exits = []
        for i in range(before, len(fr.returns)):
            rg, rv = fr.returns[i]
            rg = self.exists(rg, lp.sym)
            fr.returns[i] = (rg, rv)
            exits.append(rg)
        return f_not(disj(exits)) if exits else TRUE

    def _concrete_while(self, fr: Frame, s: ast.While) -> "Formula | None":
        """A while loop whose test is decided by constants in every round (a walk up a concrete dotted name) is carried out round
        by round; None if the test is not constant (then nothing has been executed)."""
        if self.bf(fr, s.test) not in (TRUE, FALSE):
            return None
        marker = Loop(f"u{len(self.loops)}", Coll(), s, fr.fi)
        saved = self.loops
        self.loops = [*self.loops, marker]
        pushed = 0
        exhausted = True
        cont: Formula = TRUE  # condition under which the current round is reached (no return / break so far)
        exits: list[Formula] = []  # conditions under which control leaves the loop and goes on behind it
        try:
            for _round in range(12):
                c = self.bf(fr, s.test)
                if c == FALSE:
                    exhausted = False
                    exits.append(cont)
                    break
                if c != TRUE:
                    self.note(f"{fr.fi.qualname}: the test of `while {norm(s.test, 40)}` stops being constant: the remaining rounds are not modelled")
                    marker.broken = True
                    exhausted = False
                    exits.append(cont)
                    break
                before_b = len(fr.breaks)
                ft = self.exec_block(fr, s.body)
                brk = disj(fr.breaks[before_b:])
                del fr.breaks[before_b:]
                marker.broken = False  # a break in a concrete round is a path condition, not an imprecision
                if brk != FALSE:
                    exits.append(conj([cont, brk]))
                go_on = conj([ft, f_not(brk)]) if brk != FALSE else ft
                if go_on == FALSE:
                    exhausted = False
                    break
                if go_on != TRUE:
                    self.frames.append(go_on)
                    pushed += 1
                    cont = conj([cont, go_on])
                if pushed > 6 or len(atoms_of(self.guard())) > 14:
                    break  # rounds that each add an open condition: no progress towards a constant test
            if exhausted:
                self.note(f"{fr.fi.qualname}: `while {norm(s.test, 40)}` does not end within 12 rounds on a concrete name")
                marker.broken = True
                exits.append(cont)
        finally:
            marker.active = False
            self.loops = saved
            del self.frames[len(self.frames) - pushed:]
        return disj(exits)

    def _iterator_loop(self, fr: Frame, s: ast.While) -> "ast.For | None":
        """`while True: try: x = next(it) except StopIteration: break; <rest>`  is  `for x in it: <rest>`."""
        if not (isinstance(s.test, ast.Constant) and s.test.value is True and s.body and isinstance(s.body[0], ast.Try) and not s.orelse):
            return None
        t = s.body[0]
        if not (len(t.body) == 1 and isinstance(t.body[0], ast.Assign) and len(t.body[0].targets) == 1 and not t.orelse and not t.finalbody and len(t.handlers) == 1):
            return None
        call = t.body[0].value
        h = t.handlers[0]
        if not (isinstance(call, ast.Call) and isinstance(call.func, ast.Name) and call.func.id == "next" and len(call.args) == 1 and not call.keywords):
            return None
        if not (h.type is not None and norm(h.type) == "StopIteration" and len(h.body) == 1 and isinstance(h.body[0], ast.Break)):
            return None
        loop = ast.For(target=t.body[0].targets[0], iter=call.args[0], body=s.body[1:] or [ast.Pass()], orelse=[], type_comment=None)
        ast.copy_location(loop, s)
        ast.fix_missing_locations(loop)
        return loop

    def _mark_partial(self, lp: Loop) -> None:
        self.note(f"loop `{norm(lp.node, 50) if lp.node is not None else lp.sym}` is left by break: elements after the break are not processed")
        lp.broken = True

    def simplify_under(self, f: Formula, ctx: Formula) -> Formula:
        """`f` with the atoms decided by the context replaced by their value."""
        shared = atoms_of(f) & atoms_of(ctx)
        if not shared or len(atoms_of(ctx)) > MAX_ATOMS:
            return f
        for a in sorted(shared):
            if valid(ctx, atom(a)):
                f = subst_atom(f, a, TRUE)
            elif valid(ctx, f_not(atom(a))):
                f = subst_atom(f, a, FALSE)
        return f

    def exists(self, g: Formula, var: str) -> Formula:
        def depends(a: str) -> bool:
            # (an atom that is itself a closure over the ancestor variable does not depend on it any more)
            return mentions(a, var) and not (var.startswith("anc:") and a[:1] in "∃∀")

        dep = sorted(a for a in atoms_of(g) if depends(a))
        if not dep:
            return g
        if len(dep) > 1:
            g = self.simplify_under(g, self.guard())
            dep = sorted(a for a in atoms_of(g) if depends(a))
            if not dep:
                return g
        if len(dep) == 1:
            a = dep[0]
            g1, g0 = subst_atom(g, a, TRUE), subst_atom(g, a, FALSE)
            if valid(g0, g1):
                return subst_atom(g, a, self._closure_atom("∃", a, var))
            if valid(g1, g0):
                return subst_atom(g, a, self._closure_atom("∀", a, var))
        # general case: split off the conjuncts that do not depend on the variable
        if g[0] == "and":
            indep = [h for h in g[1] if not any(depends(a) for a in atoms_of(h))]
            depc = [h for h in g[1] if h not in indep]
            if indep:
                return conj([*indep, self.exists(conj(depc), var)])
        name = f"∃{var}.{show(g)}"
        if not var.startswith("anc:"):
            k = (var, name)
            if k not in self._bound:
                self._bound[k] = f"•{len(self._bound) + 1}"
            name = re.sub(r"(?<![A-Za-z0-9_:])" + re.escape(var) + r"(?![A-Za-z0-9_])", self._bound[k], name)
        t: frozenset = frozenset({"GAP"})  # the quantifier structure is not resolved
        for a in dep:
            t |= self.taint_of_atom(a)
        return self.free(name, t)

    def _closure_atom(self, q: str, a: str, var: str = "") -> Formula:
        """`∃A[..var..]`: the variable bound by the closure is not the element symbol of anything any more - an element symbol
        (not the ancestor variable `anc:x`, whose x stays free) is replaced by a marker, so that renaming the element of a part
        leaves the closed fact alone."""
        t = self.taint_of_atom(a)
        if var and not var.startswith("anc:"):
            k = (var, a)
            if k not in self._bound:
                self._bound[k] = f"•{len(self._bound) + 1}"
            a = re.sub(r"(?<![A-Za-z0-9_:])" + re.escape(var) + r"(?![A-Za-z0-9_])", self._bound[k], a)
        return self.free(q + a, t)

    def taint_of_atom(self, a: str) -> frozenset:
        t = self.atom_taint.get(self._norm_atom(a), frozenset())
        if a == "FLAG":
            t |= {"FLAG"}
        if a == "HAS" or "EXCL[" in a:
            t |= {"EXT"}
        if a.startswith(("∃", "∀")):
            na = self._norm_atom(a)
            for name, tt in self.atom_taint.items():
                if name != na and name in na:
                    t |= tt
            if "FLAG" in re.findall(r"\bFLAG\b", a):
                t |= {"FLAG"}
            if re.search(r"\bHAS\b", a):
                t |= {"EXT"}
        return t

    def value_taint(self, v: V) -> frozenset:
        """Taint of a value including the taint of the atoms of a truth value."""
        if isinstance(v, BoolV):
            t: frozenset = frozenset()
            for a in atoms_of(v.f):
                t |= self.taint_of_atom(a)
            return t
        if isinstance(v, Coll):
            t = frozenset()
            for p in v.parts:
                for a in atoms_of(p.guard):
                    t |= self.taint_of_atom(a)
            return t
        if isinstance(v, TupleV):
            t = frozenset()
            for i in v.items:
                t |= self.value_taint(i)
            return t
        if isinstance(v, AltV):
            t = frozenset()
            for g, x in v.alts:
                t |= self.value_taint(x)
                for a in atoms_of(g):
                    t |= self.taint_of_atom(a)
            return t
        return taint_of(v)

    # ------------------------------------------------------------------ assignment
    def assign(self, fr: Frame, target: ast.expr, v: V, stmt: ast.AST) -> None:
        if isinstance(target, ast.Name):
            if isinstance(v, Coll) and not v.label:
                v.label = target.id
            fr.env[target.id] = v
        elif isinstance(target, (ast.Tuple, ast.List)):
            items: "list | None" = None
            if isinstance(v, TupleV) and len(v.items) == len(target.elts):
                items = v.items
            for i, t in enumerate(target.elts):
                if items is not None:
                    self.assign(fr, t, items[i], stmt)
                elif isinstance(v, Unknown):
                    self.assign(fr, t, Unknown(f"{v.text}[{i}]", v.taint, v.maybe_none), stmt)
                elif isinstance(v, (Elem, Importee, Anc)):
                    self.assign(fr, t, Unknown(f"{key(v)}[{i}]", frozenset({"GAP"})), stmt)
                else:
                    self.assign(fr, t, Unknown(f"{key(v)}[{i}]", taint_of(v) | {"GAP"}), stmt)
        elif isinstance(target, ast.Starred):
            self.assign(fr, target.value, v, stmt)
        elif isinstance(target, ast.Attribute):
            recv = self.ev(fr, target.value)
            if isinstance(recv, Obj):
                if isinstance(v, Coll) and not v.label:
                    v.label = f"{recv.cls.name}.{target.attr}"
                old = recv.fields.get(target.attr)
                g = self.rel_guard(fr)
                if g == TRUE:
                    recv.fields[target.attr] = v
                else:
                    g = self.guard()
                    unset = Unknown(f"<{recv.cls.name}.{target.attr} unset>", frozenset({"GAP"}))
                    unset._unset = True  # type: ignore[attr-defined]
                    recv.fields[target.attr] = AltV([(g, v), (f_not(g), old if old is not None else unset)]) if not isinstance(old, AltV) else AltV([(g, v), *[(conj([f_not(g), h]), x) for h, x in old.alts]])
            else:
                self.note(f"{fr.fi.qualname}: attribute store on {key(recv)} not modelled")
        elif isinstance(target, ast.Subscript):
            recv = self.ev(fr, target.value)
            if isinstance(recv, Coll):
                if recv.keyed:
                    kv = self.ev(fr, target.slice)
                    self.coll_add(fr, recv, kv, stmt)
                    recv.stores.append((key(kv), v))
                    recv.store_guards.append((self.guard(), conc(kv) is not _NOCONC))
                else:
                    self.coll_add(fr, recv, v, stmt)
            elif isinstance(recv, DictV):
                kv = self.ev(fr, target.slice)
                recv.taint |= self.value_taint(v) | self.value_taint(kv)
                recv.stores.append((key(kv), v))

    # ------------------------------------------------------------------ collections
    def as_coll(self, v: V) -> Coll:
        if isinstance(v, Coll):
            return v
        if isinstance(v, AltV):
            out = Coll()
            for g, x in self.live(v):
                c = self.as_coll(x)
                out.parts += [replace(p, guard=conj([p.guard, g])) for p in c.parts]
                out.removals += c.removals
            return out
        if isinstance(v, NoneV):
            return Coll()
        if isinstance(v, TupleV):
            c = Coll()
            for it in v.items:
                self._add_value(c, it, TRUE, None, None)
            return c
        if self.concrete and isinstance(v, Const) and isinstance(v.value, str) and len(v.value) <= 64:
            # (concrete runs) a known string iterated character by character
            return Coll([Part("lit", TRUE, items=(Const(ch),)) for ch in v.value], label=repr(v.value))
        if isinstance(v, Unknown) and self.concrete and "CONVERTED" in v.taint and "PARSED" not in v.taint and not hasattr(v, "_coll"):
            v._coll = Coll([Part("lit", TRUE, items=(ci,)) for ci in self.conc_imports], label=v.text)  # type: ignore[attr-defined]
        if isinstance(v, Unknown):
            c = getattr(v, "_coll", None)
            if c is None:
                kind = "scanned:" if "PARSED" in v.taint else "src:"
                c = Coll([Part("base", TRUE, base=kind + v.text, items=tuple(sorted(v.taint)))], label=v.text)
                v._coll = c  # type: ignore[attr-defined]
            return c
        if isinstance(v, EnumV):
            return Coll([Part("base", TRUE, base="src:enumerate(..)", items=tuple(sorted(taint_of(v))))], label="enumerate(..)")
        if isinstance(v, DictV):
            return Coll([Part("base", TRUE, base="src:" + v.text, items=tuple(sorted(v.taint)))], label=v.text)
        if isinstance(v, (MapV, DictCompV)):
            c = getattr(v, "_coll", None)
            if c is None:
                c = Coll(label="map(..)" if isinstance(v, MapV) else key(v))
                fr = Frame(self.entry, {}, len(self.frames))
                node = ast.Call(func=ast.Name(id="map", ctx=ast.Load()), args=[], keywords=[])
                for value, g, lp, _ckey in self.iteration_plan(fr, v, node):
                    self.frames.append(g)
                    saved = self.loops
                    self.loops = [*self.loops, lp if lp is not None else Loop(f"u{len(self.loops)}", Coll(), None, None)]
                    try:
                        val = self.loop_value(fr, value, lp, node)
                        self._add_value(c, val, conj([self.guard(), self.take_run_conds()]), None, None)
                    finally:
                        self.loops[-1].active = False
                        self.loops = saved
                        self.frames.pop()
                v._coll = c  # type: ignore[attr-defined]
            return c
        if isinstance(v, (Importee, Elem, Anc)):
            return Coll([Part("base", TRUE, base="chars:" + key(v))], label=key(v))
        return Coll([Part("base", TRUE, base="src:" + key(v))], label=key(v))

    def imprecise(self) -> bool:
        return any(l.broken for l in self.loops)

    def _add_value(self, c: Coll, v: V, g: Formula, fi: "FuncInfo | None", node: "ast.AST | None") -> None:
        r = root_elem(v)
        if self.imprecise():
            c.parts.append(Part("lit", g, items=(v,), fi=fi, node=node, partial=True))
            return
        if isinstance(v, Coll) and v.parts and not v.removals:
            lps = {id(p.loop) for p in v.parts}
            lp0 = v.parts[0].loop
            if len(lps) == 1 and lp0 is not None and lp0.active and any(l is lp0 for l in self.loops) and all(p.kind == "adds" for p in v.parts):
                # a value made of the names of the current element (importee and ancestors as one tuple / frozenset): the
                # collection holds one such value per element that passes - like the element itself, with the value as template
                c.parts.append(Part("filter", g, src=lp0.src, sym=lp0.sym, fi=fi, node=node, partial=lp0.broken, loop=lp0, template=tuple(v.parts)))
                return
        if isinstance(v, TupleV):
            roots = [x for x in (self._record_root(i) for i in v.items) if x is not None]
            if roots and all(x.loop is roots[0].loop for x in roots) and roots[0].loop.active and any(l is roots[0].loop for l in self.loops) and any(isinstance(i, Elem) for i in v.items):
                # a record about the current element (the element itself plus what was computed for it): one per element that passes
                lp0 = roots[0].loop
                c.parts.append(Part("filter", g, src=lp0.src, sym=lp0.sym, fi=fi, node=node, partial=lp0.broken, loop=lp0, template=("record", v)))
                return
        if r is not None and r.loop.active:
            kindtag = ("import",) if isinstance(v, Importee) or (isinstance(v, Anc) and isinstance(v.of, Importee)) else ("name",)
            if isinstance(v, Elem):
                c.parts.append(Part("filter", g, src=r.loop.src, sym=r.sym, fi=fi, node=node, partial=r.loop.broken, loop=r.loop))
            elif isinstance(v, Importee):
                c.parts.append(Part("adds", g, src=r.loop.src, sym=r.sym, what="self", items=kindtag, fi=fi, node=node, partial=r.loop.broken, loop=r.loop))
            elif isinstance(v, Anc) and isinstance(v.of, (Importee, Elem)):
                c.parts.append(Part("adds", g, src=r.loop.src, sym=r.sym, what="parents", items=kindtag, fi=fi, node=node, partial=r.loop.broken, loop=r.loop))
            else:
                c.parts.append(Part("lit", g, items=(v,), fi=fi, node=node))
        else:
            c.parts.append(Part("lit", g, items=(v,), fi=fi, node=node))

    @staticmethod
    def _record_root(v: V) -> "Elem | None":
        r = root_elem(v)
        if r is not None:
            return r
        if isinstance(v, Coll) and v.parts and all(p.loop is v.parts[0].loop and p.loop is not None for p in v.parts):
            lp = v.parts[0].loop
            return Elem(lp.sym, lp)
        return None

    def instantiate(self, v: V, old: Loop, new: Loop) -> V:
        """A value computed for the element of one loop, re-read as the value for the generic element of another loop."""
        if isinstance(v, Elem):
            return Elem(new.sym, new) if v.loop is old else v
        if isinstance(v, Importee):
            return Importee(self.instantiate(v.elem, old, new))  # type: ignore[arg-type]
        if isinstance(v, Anc):
            return Anc(self.instantiate(v.of, old, new))
        if isinstance(v, TupleV):
            return TupleV([self.instantiate(i, old, new) for i in v.items])
        if isinstance(v, BoolV):
            return BoolV(rename_sym(v.f, old.sym, new.sym))
        if isinstance(v, Coll) and v.parts and all(p.loop is old for p in v.parts):
            return Coll([replace(q, guard=rename_sym(q.guard, old.sym, new.sym), sym=new.sym, src=new.src, loop=new) for q in v.parts], label=v.label, keyed=v.keyed)
        if isinstance(v, Unknown) and mentions(v.text, old.sym) and old.sym != new.sym:
            return Unknown(re.sub(r"(?<![A-Za-z0-9_])" + re.escape(old.sym) + r"(?![A-Za-z0-9_])", new.sym, v.text), v.taint, v.maybe_none, v.patterns, v.flag)
        return v

    def coll_add(self, fr: Frame, c: Coll, v: V, node: ast.AST) -> None:
        self._add_value(c, v, self.guard(), fr.fi, node)

    def coll_extend(self, fr: Frame, c: Coll, other: V, node: ast.AST) -> None:
        g = self.guard()
        if isinstance(other, StarV):
            self.flatten_into(fr, c, other.v, node)
            return
        if isinstance(other, TupleV):
            for it in other.items:
                self._add_value(c, it, g, fr.fi, node)
            return
        if isinstance(other, (Elem, Importee, Anc)):
            self.note(f"{fr.fi.qualname}: a single name is used as a collection of characters ({norm(node, 40)})")
        o = self.as_coll(other)
        if o is c:
            return
        imp = self.imprecise()
        for p in o.parts:
            c.parts.append(replace(p, guard=conj([p.guard, g]), partial=p.partial or imp))
        c.removals += o.removals

    def flatten_into(self, fr: Frame, out: Coll, v: V, node: ast.AST) -> None:
        """Every element of every collection that `v` yields is added to `out` (chain.from_iterable, update(*xs))."""
        for value, g, lp, _ckey in self.iteration_plan(fr, v, node):
            self.frames.append(g)
            saved = self.loops
            self.loops = [*self.loops, lp if lp is not None else Loop(f"u{len(self.loops)}", Coll(), node, fr.fi)]
            try:
                inner = self.loop_value(fr, value, lp, node)
                self.frames[-1] = conj([self.frames[-1], self.take_run_conds()])
                self.coll_extend(fr, out, inner, node)
            finally:
                self.loops[-1].active = False
                self.loops = saved
                self.frames.pop()

    @staticmethod
    def _sequence_items(v: V) -> "tuple[list, Formula] | None":
        """The elements of a sequence that was written out element by element (`[*parents, name]`) under one and the same condition,
        in order, with that condition; None when some part is not a literal item, is only partially known, or parts differ in
        their conditions (then positions are not known)."""
        if isinstance(v, TupleV):
            return list(v.items), TRUE
        if isinstance(v, Const) and isinstance(v.value, str) and len(v.value) <= 64:
            return [Const(ch) for ch in v.value], TRUE
        if not isinstance(v, Coll) or not v.parts or v.removals or v.keyed:
            return None
        g0 = v.parts[0].guard
        items: list = []
        for p in v.parts:
            if p.kind != "lit" or p.partial or p.guard != g0:
                return None
            items += list(p.items)
        return items, g0

    def copy_of(self, v: V, label: str = "") -> Coll:
        c = self.as_coll(v)
        return Coll(list(c.parts), list(c.removals), label or c.label)

    def parents_of(self, fr: Frame, name: V, node: ast.AST) -> V:
        r = root_elem(name)
        if r is not None and r.loop.active and isinstance(name, (Importee, Elem)):
            c = Coll(label=f"parents({key(name)})")
            self._add_value(c, Anc(name), self.guard(), fr.fi, node)
            return c
        return Unknown(f"parents({key(name)})", taint_of(name), False)

    def member(self, v: V, c: Coll) -> Formula:
        if isinstance(v, Coll) and v.parts and all(p.kind == "adds" and p.loop is v.parts[0].loop and p.loop is not None for p in v.parts):
            lpv = v.parts[0].loop
            alts = []
            for p in c.parts:
                if p.kind == "filter" and p.template and p.template[0] != "record" and p.src is not None:
                    if lpv.src.parts == p.src.parts or self.member(Elem(lpv.sym, lpv), p.src) == TRUE:
                        alts.append(rename_sym(p.guard, p.sym, lpv.sym))
                    else:
                        alts.append(conj([rename_sym(p.guard, p.sym, lpv.sym), self.member(Elem(lpv.sym, lpv), p.src)]))
                elif p.kind == "filter" and p.src is not None:
                    alts.append(conj([rename_sym(p.guard, p.sym, lpv.sym), self.member(v, p.src)]))
                else:
                    alts.append(conj([p.guard, self.free(f"IN[lineage({lpv.sym}),{c.label or 'collection'}]", frozenset({"GAP"}))]))
            return disj(alts)
        k = key(v)
        alts = []
        drawn = self._drawn_from(v) if isinstance(v, Elem) else set()
        for p in c.parts:
            if p.partial and self.concrete:
                # a part the model only knows partially (a slice, a loop left by break): whether the value is in it is an open fact
                alts.append(conj([p.guard, self.free(f"IN[{k},{p.what or p.kind}@{getattr(p.node, 'lineno', 0)}]", frozenset({"GAP"}))]))
                continue
            if p.kind == "base" and p.base in drawn:
                alts.append(p.guard)  # the element is taken from this very collection
            elif p.kind == "base":
                if p.base.startswith("scanned:"):
                    alts.append(conj([p.guard, atom(f"INSCAN[{k}]")]))
                else:
                    alts.append(conj([p.guard, self.free(f"IN[{k},{p.base}]", taint_of(v) | {"GAP"})]))
            elif p.kind == "filter":
                alts.append(conj([rename_sym(p.guard, p.sym, k), self.member(v, p.src)]))
            elif p.kind == "adds":
                r = root_elem(v)
                same_kind = (p.what == "self" and isinstance(v, Importee) and p.items[:1] == ("import",)) or (p.what == "parents" and isinstance(v, Anc) and isinstance(v.of, Importee) and p.items[:1] == ("import",)) or (p.what == "parents" and isinstance(v, Anc) and isinstance(v.of, Elem) and p.items[:1] == ("name",))
                if r is not None and same_kind and p.src is not None and r.loop is not p.loop and self._within(r.loop.src, p.src):
                    # the names of all elements of the very collection the element is taken from: it is among them when the
                    # condition of the part holds for it
                    alts.append(rename_sym(p.guard, p.sym, r.sym))
                    continue
                # names added earlier by the same loop (de-duplication against the accumulator): tagged with the loop
                tag = f"@L{p.loop.serial}" if p.loop is not None else ""
                alts.append(self.free(f"IN[{k},{p.what}-of-{c.label or 'collection'}{tag}]", taint_of(v)))
            else:
                for it in p.items:
                    if isinstance(v, Const) and isinstance(it, Const):
                        if v.value == it.value:
                            alts.append(p.guard)
                        continue
                    if it is v:
                        alts.append(p.guard)
                        continue
                    cv_, ci_ = conc(v), conc(it)
                    if cv_ is not _NOCONC and ci_ is not _NOCONC:
                        # two constants (tuples of constants): equal or not, no open fact
                        if cv_ == ci_:
                            alts.append(p.guard)
                        continue
                    alts.append(conj([p.guard, self.free("EQ[" + ",".join(sorted([k, key(it)])) + "]", self.cmp_taint(v, it))]))
        return disj(alts)

    def nonempty(self, c: Coll) -> Formula:
        """Condition under which the collection has an element (existential closure of its parts)."""
        alts = []
        for p in c.parts:
            if p.kind == "base":
                alts.append(conj([p.guard, self.free(f"NONEMPTY[{p.base.split(':', 1)[1]}]", frozenset(p.items) & {"FLAG", "EXT"})]))
            elif p.kind == "lit":
                alts.append(p.guard)
            elif p.kind == "filter":
                g = p.guard
                if p.loop is None or not (p.loop.active and any(l is p.loop for l in self.loops)):
                    g = self.exists(g, p.sym)  # some element of the source passes the filter
                alts.append(g)
            else:  # adds
                g = p.guard
                if p.what == "parents":
                    # there is an ancestor (a top-level name has none) for which the part's condition holds
                    var = "anc:" + p.sym
                    if not any(mentions(a, var) and a[:1] not in "∃∀" for a in atoms_of(g)):
                        g = conj([g, atom(f"ANC[{var}]")])
                    g = self.exists(g, var)
                if p.loop is None or not (p.loop.active and any(l is p.loop for l in self.loops)):
                    g = self.exists(g, p.sym)
                alts.append(g)
        return disj(alts)

    def _within(self, a: Coll, b: Coll, depth: int = 0) -> bool:
        """Every element of `a` is an element of `b` (the same parts, or filters / records over it)."""
        if a.parts == b.parts:
            return True
        if depth > 3 or not a.parts:
            return False
        return all(p.kind == "filter" and p.src is not None and self._within(p.src, b, depth + 1) for p in a.parts)

    @staticmethod
    def _drawn_from(e: Elem) -> set:
        """Names of the base collections a loop element is an element of (its loop runs over that base, possibly filtered)."""
        out: set = set()
        todo = [e.loop.src]
        only_bases = True
        while todo:
            c = todo.pop()
            for p in c.parts:
                if p.kind == "base":
                    out.add(p.base)
                elif p.kind == "filter" and p.src is not None:
                    todo.append(p.src)
                else:
                    only_bases = False
        return out if only_bases and len(out) == 1 else set()

    def set_algebra(self, fr: Frame, a: V, b: V, op: ast.AST, node: ast.AST) -> V:
        ca, cb = self.as_coll(a), self.as_coll(b)
        if isinstance(op, (ast.Add, ast.BitOr)):
            out = Coll(list(ca.parts) + list(cb.parts), ca.removals + cb.removals)
            return out
        sym = f"x{len(self.loops)}"
        lp = Loop(sym, ca.snapshot(), node, fr.fi)
        e = Elem(sym, lp)
        m = self.member(e, cb)
        g = conj([self.guard(), m if isinstance(op, ast.BitAnd) else f_not(m)])
        return Coll([Part("filter", g, src=lp.src, sym=sym, fi=fr.fi, node=node)])

    # ------------------------------------------------------------------ truth
    def truth(self, v: V) -> Formula:
        if isinstance(v, BoolV):
            return v.f
        if isinstance(v, AltV):
            return disj(conj([g, self.truth(x)]) for g, x in self.live(v))
        if isinstance(v, Const):
            return TRUE if v.value else FALSE
        if isinstance(v, NoneV):
            return FALSE
        if isinstance(v, Unknown):
            if v.flag:
                return atom("FLAG")
            if v.patterns or getattr(v, "_pattern_tuple", False):
                return atom("HAS")  # (`() if patterns is None else patterns` is empty exactly when there are no patterns)
            if hasattr(v, "_len_of"):
                return self.truth(v._len_of)
            return self.free(f"T[{v.text}]", v.taint)
        if isinstance(v, Coll):
            if not v.parts:
                return FALSE
            return self.nonempty(v)
        if isinstance(v, TupleV):
            return TRUE if v.items else FALSE
        if isinstance(v, Obj):
            for name in ("__bool__", "__len__"):
                m = self.repo.lookup_method(v.cls, name)
                if m is not None and self.transparent_func(m):
                    return self.truth(self.call_function(m, [], {}, v, None))
            return TRUE
        if isinstance(v, Opaque) and "EXT" in v.taint:
            # an object with __bool__ / __len__ built from the patterns: true when there are patterns
            for ci in self.repo.classes.values():
                if ci.name == v.cls and any(self.repo.lookup_method(ci, m) is not None for m in ("__bool__", "__len__")):
                    return atom("HAS")
        return TRUE

    def patterns_empty(self, v: V) -> Formula:
        """Condition under which the value a pattern filter is built from holds no pattern at all."""
        if isinstance(v, NoneV):
            return TRUE
        if isinstance(v, Const):
            return FALSE if v.value else TRUE
        if isinstance(v, TupleV):
            return FALSE if v.items else TRUE
        if isinstance(v, Coll) and not v.parts:
            return TRUE
        if isinstance(v, AltV):
            return disj(conj([g, self.patterns_empty(x)]) for g, x in v.alts)
        if isinstance(v, Unknown) and (v.patterns or getattr(v, "_pattern_tuple", False)):
            return f_not(atom("HAS"))
        return FALSE if isinstance(v, (Coll, Obj, Opaque)) else self.free(f"EMPTY[{key(v)}]", taint_of(v))

    def isnone(self, v: V) -> Formula:
        if isinstance(v, NoneV):
            return TRUE
        if isinstance(v, AltV):
            return disj(conj([g, self.isnone(x)]) for g, x in self.live(v))
        if isinstance(v, Unknown):
            if v.maybe_none is False:
                return FALSE
            return self.free(f"ISNONE[{v.text}]", v.taint)
        return FALSE

    def bf(self, fr: Frame, e: ast.expr) -> Formula:
        if isinstance(e, ast.BoolOp):
            # left to right; an operand is evaluated under what the earlier ones leave open, and not at all once they decide
            is_and = isinstance(e.op, ast.And)
            parts: list[Formula] = []
            pushed = 0
            try:
                for v in e.values:
                    f = self.bf(fr, v)
                    parts.append(f)
                    if f == (FALSE if is_and else TRUE):
                        break
                    self.frames.append(f if is_and else f_not(f))
                    pushed += 1
            finally:
                del self.frames[len(self.frames) - pushed:]
            return conj(parts) if is_and else disj(parts)
        if isinstance(e, ast.UnaryOp) and isinstance(e.op, ast.Not):
            return f_not(self.bf(fr, e.operand))
        if isinstance(e, ast.Compare):
            return self.compare(fr, e)
        if isinstance(e, ast.IfExp):
            c = self.bf(fr, e.test)
            return disj([conj([c, self.bf(fr, e.body)]), conj([f_not(c), self.bf(fr, e.orelse)])])
        return self.truth(self.ev(fr, e))

    def compare(self, fr: Frame, e: ast.Compare) -> Formula:
        parts = []
        left = e.left
        lv = self.ev(fr, left)
        for op, right in zip(e.ops, e.comparators):
            rv = self.ev(fr, right)
            parts.append(self.compare1(fr, left, lv, op, right, rv))
            left, lv = right, rv
        return conj(parts)

    def cmp_taint(self, *vs: V) -> frozenset:
        """Taint of a comparison: that of its operands; comparing things the model does not treat as plain data (objects,
        collections as values, callables) is a modelling gap."""
        t: frozenset = frozenset()
        for v in vs:
            t |= self.value_taint(v)
            if isinstance(v, (Obj, Opaque, Coll, Fn, ClassRef, BoundAPI, DictV, DictCompV, MapV, EnumV, PartialV, AltV, SuperRef, StarV)):
                t |= {"GAP"}
            if isinstance(v, TupleV) and any(isinstance(i, (Obj, Opaque, Coll, Fn)) for i in v.items):
                t |= {"GAP"}
        return t

    def compare1(self, fr: Frame, le: ast.expr, lv: V, op: ast.cmpop, re_: ast.expr, rv: V) -> Formula:
        cl, cr = conc(lv), conc(rv)
        if cl is not _NOCONC and cr is not _NOCONC and not isinstance(op, (ast.Is, ast.IsNot)):
            try:
                res = {ast.Eq: lambda: cl == cr, ast.NotEq: lambda: cl != cr, ast.Lt: lambda: cl < cr, ast.LtE: lambda: cl <= cr, ast.Gt: lambda: cl > cr, ast.GtE: lambda: cl >= cr, ast.In: lambda: cl in cr, ast.NotIn: lambda: cl not in cr}[type(op)]()
                return TRUE if res else FALSE
            except Exception:  # noqa: BLE001
                pass
        if isinstance(lv, AltV):
            return disj(conj([g, self.compare1(fr, le, x, op, re_, rv)]) for g, x in self.live(lv))
        if isinstance(rv, AltV) and not isinstance(op, (ast.In, ast.NotIn)):
            return disj(conj([g, self.compare1(fr, le, lv, op, re_, x)]) for g, x in self.live(rv))
        if isinstance(op, (ast.Is, ast.IsNot)):
            if isinstance(rv, NoneV) or isinstance(lv, NoneV):
                f = self.isnone(lv if isinstance(rv, NoneV) else rv)
            elif isinstance(rv, Const) and isinstance(rv.value, bool):
                f = self.truth(lv) if rv.value else f_not(self.truth(lv))
            elif isinstance(lv, Const) and isinstance(rv, Const):
                f = TRUE if lv.value == rv.value else FALSE  # enum members / interned constants
            elif any(isinstance(x, Const) and isinstance(x.value, str) and x.value.startswith("<object@") for x in (lv, rv)) and any(isinstance(x, (BoolV, Coll, TupleV, Obj, Fn, ClassRef)) for x in (lv, rv)):
                f = FALSE  # a value computed by the pipeline is never the sentinel object
            elif lv is rv:
                f = TRUE
            else:
                f = self.free("IS[" + ",".join(sorted([key(lv), key(rv)])) + "]", self.cmp_taint(lv, rv))
            return f if isinstance(op, ast.Is) else f_not(f)
        if isinstance(op, (ast.In, ast.NotIn)) and isinstance(rv, Obj):
            m = self.repo.lookup_method(rv.cls, "__contains__")
            if m is not None and self.transparent_func(m):
                f = self.truth(self.call_fn(fr, Fn(m, rv), [lv], {}, ast.copy_location(ast.Call(func=ast.Name(id="__contains__", ctx=ast.Load()), args=[], keywords=[]), re_)))
                return f if isinstance(op, ast.In) else f_not(f)
        if isinstance(op, (ast.In, ast.NotIn)) and isinstance(rv, AltV):
            return disj(conj([g, self.compare1(fr, le, lv, op, re_, x)]) for g, x in self.live(rv))
        if isinstance(op, (ast.In, ast.NotIn)):
            if isinstance(rv, (Coll, TupleV)) or (isinstance(rv, Unknown) and hasattr(rv, "_coll")) or (isinstance(rv, Unknown) and "PARSED" in rv.taint):
                f = self.member(lv, self.as_coll(rv))
            else:
                f = self.free(f"IN[{key(lv)},{key(rv)}]", self.cmp_taint(lv, rv))
            return f if isinstance(op, ast.In) else f_not(f)
        if isinstance(op, (ast.Eq, ast.NotEq)):
            if isinstance(rv, Const) and isinstance(rv.value, bool):
                f = self.truth(lv) if rv.value else f_not(self.truth(lv))
            elif isinstance(lv, Const) and isinstance(rv, Const):
                f = TRUE if lv.value == rv.value else FALSE
            elif isinstance(rv, NoneV) or isinstance(lv, NoneV):
                f = self.isnone(lv if isinstance(rv, NoneV) else rv)
            else:
                ln = self._len_arg(fr, le, lv)
                if ln is not None and isinstance(rv, Const) and rv.value == 0:
                    f = f_not(self.truth(ln))
                else:
                    f = self.free("EQ[" + ",".join(sorted([key(lv), key(rv)])) + "]", self.cmp_taint(lv, rv))
            return f if isinstance(op, ast.Eq) else f_not(f)
        ln = self._len_arg(fr, le, lv)
        if ln is not None and isinstance(rv, Const) and isinstance(rv.value, int):
            t = self.truth(ln)
            if (isinstance(op, ast.Gt) and rv.value == 0) or (isinstance(op, ast.GtE) and rv.value == 1):
                return t
            if (isinstance(op, ast.Lt) and rv.value == 1) or (isinstance(op, ast.LtE) and rv.value == 0):
                return f_not(t)
        return self.free(f"CMP[{key(lv)} {type(op).__name__} {key(rv)}]", self.cmp_taint(lv, rv))

    def _len_arg(self, fr: Frame, e: ast.expr, v: "V | None" = None) -> "V | None":
        if isinstance(v, Unknown) and getattr(v, "_len_of", None) is not None:
            return v._len_of  # type: ignore[attr-defined]  # a count held in a variable (`n = len(xs)` / `sum(1 for ..)`)
        if isinstance(e, ast.Call) and isinstance(e.func, ast.Name) and e.func.id == "len" and len(e.args) == 1 and "len" not in fr.env:
            return self.ev(fr, e.args[0])
        return None

    # ------------------------------------------------------------------ expressions
    def ev(self, fr: Frame, e: ast.expr) -> V:
        if isinstance(e, ast.Constant):
            return NoneV() if e.value is None else Const(e.value)
        if isinstance(e, ast.Name):
            return self.ev_name(fr, e)
        if isinstance(e, ast.Attribute):
            return self.ev_attr(fr, e)
        if isinstance(e, ast.Call):
            return self.ev_call(fr, e)
        if isinstance(e, ast.BoolOp):
            # `a or b` / `a and b` used for its value: a tracked collection / the pattern tuple wins, otherwise it is a truth value
            is_and = isinstance(e.op, ast.And)
            vals = []
            pushed = 0
            try:
                for x in e.values:
                    v = self.ev(fr, x)
                    vals.append(v)
                    f = self.truth(v) if not isinstance(v, Coll) else None
                    if f is not None and f == (FALSE if is_and else TRUE):
                        break  # decided: the remaining operands are not evaluated
                    if f is not None:
                        self.frames.append(f if is_and else f_not(f))
                        pushed += 1
            finally:
                del self.frames[len(self.frames) - pushed:]
            for v in vals:
                if isinstance(v, Coll):
                    return v
            for v in vals:
                if isinstance(v, Unknown) and (v.patterns or "PARSED" in v.taint or "CONVERTED" in v.taint):
                    return v
            fs = [self.truth(v) for v in vals]
            return BoolV(conj(fs) if isinstance(e.op, ast.And) else disj(fs))
        if isinstance(e, ast.UnaryOp):
            if isinstance(e.op, ast.Not):
                return BoolV(self.bf(fr, e))
            v = self.ev(fr, e.operand)
            if isinstance(v, Const) and isinstance(v.value, (int, float)) and not isinstance(v.value, bool):
                return Const(-v.value if isinstance(e.op, ast.USub) else (+v.value if isinstance(e.op, ast.UAdd) else ~v.value))
            return Unknown(f"{type(e.op).__name__}({key(v)})", taint_of(v), False)
        if isinstance(e, ast.Compare):
            return BoolV(self.bf(fr, e))
        if isinstance(e, ast.IfExp):
            c = self.bf(fr, e.test)
            if c == TRUE:
                return self.ev(fr, e.body)
            if c == FALSE:
                return self.ev(fr, e.orelse)
            self.frames.append(c)
            try:
                a = self.ev(fr, e.body)
            finally:
                self.frames.pop()
            self.frames.append(f_not(c))
            try:
                b = self.ev(fr, e.orelse)
            finally:
                self.frames.pop()
            if isinstance(a, Coll) and isinstance(b, Coll) and a is not b:
                return AltV([(c, a), (f_not(c), b)])  # `(xs if c else ys).append(v)` must reach the originals
            return self.join_ite(c, a, b)
        if isinstance(e, (ast.List, ast.Set)):
            c = Coll()
            for x in e.elts:
                if isinstance(x, ast.Starred):
                    self.coll_extend(fr, c, self.ev(fr, x.value), e)
                else:
                    self.coll_add(fr, c, self.ev(fr, x), e)
            return c
        if isinstance(e, ast.Tuple):
            if any(isinstance(x, ast.Starred) for x in e.elts):
                c = Coll()
                for x in e.elts:
                    if isinstance(x, ast.Starred):
                        self.coll_extend(fr, c, self.ev(fr, x.value), e)
                    else:
                        self.coll_add(fr, c, self.ev(fr, x), e)
                return c
            return TupleV([self.ev(fr, x) for x in e.elts])
        if isinstance(e, (ast.ListComp, ast.SetComp, ast.GeneratorExp)):
            return self.ev_comp(fr, e)
        if isinstance(e, ast.DictComp):
            if len(e.generators) == 1:
                return DictCompV(e, fr, dict(fr.env))
            self.note(f"{fr.fi.qualname}: dictionary `{norm(e, 40)}` not modelled (what is read from it is unknown)")
            return DictV(f"{{dict@{e.lineno}}}", frozenset({"GAP"}))
        if isinstance(e, ast.Dict) and not e.keys:
            return Coll(label=f"{{dict@{e.lineno}}}", keyed=True)
        if isinstance(e, ast.Dict):
            d = DictV(f"{{dict@{e.lineno}}}")
            for k_, v in zip(e.keys, e.values):
                val = self.ev(fr, v)
                d.taint |= self.value_taint(val)
                if k_ is not None:
                    d.entries.append((self.ev(fr, k_), val))
            return d
        if isinstance(e, ast.JoinedStr):
            t: frozenset = frozenset()
            ks = []
            for v in e.values:
                if isinstance(v, ast.FormattedValue):
                    x = self.ev(fr, v.value)
                    t |= taint_of(x)
                    ks.append("{" + key(x) + "}")
                elif isinstance(v, ast.Constant):
                    ks.append(str(v.value))
            if all(isinstance(v, ast.Constant) or (isinstance(v, ast.FormattedValue) and v.conversion == -1 and v.format_spec is None and isinstance(conc(self.ev(fr, v.value)), str)) for v in e.values):
                return Const("".join(str(v.value) if isinstance(v, ast.Constant) else conc(self.ev(fr, v.value)) for v in e.values))
            # one of a few constant strings chosen under a condition (`f"_is_{mode}_import"`): one text per alternative
            fvs = [v for v in e.values if isinstance(v, ast.FormattedValue)]
            if len(fvs) == 1 and fvs[0].conversion == -1 and fvs[0].format_spec is None:
                x = self.ev(fr, fvs[0].value)
                if isinstance(x, AltV) and len(x.alts) <= 8 and all(isinstance(a_, Const) and isinstance(a_.value, str) for _g, a_ in x.alts):
                    return self.mk_alt([(g_, Const("".join(str(v.value) if isinstance(v, ast.Constant) else a_.value for v in e.values))) for g_, a_ in x.alts])
            return Unknown("f'" + "".join(ks) + "'", t, False)
        if isinstance(e, ast.BinOp):
            a, b = self.ev(fr, e.left), self.ev(fr, e.right)
            if isinstance(a, Coll) or isinstance(b, Coll):
                if isinstance(e.op, (ast.Add, ast.BitOr, ast.Sub, ast.BitAnd)):
                    return self.set_algebra(fr, a, b, e.op, e)
            if isinstance(a, TupleV) and isinstance(b, TupleV) and isinstance(e.op, ast.Add):
                return TupleV(a.items + b.items)
            ca, cb = conc(a), conc(b)
            if ca is not _NOCONC and cb is not _NOCONC and ca is not None and cb is not None:
                try:
                    if isinstance(e.op, ast.Add):
                        return absv(ca + cb)
                    if isinstance(e.op, ast.Sub):
                        return absv(ca - cb)
                    if isinstance(e.op, ast.Mult):
                        return absv(ca * cb)
                    if isinstance(e.op, ast.FloorDiv):
                        return absv(ca // cb)
                    if isinstance(e.op, ast.Mod) and isinstance(ca, int):
                        return absv(ca % cb)
                except Exception:  # noqa: BLE001
                    pass
            pat = isinstance(e.op, ast.Add) and any(isinstance(x, Unknown) and x.patterns for x in (a, b))
            return Unknown(f"({key(a)} {type(e.op).__name__} {key(b)})", taint_of(a) | taint_of(b), False, patterns=pat)
        if isinstance(e, ast.Subscript):
            v = self.ev(fr, e.value)
            cv = conc(v)
            if cv is not _NOCONC and isinstance(cv, (str, tuple)):
                try:
                    if isinstance(e.slice, ast.Slice):
                        bounds = [None if b is None else conc(self.ev(fr, b)) for b in (e.slice.lower, e.slice.upper, e.slice.step)]
                        if all(b is not _NOCONC for b in bounds):
                            if (isinstance(cv, str) and "." in cv) or (isinstance(cv, tuple) and cv and all(isinstance(x, str) for x in cv)):
                                self.cuts.append((fr.fi, norm(e, 60), e))
                            return absv(cv[slice(*bounds)])
                    else:
                        ci = conc(self.ev(fr, e.slice))
                        if ci is not _NOCONC and isinstance(ci, int):
                            return absv(cv[ci])
                except Exception:  # noqa: BLE001 - index out of range: the path raises
                    return Unknown(f"{key(v)}[..]", frozenset({"GAP"}))
            if isinstance(v, TupleV) and isinstance(e.slice, ast.Constant) and isinstance(e.slice.value, int) and -len(v.items) <= e.slice.value < len(v.items):
                return v.items[e.slice.value]
            if isinstance(v, Coll) and v.keyed and not isinstance(e.slice, ast.Slice):
                sl = self.ev(fr, e.slice)
                hit = self._keyed_lookup(v, sl, Unknown(f"{key(v)}[{key(sl)}]", frozenset({"GAP"})))
                if hit is not None:
                    return hit
                for k_, val in reversed(v.stores):
                    if k_ == key(sl):
                        return val  # what was stored under this very key (memo table)
                return Unknown(f"{key(v)}[{key(sl)}]", self.value_taint(v) | taint_of(sl) | {"GAP"})
            if isinstance(v, Coll) and self.concrete and not v.keyed:
                # (concrete runs) a list written out element by element under one condition: slices and indices are exact
                seq = self._sequence_items(v)
                if seq is not None:
                    items, g_seq = seq
                    try:
                        if isinstance(e.slice, ast.Slice):
                            bounds = [None if b is None else conc(self.ev(fr, b)) for b in (e.slice.lower, e.slice.upper, e.slice.step)]
                            if all(b is None or (isinstance(b, int) and not isinstance(b, bool)) for b in bounds):
                                out = Coll(label=v.label)
                                for it_ in items[slice(*bounds)]:
                                    out.parts.append(Part("lit", g_seq, items=(it_,), fi=fr.fi, node=e))
                                return out
                        else:
                            ci = conc(self.ev(fr, e.slice))
                            if isinstance(ci, int) and not isinstance(ci, bool):
                                return items[ci]
                    except IndexError:
                        return Unknown(f"{key(v)}[..]", frozenset({"GAP"}))
            if isinstance(v, Coll):
                if isinstance(e.slice, ast.Slice):
                    c = self.copy_of(v)
                    if e.slice.lower is not None or e.slice.upper is not None or e.slice.step is not None:
                        # a proper slice: which elements remain is not modelled
                        self.note(f"{fr.fi.qualname}: `{norm(e, 40)}` takes a slice of a collection: which elements remain is not modelled")
                        c.parts = [replace(q, partial=True) for q in c.parts]
                    return c
                sl = self.ev(fr, e.slice)
                el = getattr(sl, "_elem", None)
                r = root_elem(el) if el is not None else None
                if isinstance(el, Elem) and r is not None and r.loop.active and r.loop.src.parts == v.parts:
                    return el  # xs[i] inside `for i, x in enumerate(xs)`
                self.note(f"{fr.fi.qualname}: element selected from a collection by index ({norm(e, 40)})")
                return Unknown(f"{key(v)}[..]", frozenset({"GAP"}))
            if isinstance(v, (DictV, DictCompV)):
                sl = self.ev(fr, e.slice)
                if isinstance(v, DictV):
                    hit = self.dict_lookup(v, sl)
                    if hit is not None:
                        return hit
                if isinstance(v, DictV) and (root_elem(sl) is not None or (isinstance(sl, Unknown) and mentions(sl.text, "x0") or isinstance(sl, Unknown) and any(mentions(sl.text, f"x{i}") for i in range(1, 5)))):
                    # a memo table: what was stored under this very key (by this or an earlier iteration of the same code)
                    for k_, val in reversed(v.stores):
                        if k_ == key(sl):
                            return val
                return Unknown(f"{key(v)}[{key(sl)}]", v.taint | taint_of(sl) | {"GAP"})
            if isinstance(v, Unknown):
                if isinstance(e.slice, ast.Slice):
                    return Unknown(f"{v.text}[{norm(e.slice, 20)}]", v.taint, v.maybe_none, v.patterns)
                sl = self.ev(fr, e.slice)
                el = getattr(sl, "_elem", None)
                if isinstance(el, Elem) and el.loop.active and el.loop.src.parts == self.as_coll(v).parts:
                    return el  # xs[i] inside `for i, x in enumerate(xs)`
                return Unknown(f"{v.text}[{key(sl)}]", v.taint | taint_of(sl))
            sl = self.ev(fr, e.slice) if not isinstance(e.slice, ast.Slice) else Const(norm(e.slice, 20))
            return Unknown(f"{key(v)}[{key(sl)}]", taint_of(v) | taint_of(sl), False)
        if isinstance(e, ast.Lambda):
            nf = getattr(e, "_func", None)
            return Fn(nf, None, fr.env) if nf is not None else Unknown("<lambda>")
        if isinstance(e, ast.NamedExpr):
            v = self.ev(fr, e.value)
            self.assign(fr, e.target, v, e)
            return v
        if isinstance(e, ast.Starred):
            return self.ev(fr, e.value)
        if isinstance(e, (ast.Yield, ast.YieldFrom)):
            if fr.yields is not None and e.value is not None:
                v = self.ev(fr, e.value)
                if isinstance(e, ast.Yield):
                    self.coll_add(fr, fr.yields, v, e)
                else:
                    self.coll_extend(fr, fr.yields, v, e)
            return NoneV()
        if isinstance(e, ast.Await):
            return self.ev(fr, e.value)
        return Unknown(norm(e, 40), frozenset({"GAP"}))

    def ev_name(self, fr: Frame, e: ast.Name) -> V:
        if e.id in fr.env:
            return fr.env[e.id]
        mod = fr.fi.module
        if e.id in mod.functions:
            return Fn(mod.functions[e.id])
        if e.id in mod.classes:
            return ClassRef(mod.classes[e.id])
        if e.id in mod.imports:
            return self.resolve_dotted(self.repo._canonical(mod.imports[e.id]))
        if e.id in mod.constants:
            return self.ev(self.module_frame(fr.fi), mod.constants[e.id])
        if e.id in ("True", "False"):
            return Const(e.id == "True")
        return Builtin(e.id)

    def resolve_dotted(self, dotted: str) -> V:
        ci = self.repo.classes.get(dotted)
        if ci is not None:
            return ClassRef(ci)
        modname, _, name = dotted.rpartition(".")
        m = self.repo.modules.get(modname)
        if m is not None:
            if name in m.functions:
                return Fn(m.functions[name])
            if name in m.constants:
                return self.ev(Frame(next(iter(m.all_funcs), self.entry), {}, len(self.frames)), m.constants[name]) if m.all_funcs else Unknown(dotted)
        if dotted in self.repo.modules:
            return Builtin("module:" + dotted)
        return Builtin(dotted)

    def ev_attr(self, fr: Frame, e: ast.Attribute) -> V:
        return self.attr_of(fr, self.ev(fr, e.value), e.attr)

    def attr_of(self, fr: Frame, v: V, attr: str) -> V:
        if isinstance(v, AltV):
            return self.distribute(v, lambda x: self.attr_of(fr, x, attr))
        if isinstance(v, SuperRef):
            ms = self.repo.mro(v.obj.cls if isinstance(v.obj, Obj) else v.after)
            seen_after = False
            for c in ms:
                if seen_after and attr in c.methods:
                    return Fn(c.methods[attr], v.obj)
                if c is v.after or c == v.after:
                    seen_after = True
            return Unknown(f"super().{attr}", frozenset({"GAP"}))
        if isinstance(v, Obj):
            if attr in v.fields:
                fv = v.fields[attr]
                if isinstance(fv, AltV):
                    # the alternatives that are possible here, joined the way a variable assigned in branches is
                    alts = [(g, x) for g, x in self.live(fv) if not getattr(x, "_unset", False)] or self.live(fv)
                    cur = alts[-1][1]
                    for g, x in reversed(alts[:-1]):
                        cur = self.join_ite(g, x, cur)
                    return cur
                return fv
            m = self.repo.lookup_method(v.cls, attr)
            if m is not None:
                if m.is_property:
                    return self.call_function(m, [], {}, v, None)
                return Fn(m, v if not m.is_staticmethod else None)
            for c in self.repo.mro(v.cls):
                if attr in c.class_attrs:
                    return self.class_attr(fr, c, attr)
            if attr in ("_replace", "_asdict"):
                return BoundAPI(v, attr)
            return Unknown(f"{key(v)}.{attr}", frozenset({"GAP"}))
        if isinstance(v, ClassRef):
            m = self.repo.lookup_method(v.ci, attr)
            if m is not None:
                return Fn(m, v if m.is_classmethod else None)
            for c in self.repo.mro(v.ci):
                if attr in c.class_attrs:
                    return self.class_attr(fr, c, attr)
            return Unknown(f"{v.ci.name}.{attr}", frozenset({"GAP"}))
        if isinstance(v, Builtin):
            if v.name.startswith("module:"):
                return self.resolve_dotted(self.repo._canonical(v.name[7:] + "." + attr))
            return Builtin(v.name + "." + attr)
        if isinstance(v, Unknown):
            return Unknown(f"{v.text}.{attr}", v.taint)
        if isinstance(v, (Const, NoneV, BoolV, TupleV)):
            return Unknown(f"{key(v)}.{attr}", frozenset({"GAP"}))
        if isinstance(v, Opaque):
            for ci in self.repo.classes.values():
                if ci.name == v.cls:
                    if self.repo.lookup_method(ci, attr) is None:
                        return Unknown(f"{key(v)}.{attr}", v.taint)
                    break
        return BoundAPI(v, attr)

    def class_attr(self, fr: Frame, c: ClassInfo, attr: str) -> V:
        """Class-level attributes are shared objects: evaluated once."""
        k = (c.fq, attr)
        if k not in self._class_attrs:
            if any(b.rsplit(".", 1)[-1] in ("Enum", "IntEnum", "StrEnum", "Flag", "IntFlag") for b in self.repo.external_bases(c)):
                self._class_attrs[k] = Const(f"<{c.name}.{attr}>")  # an enum member: a constant distinct from all others
            else:
                self._class_attrs[k] = self.ev(self.module_frame(next(iter(c.methods.values()), fr.fi)), c.class_attrs[attr])
        return self._class_attrs[k]

    def ev_comp(self, fr: Frame, e: ast.expr) -> V:
        out = Coll()
        env0 = fr.env
        fr.env = dict(env0)
        try:
            self._comp_gen(fr, e, 0, out)
        finally:
            fr.env = env0
        return out

    def _comp_gen(self, fr: Frame, e: ast.expr, i: int, out: Coll) -> None:
        gens = e.generators
        if i == len(gens):
            self.coll_add(fr, out, self.ev(fr, e.elt), e)
            return
        g = gens[i]
        src = self.ev(fr, g.iter)
        for value, guard, lp, _ckey in self.iteration_plan(fr, src, e):
            self.frames.append(guard)
            saved = self.loops
            if lp is not None:
                self.loops = [*self.loops, lp]
            else:
                self.loops = [*self.loops, Loop(f"u{len(self.loops)}", Coll(), e, fr.fi)]
            pushed = 1
            try:
                value = self.loop_value(fr, value, lp, e)
                self.frames.append(self.take_run_conds())
                pushed += 1
                self.assign(fr, g.target, value, e)
                for c in g.ifs:
                    self.frames.append(self.bf(fr, c))
                    pushed += 1
                self._comp_gen(fr, e, i + 1, out)
            finally:
                self.loops[-1].active = False
                self.loops = saved
                del self.frames[len(self.frames) - pushed:]

    def quantified(self, fr: Frame, arg: ast.expr, universal: bool) -> Formula:
        """any(...) / all(...)."""
        if isinstance(arg, (ast.GeneratorExp, ast.ListComp, ast.SetComp)) and len(arg.generators) >= 1:
            env0 = fr.env
            fr.env = dict(env0)
            try:
                return self._quant_gen(fr, arg, 0, universal)
            finally:
                fr.env = env0
        v = self.ev(fr, arg)
        if isinstance(v, TupleV):
            fs = [self.truth(i) for i in v.items]
            return conj(fs) if universal else disj(fs)
        if isinstance(v, (Coll, MapV)):
            alts = []
            for value, guard, lp, ckey in self.iteration_plan(fr, v, arg):
                saved = self.loops
                self.loops = [*self.loops, lp if lp is not None else Loop(f"u{len(self.loops)}", Coll(), arg, fr.fi)]
                try:
                    t = self.truth(self.loop_value(fr, value, lp, arg))
                    f = conj([self.simplify_under(guard, self.guard()), self.take_run_conds(), f_not(t) if universal else t])
                finally:
                    self.loops[-1].active = False
                    self.loops = saved
                if ckey is not None:
                    f = self.exists(f, ckey)
                alts.append(f)
            ex = disj(alts)
            return f_not(ex) if universal else ex
        return self.free(("ALL" if universal else "ANY") + f"[{key(v)}]", taint_of(v) | {"GAP"})

    def _quant_gen(self, fr: Frame, e: ast.expr, i: int, universal: bool) -> Formula:
        gens = e.generators
        if i == len(gens):
            f = self.bf(fr, e.elt)
            return f_not(f) if universal else f
        g = gens[i]
        src = self.ev(fr, g.iter)
        alts = []
        for value, guard, lp, ckey in self.iteration_plan(fr, src, e):
            saved = self.loops
            if lp is not None:
                self.loops = [*self.loops, lp]
            else:
                self.loops = [*self.loops, Loop(f"u{len(self.loops)}", Coll(), e, fr.fi)]
            try:
                value = self.loop_value(fr, value, lp, e)
                self.assign(fr, g.target, value, e)
                # (the guard of a per-iteration part repeats the path condition it was created under: what holds here anyway is dropped,
                # so that the truth value can be used outside this branch, e.g. stored in a memo table)
                conds = [self.simplify_under(guard, self.guard()), self.take_run_conds(), *[self.bf(fr, c) for c in g.ifs]]
                inner = self._quant_gen(fr, e, i + 1, universal)
                f = conj([*conds, inner])  # existential form (for `all`: a counter-example)
            finally:
                self.loops[-1].active = False
                self.loops = saved
            if ckey is not None:
                f = self.exists(f, ckey)
            alts.append(f)
        ex = disj(alts)
        return ex if i > 0 else (f_not(ex) if universal else ex)

    # ------------------------------------------------------------------ calls (expression level)
    def ev_call(self, fr: Frame, e: ast.Call) -> V:
        fn = e.func
        # quantifiers first (their argument must not be evaluated as a plain collection)
        if isinstance(fn, ast.Name) and fn.id in ("any", "all") and fn.id not in fr.env and len(e.args) == 1 and not e.keywords:
            return BoolV(self.quantified(fr, e.args[0], fn.id == "all"))
        if isinstance(fn, ast.Attribute):
            recv = self.ev(fr, fn.value)
            if isinstance(recv, AltV):
                f = self.mk_alt([(g, self.attr_of(fr, x, fn.attr) if isinstance(x, (Obj, ClassRef, Builtin, SuperRef)) else BoundAPI(x, fn.attr)) for g, x in self.live(recv)])
            else:
                f = self.attr_of(fr, recv, fn.attr) if isinstance(recv, (Obj, ClassRef, Builtin, SuperRef)) else BoundAPI(recv, fn.attr)
        else:
            f = self.ev(fr, fn)
        args: list = []
        for a in e.args:
            if isinstance(a, ast.Starred):
                v = self.ev(fr, a.value)
                if isinstance(v, TupleV):
                    args += v.items
                elif isinstance(v, (Coll, MapV, DictCompV, AltV)) or (isinstance(v, Unknown) and (hasattr(v, "_coll") or v.taint & {"PARSED", "CONVERTED"})):
                    args.append(StarV(v))
                else:
                    self.note(f"{fr.fi.qualname}: star-argument {norm(a, 30)} not expanded")
                    args.append(v)
            else:
                args.append(self.ev(fr, a))
        kwargs = {k.arg: self.ev(fr, k.value) for k in e.keywords if k.arg is not None}
        return self.call_value(fr, f, args, kwargs, e)

    def call_value(self, fr: Frame, f: V, args: list, kwargs: dict, e: ast.Call) -> V:
        if isinstance(f, AltV):
            return self.distribute(f, lambda x: self.call_value(fr, x, args, kwargs, e))
        if isinstance(f, Fn):
            return self.call_fn(fr, f, args, kwargs, e)
        if isinstance(f, ClassRef):
            return self.construct(fr, f.ci, args, kwargs, e)
        if isinstance(f, Builtin):
            if f.name == "super" and not args and fr.selfv is not None and fr.fi.cls is not None:
                return SuperRef(fr.selfv, fr.fi.cls)
            return self.call_builtin(fr, f.name, args, kwargs, e)
        if isinstance(f, PartialV):
            return self.call_value(fr, f.fn, [*f.args, *args], {**f.kwargs, **kwargs}, e)
        if isinstance(f, BoundAPI):
            if isinstance(f.recv, AltV):
                return self.distribute(f.recv, lambda x: self.call_method(fr, x, f.attr, args, kwargs, e))
            return self.call_method(fr, f.recv, f.attr, args, kwargs, e)
        if isinstance(f, Obj):
            # a callable object of the pipeline (`InternalModuleMatcher(prefix)(module)`): its `__call__` is an ordinary method
            m = self.repo.lookup_method(f.cls, "__call__")
            if m is not None and self.transparent_func(m):
                return self.call_fn(fr, Fn(m, f), args, kwargs, e)
        t = self._taints(args, kwargs) | taint_of(f) | {"GAP"}
        return Unknown(f"{key(f)}(..)", t)

    def call_fn(self, fr: Frame, f: Fn, args: list, kwargs: dict, e: ast.Call) -> V:
        fi = f.fi
        if fi.fq in self.internal_fns:
            self.int_calls.append((fr.fi, e))
            self.int_args.append((list(args[1:]), dict(kwargs)))
            subject = args[0] if args else next(iter(kwargs.values()), Unknown("?"))
            return BoolV(self.int_atom(subject))
        if fi.name == "get_parent_modules" and fi.cls is None and (args or kwargs):
            a0 = args[0] if args else next(iter(kwargs.values()))
            if isinstance(a0, Const) and isinstance(a0.value, str):
                return TupleV([Const(n) for n in dotted_ancestors(a0.value)])
            return self.parents_of(fr, a0, e)
        if not self.transparent_func(fi):
            return Unknown(f"{fi.name}({','.join(key(a) for a in args)})", self._taints(args, kwargs) | (taint_of(f.selfv) if f.selfv is not None else frozenset()) | {"GAP"})
        res = self.call_function(fi, args, kwargs, f.selfv, f.closure, e, fr)
        return self.collapse_predicate(fi, f, args, kwargs, res)

    def int_atom(self, subject: V) -> Formula:
        if root_elem(subject) is not None:
            return atom(f"INT[{key(subject)}]")
        return self.free(f"INT({key(subject)})", taint_of(subject))

    def collapse_predicate(self, fi: FuncInfo, f: Fn, args: list, kwargs: dict, res: V) -> V:
        """A pure boolean helper of an element's name whose result only compares strings is one atom `P<fn>[element]`."""
        if not isinstance(res, BoolV):
            return res
        if isinstance(fi.node, ast.Lambda) or fi.outer is not None:
            return res
        if fi.cls is not None and not fi.is_staticmethod and not isinstance(f.selfv, Obj):
            return res
        names = atoms_of(res.f)
        if not names:
            return res
        subj = [a for a in [*args, *kwargs.values()] if root_elem(a) is not None]
        if len(subj) != 1:
            return res
        for a in names:
            if self.taint_of_atom(a) or a.startswith(("INT[", "INSCAN[", "P<", "∃", "∀", "IN[")) or a in ("FLAG", "HAS"):
                return res
        others = [a for a in [*args, *kwargs.values()] if a is not subj[0]]
        if any(taint_of(o) & {"FLAG", "EXT"} for o in others):
            return res
        # named after what it tests, not after the function: a second copy of the same test (an inlined duplicate, a method
        # with the same body) is the same atom.  (Values print as the expression that created them, wherever they travelled.)
        import hashlib

        r = root_elem(subj[0])
        sig = show(rename_sym(res.f, r.sym, "§")) if r is not None else show(res.f)
        name = f"P<{hashlib.sha1(sig.encode()).hexdigest()[:8]}>"
        self.predicates.setdefault(name, fi)
        self.predicate_names.setdefault(name, set()).add(fi.qualname)
        return BoolV(atom(f"{name}[{key(subj[0])}]"))

    def construct(self, fr: Frame, ci: ClassInfo, args: list, kwargs: dict, e: ast.Call) -> V:
        if ci.name == SINK_CLASS or any(c.name == SINK_CLASS for c in self.repo.mro(ci)):
            mods = args[0] if args else kwargs.get("all_modules", Unknown("?"))
            imps = args[1] if len(args) > 1 else kwargs.get("imports", Unknown("?"))
            self.sinks.append(Sink(self._freeze(mods), self._freeze(imps), self.guard(), fr.fi, e))
            return Opaque(ci.name, frozenset())
        if not self.transparent_class(ci):
            t = self._taints(args, kwargs)
            first = args[0] if args else next(iter(kwargs.values()), None)
            payload = first.payload if isinstance(first, Opaque) and first.payload is not None else first
            if ci.name in ("Config", "FileFilter") or any(c.name == "FileFilter" for c in self.repo.mro(ci)):
                fine = self._construct_fieldwise(fr, ci, args, kwargs, first)
                if fine is not None:
                    return fine
                return Opaque(ci.name, t, f"{ci.name}({','.join(key(a) for a in args)})", payload)
            if any(isinstance(a, Opaque) and a.exact and "EXT" in a.taint for a in [*args, *kwargs.values()]) and "Parser" in ci.name:
                # the scanner is given a pattern filter whose tests read the external exclusion patterns
                self.ext_scans.append((fr.fi, e))
                t = t | {"EXTSCAN"}
            colls = [a for a in [*args, *kwargs.values()] if isinstance(a, (Coll, AltV)) or (isinstance(a, Unknown) and a.taint & {"PARSED", "CONVERTED"})]
            if len(colls) >= 2 and not ci.module.name.startswith(SCAN_PKG):
                self.other_sinks.append((ci, [self._freeze(a) for a in colls], self.guard(), fr.fi, e))
            return Opaque(ci.name, t, f"{ci.name}({','.join(key(a) for a in args)})")
        obj = Obj(ci)
        init = self.repo.lookup_method(ci, "__init__")
        if init is not None and self.transparent_func(init):
            self.call_function(init, args, kwargs, obj, None, e, fr)
        elif init is None and (args or kwargs):
            # dataclass-like: positional arguments become the annotated fields
            fields = [a for c in reversed(self.repo.mro(ci)) for a in c.ann_attrs]
            for n, v in zip(fields, args):
                obj.fields[n] = v
            obj.fields.update(kwargs)
        post = self.repo.lookup_method(ci, "__post_init__")
        if post is not None and init is None:
            self.call_function(post, [], {}, obj, None, e, fr)
        return obj

    def _construct_fieldwise(self, fr: Frame, ci: ClassInfo, args: list, kwargs: dict, first: "V | None") -> "Opaque | None":
        """Config(..) / FileFilter(config) with the configuration followed attribute by attribute: the filter carries the patterns
        (and the taint) of exactly those attributes that its tests `is_excluded` / `has_filter` read.  None: the classes are not
        of the simple shape the summary understands - the caller falls back to `the filter is built from the first argument`."""
        if ci.name == "Config":
            if "Config" not in self._vocab:
                self._vocab["Config"] = config_fields(ci)
            fields = self._vocab["Config"]
            if not fields or len(args) > len(fields) or any(k_ not in dict(fields) for k_ in kwargs) or any(isinstance(a, StarV) for a in args):
                return None
            vals: dict = {}
            for (name, default), a in zip(fields, args):
                vals[name] = a
            vals.update(kwargs)
            for name, default in fields:
                if name not in vals:
                    if default is None:
                        return None
                    vals[name] = self.ev(self.module_frame(next(iter(ci.methods.values()), fr.fi)), default) if not isinstance(default, ast.Call) else Unknown(norm(default, 30), frozenset({"GAP"}))
            t = frozenset()
            for v in vals.values():
                t |= self.value_taint(v)
            payload = first.payload if isinstance(first, Opaque) and first.payload is not None else first
            return Opaque(ci.name, t, f"{ci.name}({','.join(key(a) for a in args)})", payload, cfg=vals)
        if ci.name == "FileFilter" and isinstance(first, Opaque) and first.cfg is not None and len(args) + len(kwargs) == 1:
            if "FileFilter" not in self._vocab:
                self._vocab["FileFilter"] = filter_reads(ci)
            reads = self._vocab["FileFilter"]
            if not reads or not reads.get("is_excluded"):
                return None
            rel = sorted(reads["is_excluded"] | reads.get("has_filter", frozenset()))
            if any(a not in first.cfg for a in rel):
                return None
            vals_ = [first.cfg[a] for a in rel]
            some = [v for v in vals_ if self.patterns_empty(v) != TRUE]
            t = frozenset()
            for v in some:
                t |= self.value_taint(v)
            if any("GAP" in self.value_taint(v) for v in vals_):
                return None
            payload = some[0] if len(some) == 1 else (vals_[0] if not some else None)
            # exact: what depends on the external options among the attributes read IS the external pattern tuple (possibly
            # defaulted / copied / concatenated), not merely a value the interpreter could not separate from it
            exact = all("EXT" not in self.value_taint(v) or self._is_pattern_tuple(v) for v in some)
            return Opaque(ci.name, t, f"{ci.name}({key(first)})", payload, exact=exact)
        return None

    def _is_pattern_tuple(self, v: V) -> bool:
        if isinstance(v, Unknown):
            return v.patterns or getattr(v, "_pattern_tuple", False)
        if isinstance(v, AltV):
            return all(self._is_pattern_tuple(x) or self.patterns_empty(x) == TRUE for _g, x in v.alts) and any(self._is_pattern_tuple(x) for _g, x in v.alts)
        return False

    def _freeze(self, v: V) -> V:
        if isinstance(v, Coll):
            return v.snapshot()
        if isinstance(v, (Unknown, AltV, TupleV, MapV, DictV, EnumV, DictCompV)):
            return self.as_coll(v).snapshot()
        return v

    COPIERS = {"list", "set", "frozenset", "tuple", "sorted", "reversed", "iter", "dict.fromkeys", "copy.copy", "copy", "collections.OrderedDict.fromkeys", "OrderedDict.fromkeys", "collections.deque", "deque"}

    def call_builtin(self, fr: Frame, name: str, args: list, kwargs: dict, e: ast.Call) -> V:
        t = self._taints(args, kwargs)
        if name in self.COPIERS:
            if not args:
                return Coll()
            a = args[0]
            if isinstance(a, Unknown) and a.patterns:
                return Unknown(f"{name}({a.text})", a.taint, False, patterns=True)
            c = self.copy_of(a)
            c.keyed = name.endswith("fromkeys")
            return c
        if name in ("itertools.accumulate", "accumulate") and args and self.concrete:
            # (concrete runs) running totals of a sequence whose elements are all known, carried out step by step
            seq = self._sequence_items(args[0])
            fn_ = args[1] if len(args) > 1 else kwargs.get("func")
            if seq is not None and (seq[1] == TRUE or seq[1] == self.guard() or self.sat(conj([self.guard(), seq[1]]))) and len(seq[0]) <= 32:
                items_ = list(seq[0])
                if "initial" in kwargs and not isinstance(kwargs["initial"], NoneV):
                    items_ = [kwargs["initial"], *items_]
                outs: list = []
                acc_: "V | None" = None
                for it_ in items_:
                    if acc_ is None:
                        acc_ = it_
                    elif fn_ is None or isinstance(fn_, NoneV):
                        ca_, cb_ = conc(acc_), conc(it_)
                        acc_ = absv(ca_ + cb_) if ca_ is not _NOCONC and cb_ is not _NOCONC else Unknown("accumulate(..)", frozenset({"GAP"}))
                    else:
                        acc_ = self.call_value(fr, fn_, [acc_, it_], {}, e)
                    outs.append(acc_)
                return TupleV(outs)
        if name in ("itertools.chain", "chain"):
            out = Coll()
            for a in args:
                self.coll_extend(fr, out, a, e)
            return out
        if name in ("itertools.chain.from_iterable", "chain.from_iterable") and len(args) == 1:
            out = Coll(label="chain.from_iterable(..)")
            self.flatten_into(fr, out, args[0], e)
            return out
        if name in ("functools.reduce", "reduce") and len(args) in (2, 3):
            return self.builtin_reduce(fr, args, e)
        if name == "filter" and len(args) == 2:
            return self.builtin_filter(fr, args[0], args[1], e, keep=True)
        if name in ("itertools.filterfalse", "filterfalse") and len(args) == 2:
            return self.builtin_filter(fr, args[0], args[1], e, keep=False)
        if name in ("len", "str", "int", "tuple", "list", "reversed", "sorted", "range", "min", "max", "sum", "abs") and args and not kwargs:
            cargs = [conc(a) for a in args]
            if all(a is not _NOCONC for a in cargs) and not (name in ("tuple", "list", "sorted", "reversed", "len") and not isinstance(cargs[0], (str, tuple))):
                try:
                    fn = {"len": len, "str": str, "int": int, "tuple": tuple, "list": tuple, "reversed": lambda x: tuple(reversed(x)), "sorted": lambda x: tuple(sorted(x)), "range": lambda *a: tuple(range(*a)), "min": min, "max": max, "sum": sum, "abs": abs}[name]
                    out = fn(*cargs)
                    if not (isinstance(out, tuple) and len(out) > 64):
                        return absv(out)
                except Exception:  # noqa: BLE001
                    pass
        if name == "sum" and len(args) == 1 and not kwargs and isinstance(args[0], Coll):
            items_ = [it_ for p_ in args[0].parts if p_.kind == "lit" for it_ in p_.items]
            if args[0].parts and all(p_.kind == "lit" and not p_.partial for p_ in args[0].parts) and all(isinstance(it_, Const) and isinstance(it_.value, (int, float)) and it_.value > 0 for it_ in items_):
                # `sum(1 for x in xs if p(x))`: zero exactly when nothing is counted
                u = Unknown(f"sum({key(args[0])})", taint_of(args[0]), False)
                u._len_of = args[0]  # type: ignore[attr-defined]
                return u
        if name == "object" and not args and not kwargs:
            return Const(f"<object@{fr.fi.module.name}:{getattr(e, 'lineno', 0)}:{getattr(e, 'col_offset', 0)}>")  # a sentinel: equal to itself only
        if name == "bool" and len(args) == 1:
            return BoolV(self.truth(args[0]))
        if name in ("dataclasses.replace", "replace") and len(args) == 1 and isinstance(args[0], Obj):
            return Obj(args[0].cls, {**args[0].fields, **kwargs})
        if name == "len" and len(args) == 1:
            a = args[0]
            u = Unknown(f"len({key(a)})", taint_of(a), False)
            u._len_of = a  # type: ignore[attr-defined]
            return u
        if name == "isinstance" and len(args) == 2:
            known = self.isinstance_of(args[0], args[1])
            if known is not None:
                return Const(known)
            return BoolV(self.free(f"ISINST[{key(args[0])}:{key(args[1])}]", taint_of(args[0])))
        if name == "id" and len(args) == 1 and isinstance(args[0], (Elem, Importee, Anc)):
            return args[0]  # the identity of an element stands for the element
        if name == "str" and args:
            a = args[0]
            if isinstance(a, (Importee, Elem, Anc)):
                return a
            return Unknown(f"str({key(a)})", t, False)
        if name in ("print", "logging.debug", "logging.info", "warnings.warn"):
            return NoneV()
        if name == "getattr" and len(args) in (2, 3) and not kwargs:
            obj_, nm = args[0], args[1]
            if isinstance(nm, AltV) and all(isinstance(a_, Const) and isinstance(a_.value, str) for _g, a_ in nm.alts):
                return self.mk_alt([(g_, self.call_builtin(fr, "getattr", [obj_, a_, *args[2:]], {}, e)) for g_, a_ in self.live(nm)])
            if isinstance(nm, Const) and isinstance(nm.value, str):
                if isinstance(obj_, (Obj, ClassRef, SuperRef)):
                    known = isinstance(obj_, Obj) and (nm.value in obj_.fields or self.repo.lookup_method(obj_.cls, nm.value) is not None or any(nm.value in c_.class_attrs for c_ in self.repo.mro(obj_.cls)))
                    if known or not isinstance(obj_, Obj):
                        return self.attr_of(fr, obj_, nm.value)
                    if len(args) == 3:
                        return args[2]
                elif isinstance(obj_, (Opaque, Elem, Importee, Anc, ConcImport)):
                    return BoundAPI(obj_, nm.value)
        if name in ("functools.partial", "partial") and args:
            return PartialV(args[0], args[1:], dict(kwargs))
        if name in ("functools.lru_cache", "lru_cache", "functools.cache", "cache", "<memoising-wrapper>"):
            # `lru_cache(maxsize=None)(f)` / `cache(f)`: the wrapper answers what `f` answers (shared caches are the business of R5)
            if len(args) == 1 and not kwargs and isinstance(args[0], (Fn, BoundAPI, PartialV, Obj, AltV)):
                return args[0]
            if name != "<memoising-wrapper>" and not any(isinstance(a, (Fn, BoundAPI, PartialV, Obj, AltV)) for a in args):
                return Builtin("<memoising-wrapper>")
        if name in ("operator.methodcaller", "methodcaller") and args and isinstance(args[0], Const) and isinstance(args[0].value, str):
            return PartialV(Builtin("<methodcaller>"), [args[0], *args[1:]], dict(kwargs))
        if name == "<methodcaller>" and len(args) >= 2 and isinstance(args[0], Const):
            # methodcaller(name, *a)(obj) == obj.name(*a)
            return self.call_value(fr, self.attr_of(fr, args[-1], args[0].value) if isinstance(args[-1], (Obj, ClassRef, AltV, SuperRef)) else BoundAPI(args[-1], args[0].value), list(args[1:-1]), kwargs, e)
        if name == "next" and len(args) == 2:
            # next(iterable, default): the default exactly when the iterable is empty
            c0 = self.as_coll(args[0])
            ne = self.nonempty(c0)
            consts = [it_ for p_ in c0.parts if p_.kind == "lit" for it_ in p_.items]
            if c0.parts and all(p_.kind == "lit" and not p_.partial for p_ in c0.parts) and consts and all(isinstance(it_, Const) and type(it_.value) is type(consts[0].value) and it_.value == consts[0].value for it_ in consts):
                # `next((True for x in xs if p(x)), False)`: every element is the same constant - the first one is that constant
                return self.mk_alt([(ne, consts[0]), (f_not(ne), args[1])])
            return self.mk_alt([(ne, Unknown(f"next({key(args[0])})", self.value_taint(args[0]), False)), (f_not(ne), args[1])])
        if name == "map" and len(args) == 2:
            return MapV(args[0], args[1])
        if name == "enumerate" and args:
            st = args[1] if len(args) > 1 else kwargs.get("start", Const(0))
            return EnumV(args[0], start=st.value if isinstance(st, Const) and isinstance(st.value, int) and not isinstance(st.value, bool) else None)
        if name in ("itertools.groupby", "groupby") and len(args) == 1 and not kwargs:
            return EnumV(args[0], grouped=True)
        if name in ("dict", "collections.OrderedDict", "OrderedDict") and not args and not kwargs:
            return Coll(label=f"{name}()@{e.lineno}", keyed=True)
        if name in ("dict", "collections.OrderedDict", "OrderedDict") and len(args) == 1 and isinstance(args[0], Coll) and args[0].keyed and not kwargs:
            c = self.copy_of(args[0])
            c.keyed = True
            c.stores = list(args[0].stores)
            c.store_guards = list(args[0].store_guards)
            return c
        if name in ("dict", "collections.defaultdict", "defaultdict", "collections.OrderedDict", "OrderedDict", "collections.Counter", "Counter"):
            return DictV(f"{name}()@{e.lineno}", t | (frozenset({"GAP"}) if args else frozenset()))
        if name == "map":
            self.note(f"{fr.fi.qualname}: map(..) over several iterables not modelled")
            return Unknown("map(..)", t | {"GAP"})
        if name in ("zip", "range", "min", "max", "sum", "next", "getattr", "hash", "id", "repr", "int", "abs"):
            return Unknown(f"{name}({','.join(key(a) for a in args)})", t | ({"GAP"} if name in ("next", "getattr", "zip") else frozenset()), None if name in ("next", "getattr") else False)
        if name.endswith("Exception") or name.endswith("Error"):
            return Opaque(name, t)
        return Unknown(f"{name}({','.join(key(a) for a in args)})", t)

    def isinstance_of(self, v: V, cls: V) -> "bool | None":
        """isinstance(v, cls) where the model knows the class of the value (objects it built itself, vocabulary objects)."""
        classes = cls.items if isinstance(cls, TupleV) else [cls]
        if not all(isinstance(c, ClassRef) for c in classes):
            return None
        if isinstance(v, Obj):
            return any(any(m.fq == c.ci.fq for m in self.repo.mro(v.cls)) for c in classes)
        if isinstance(v, Opaque):
            cands = [ci for ci in self.repo.classes.values() if ci.name == v.cls]
            if len(cands) == 1:
                return any(any(m.fq == c.ci.fq for m in self.repo.mro(cands[0])) for c in classes)
            return None
        if isinstance(v, (Const, NoneV, BoolV, Coll, TupleV, DictV, Fn)):
            return False
        if isinstance(v, Unknown) and (v.patterns or v.flag):
            return False  # a tuple of patterns / a truth value, not an instance of a repository class
        return None

    def dict_lookup(self, d: DictV, k: V, default: "V | None" = None) -> "V | None":
        """Value of a literal entry for the key (the very key object, an equal constant; alternatives of keys distribute).
        `default`: what a missing key yields (`.get`) - only for a literal that is never written to and constant keys."""
        if not d.entries:
            return None
        if isinstance(k, AltV):
            res = []
            for g, x in self.live(k):
                hit = self.dict_lookup(d, x, default)
                if hit is None:
                    return None
                res.append((g, hit))
            return self.mk_alt(res)
        for kk, val in d.entries:
            if kk is k or (isinstance(kk, Const) and isinstance(k, Const) and kk.value == k.value):
                return val
        if default is not None and not d.stores and isinstance(k, Const) and all(isinstance(kk, Const) for kk, _ in d.entries):
            return default
        return None

    def builtin_reduce(self, fr: Frame, args: list, e: ast.Call) -> V:
        """reduce(f, xs, init) where f returns its accumulator extended: the initial collection plus what one generic step adds."""
        f, xs = args[0], args[1]
        if isinstance(xs, TupleV) and (len(args) == 3 or xs.items):
            # a literal sequence: the fold is carried out step by step
            acc_v = args[2] if len(args) == 3 else xs.items[0]
            for item in (xs.items if len(args) == 3 else xs.items[1:]):
                acc_v = self.call_value(fr, f, [acc_v, item], {}, e)
            return acc_v
        if len(args) < 3:
            self.note(f"{fr.fi.qualname}: reduce without initial value not modelled")
            return Unknown("reduce(..)", self._taints(args, {}) | {"GAP"})
        if isinstance(args[2], BoolV) or (isinstance(args[2], Const) and isinstance(args[2].value, bool)):
            folded = self._reduce_bool(fr, f, xs, args[2], e)
            if folded is not None:
                return folded
        acc = self.copy_of(args[2])
        n0 = len(acc.parts)
        first = list(acc.parts)
        ok = True
        for value, g, lp, _ckey in self.iteration_plan(fr, xs, e):
            self.frames.append(g)
            saved = self.loops
            self.loops = [*self.loops, lp if lp is not None else Loop(f"u{len(self.loops)}", Coll(), e, fr.fi)]
            try:
                el = self.loop_value(fr, value, lp, e)
                self.frames[-1] = conj([self.frames[-1], self.take_run_conds()])
                res = self.call_value(fr, f, [acc, el], {}, e)
            finally:
                self.loops[-1].active = False
                self.loops = saved
                self.frames.pop()
            if res is acc:
                continue  # extended in place and handed back
            rc = self.as_coll(res) if isinstance(res, (Coll, AltV, TupleV)) else None
            if rc is not None and len(rc.parts) >= n0 and all(any(q is p or q == p or (q.kind == p.kind and q.base == p.base and q.src is p.src and q.items == p.items and q.node is p.node) for q in rc.parts) for p in first):
                # a new collection that contains the accumulator: keep what was added
                extra = [q for q in rc.parts if not any(q is p or (q.kind == p.kind and q.base == p.base and q.src is p.src and q.items == p.items and q.node is p.node) for p in acc.parts)]
                acc.parts += extra
                continue
            ok = False
        if not ok:
            self.note(f"{fr.fi.qualname}: reduce with a step function that does not hand back its (extended) accumulator is not modelled")
            return Unknown("reduce(..)", self._taints(args, {}) | {"GAP"})
        return acc

    def _reduce_bool(self, fr: Frame, f: V, xs: V, init: V, e: ast.Call) -> "V | None":
        """reduce(step, xs, <truth value>) with a monotone step: `acc or p(x)` (true once some element passes) or `acc and p(x)`
        (true while every element passes).  Which of the two is read off the step itself: step(True, x) is true / step(False, x)
        is false whatever x.  None: neither."""
        acc = self.truth(init)
        for value, g, lp, ckey in self.iteration_plan(fr, xs, e):
            self.frames.append(g)
            saved = self.loops
            self.loops = [*self.loops, lp if lp is not None else Loop(f"u{len(self.loops)}", Coll(), e, fr.fi)]
            try:
                el = self.loop_value(fr, value, lp, e)
                cond = self.take_run_conds()
                self.frames[-1] = conj([self.frames[-1], cond])
                t_true = self.truth(self.call_value(fr, f, [Const(True), el], {}, e))
                t_false = self.truth(self.call_value(fr, f, [Const(False), el], {}, e))
                here = conj([self.simplify_under(g, conj(self.frames[:-1])), cond])
            finally:
                self.loops[-1].active = False
                self.loops = saved
                self.frames.pop()
            if t_true == TRUE:
                step = conj([here, t_false])
                acc = disj([acc, self.exists(step, ckey) if ckey is not None else step])
            elif t_false == FALSE:
                bad = conj([here, f_not(t_true)])
                acc = conj([acc, f_not(self.exists(bad, ckey) if ckey is not None else bad)])
            else:
                return None
        return BoolV(acc)

    def builtin_filter(self, fr: Frame, pred: V, src: V, e: ast.Call, keep: bool) -> V:
        """filter(pred, xs) / filterfalse: like `[x for x in xs if pred(x)]` (generic element, unrolled per-element values)."""
        out = Coll()
        for value, g, lp, _ckey in self.iteration_plan(fr, src, e):
            self.frames.append(g)
            saved = self.loops
            self.loops = [*self.loops, lp if lp is not None else Loop(f"u{len(self.loops)}", Coll(), e, fr.fi)]
            pushed = 1
            try:
                el = self.loop_value(fr, value, lp, e)
                self.frames.append(self.take_run_conds())
                pushed += 1
                f = self.truth(el) if isinstance(pred, NoneV) else self.truth(self.call_value(fr, pred, [el], {}, e))
                self.frames.append(f if keep else f_not(f))
                pushed += 1
                self.coll_add(fr, out, el, e)
            finally:
                self.loops[-1].active = False
                self.loops = saved
                del self.frames[len(self.frames) - pushed:]
        return out

    STR_PRESERVING = {"rstrip", "lstrip", "strip", "lower", "upper", "replace", "removeprefix", "removesuffix", "format", "join", "split", "rsplit", "partition", "rpartition", "splitlines", "title", "casefold", "encode", "as_posix", "with_suffix", "relative_to", "resolve", "count", "find", "rfind", "index", "rindex"}

    def call_method(self, fr: Frame, recv: V, attr: str, args: list, kwargs: dict, e: ast.Call) -> V:
        t = self._taints(args, kwargs) | taint_of(recv)
        if isinstance(recv, ConcImport):
            if attr == "importee" and not args:
                return Const(recv.name)
            if attr == "importee_parent_modules" and not args:
                return TupleV([Const(n) for n in dotted_ancestors(recv.name)])
            if attr == "importer" and not args:
                return Const("zz.importer")
            if attr == "importer_parent_modules" and not args:
                return TupleV([Const("zz")])
            return Unknown(f"{key(recv)}.{attr}(..)", t | {"GAP"})
        if isinstance(recv, Const) and isinstance(recv.value, str) and attr in CONCRETE_STR_METHODS and not kwargs:
            cargs = [conc(a) for a in args]
            if all(a is not _NOCONC for a in cargs):
                if attr in CUT_METHODS and "." in recv.value:
                    self.cuts.append((fr.fi, norm(e, 60), e))
                try:
                    return absv(getattr(recv.value, attr)(*[list(a) if isinstance(a, tuple) and attr == "join" else a for a in cargs]))
                except Exception:  # noqa: BLE001 - e.g. index() of a missing separator: the path raises
                    return Unknown(f"{recv.value!r}.{attr}(..)", frozenset({"GAP"}))
        # ---- elements of the pipeline: the public Import API
        if isinstance(recv, Elem):
            if attr == "importee" and not args:
                return Importee(recv)
            if attr == "importee_parent_modules" and not args:
                return self.parents_of(fr, Importee(recv), e)
            if attr in ("importer", "importer_parent_modules"):
                return Unknown(f"{recv.sym}.{attr}()", maybe_none=False)
        if isinstance(recv, (Importee, Elem, Anc)):
            if attr in ("startswith", "endswith", "__eq__", "__contains__", "isidentifier"):
                return BoolV(self.free(f"STR[{key(recv)}].{attr}({','.join(key(a) for a in args)})", self._taints(args, kwargs)))
            return Unknown(f"{key(recv)}.{attr}({','.join(key(a) for a in args)})", self._taints(args, kwargs), False if attr in self.STR_PRESERVING else None)
        # ---- collections
        if isinstance(recv, Coll) or (isinstance(recv, Unknown) and (hasattr(recv, "_coll") or "PARSED" in recv.taint) and attr in ("append", "add", "extend", "update", "copy", "union", "difference", "intersection", "insert", "remove", "discard", "clear", "pop", "popleft", "appendleft", "extendleft", "setdefault", "get", "difference_update", "intersection_update", "sort", "reverse", "items", "keys", "values", "issubset", "issuperset", "isdisjoint", "count", "index", "__contains__")):
            return self.coll_method(fr, self.as_coll(recv), attr, args, kwargs, e)
        # ---- vocabulary objects
        if isinstance(recv, Opaque):
            if attr in ("is_excluded", "has_filter") and recv.payload is not None:
                empty = self.patterns_empty(recv.payload)
                if empty == TRUE:
                    return Const(False)  # a filter without patterns matches nothing
                if empty != FALSE and isinstance(recv.payload, AltV):
                    # built from alternatives (`() if patterns is None else patterns`): nothing matches in the empty ones
                    res = self.call_method(fr, Opaque(recv.cls, recv.taint | {"EXT"}, recv.text), attr, args, kwargs, e)
                    return BoolV(conj([f_not(empty), self.truth(res)]))
            if "EXT" in recv.taint:
                if attr == "is_excluded" and args:
                    subject = args[0]
                    if root_elem(subject) is not None:
                        return BoolV(atom(f"EXCL[{key(subject)}]"))
                    return BoolV(self.free(f"EXCL({key(subject)})", frozenset({"EXT"})))
                if attr == "has_filter":
                    return BoolV(atom("HAS"))
            if "EXT" in recv.taint and not ("EXTSCAN" in recv.taint and "Parser" in recv.cls):
                # a further method of the pattern filter (not one of its two primitives): interpreted with the filter as `self`;
                # whatever it does with the patterns goes through is_excluded / has_filter or stays unknown
                for ci in self.repo.classes.values():
                    if ci.name == recv.cls:
                        m = self.repo.lookup_method(ci, attr)
                        if m is not None and not m.is_abstract and attr not in ("__init__", "is_excluded", "has_filter") and "singledispatchmethod" not in m.decorators:
                            return self.call_function(m, args, kwargs, recv, None, e, fr)
                        break
            if recv.cls == "Parser" or attr == "parse" and "Parser" in recv.cls:
                return Unknown(f"{recv.cls}.{attr}()", recv.taint | {"PARSED"}, False)
            if recv.cls == "ImportConverter":
                return Unknown(f"{recv.cls}.{attr}()", (t | {"CONVERTED"}) - {"PARSED"}, False)
            return Unknown(f"{key(recv)}.{attr}({','.join(key(a) for a in args)})", t | {"GAP"})
        if isinstance(recv, Obj):
            m = self.repo.lookup_method(recv.cls, attr)
            if m is not None:
                return self.call_fn(fr, Fn(m, recv), args, kwargs, e)
            if attr == "_replace" and not args:  # NamedTuple
                return Obj(recv.cls, {**recv.fields, **kwargs})
            if attr == "_asdict" and not args:
                return DictV(f"{key(recv)}._asdict()", self._taints(list(recv.fields.values()), {}))
            fv = recv.fields.get(attr)
            if isinstance(fv, Fn):
                return self.call_fn(fr, fv, args, kwargs, e)
            return Unknown(f"{key(recv)}.{attr}(..)", t | {"GAP"})
        if isinstance(recv, Unknown):
            if recv.patterns and attr in ("__len__", "__bool__"):
                return Unknown(f"{recv.text}.{attr}()", recv.taint, False, patterns=True)
            if "PARSED" in recv.taint or "CONVERTED" in recv.taint:
                return Unknown(f"{recv.text}.{attr}(..)", t)
            return Unknown(f"{recv.text}.{attr}({','.join(key(a) for a in args)})", t, False if attr in self.STR_PRESERVING else None)
        if isinstance(recv, DictCompV):
            if attr in ("items", "values", "keys") and not args:
                return DictCompV(recv.node, recv.fr, recv.env, attr)
            return Unknown(f"{key(recv)}.{attr}(..)", t | recv.taint | {"GAP"})
        if isinstance(recv, DictV) and attr in ("get", "__getitem__") and args:
            hit = self.dict_lookup(recv, args[0], (args[1] if len(args) > 1 else NoneV()) if attr == "get" else None)
            if hit is not None:
                return hit
        if isinstance(recv, DictV):
            if attr in ("setdefault", "update", "__setitem__"):
                for a in [*args, *kwargs.values()]:
                    recv.taint |= self.value_taint(a)
                if attr in ("setdefault", "__setitem__") and len(args) == 2:
                    recv.stores.append((key(args[0]), args[1]))
                    if attr == "setdefault" and root_elem(args[0]) is not None:
                        return args[1]
            return Unknown(f"{recv.text}.{attr}({','.join(key(a) for a in args)})", t | recv.taint | {"GAP"})
        if isinstance(recv, Const) and isinstance(recv.value, str):
            return Unknown(f"{recv.value!r}.{attr}({','.join(key(a) for a in args)})", t, False)
        if isinstance(recv, TupleV):
            return Unknown(f"{key(recv)}.{attr}(..)", t | {"GAP"})
        return Unknown(f"{key(recv)}.{attr}(..)", t | {"GAP"})

    def _keyed_lookup(self, c: Coll, k: V, default: "V | None") -> "V | None":
        """(concrete runs) What a table holds under a constant key when every store into it was followed and used a constant key:
        the value of the last store whose condition holds, else `default`.  None: not that simple (generic keys, partial parts)."""
        if not self.concrete or not c.keyed or conc(k) is _NOCONC or len(c.stores) != len(c.store_guards):
            return None
        if any(p.partial or p.kind != "lit" for p in c.parts) or any(not is_c for _g, is_c in c.store_guards) or c.removals:
            return None
        kk = key(k)
        alts: list = []
        rest: Formula = TRUE
        for (k_, val), (g, _c) in zip(reversed(c.stores), reversed(c.store_guards)):
            if k_ != kk:
                continue
            alts.append((conj([rest, g]), val))
            rest = conj([rest, f_not(g)])
        if default is None:
            return Unknown("<lookup>")  # (only asked whether the lookup is exact)
        alts.append((rest, default))
        return self.mk_alt(alts)

    def coll_method(self, fr: Frame, c: Coll, attr: str, args: list, kwargs: dict, e: ast.Call) -> V:
        if attr in ("append", "add", "appendleft") and args:
            self.coll_add(fr, c, args[0], e)
            return NoneV()
        if attr == "setdefault" and args and c.keyed:
            before = self._keyed_lookup(c, args[0], None)
            absent = f_not(self.member(args[0], c)) if before is not None else TRUE
            self.coll_add(fr, c, args[0], e)
            if len(args) > 1:
                c.stores.append((key(args[0]), args[1]))
                c.store_guards.append((conj([self.guard(), absent]), conc(args[0]) is not _NOCONC))
                if before is not None:
                    return self._keyed_lookup(c, args[0], args[1])  # what was there, else what was just stored
                return args[1]
            return NoneV()
        if attr == "get" and args and c.keyed:
            hit = self._keyed_lookup(c, args[0], args[1] if len(args) > 1 else NoneV())
            if hit is not None:
                return hit
            for k_, val in reversed(c.stores):
                if k_ == key(args[0]):
                    # stored before (by this or an earlier iteration of the same code) or missing
                    return self.mk_alt([(self.member(args[0], c), val), (f_not(self.member(args[0], c)), args[1] if len(args) > 1 else NoneV())])
            if self.concrete and conc(args[0]) is not _NOCONC and not any(p.partial or p.kind != "lit" for p in c.parts) and self.member(args[0], c) == FALSE:
                # (concrete runs) every store into the table was followed and none used this constant key: missing
                return args[1] if len(args) > 1 else NoneV()
            return Unknown(f"{key(c)}.get(..)", self.value_taint(c) | {"GAP"})
        if attr == "insert" and len(args) == 2:
            self.coll_add(fr, c, args[1], e)
            return NoneV()
        if attr in ("extend", "update", "extendleft"):
            for a in args:
                self.coll_extend(fr, c, a, e)
            return NoneV()
        if attr == "copy":
            return self.copy_of(c)
        if attr == "union":
            out = self.copy_of(c)
            for a in args:
                self.coll_extend(fr, out, a, e)
            return out
        if attr in ("difference", "intersection") and len(args) == 1:
            return self.set_algebra(fr, c, args[0], ast.Sub() if attr == "difference" else ast.BitAnd(), e)
        if attr in ("difference_update", "intersection_update") and len(args) == 1:
            new = self.set_algebra(fr, c.snapshot(), args[0], ast.Sub() if attr == "difference_update" else ast.BitAnd(), e)
            c.parts[:] = new.parts  # in place
            return NoneV()
        if attr in ("pop", "popleft"):
            for lp in reversed(self.loops):
                if getattr(lp, "worklist", None) is c and lp.active:
                    return Elem(lp.sym, lp)
        if attr in ("remove", "discard", "pop", "popleft", "clear", "popitem"):
            c.removals.append((self.guard(), norm(e, 60), fr.fi, e))
            return Unknown(f"{key(c)}.{attr}()", frozenset({"GAP"})) if attr in ("pop", "popitem", "popleft") else NoneV()
        if attr in ("sort", "reverse"):
            return NoneV()
        if attr in ("keys", "values"):
            return self.copy_of(c)
        if attr == "items":
            self.note(f"{fr.fi.qualname}: .items() of a tracked collection not modelled")
            return Unknown(f"{key(c)}.items()", frozenset({"GAP"}))
        if attr == "__contains__" and args:
            return BoolV(self.member(args[0], c))
        if attr in ("issubset", "issuperset", "isdisjoint") and len(args) == 1:
            a, b = (c, self.as_coll(args[0])) if attr != "issuperset" else (self.as_coll(args[0]), c)
            # isdisjoint: no element of one is in the other;  a <= b: no element of a is outside b
            if attr == "isdisjoint":
                # symmetric: iterate the side that unrolls into the names of the current element (a per-element collection)
                plan_a = self.iteration_plan(fr, a, e)
                if any(lp is not None for _v, _g, lp, _k in plan_a):
                    plan_b = self.iteration_plan(fr, b, e)
                    if not any(lp is not None for _v, _g, lp, _k in plan_b):
                        a, b = b, a
            alts = []
            for value, g, lp, ckey in self.iteration_plan(fr, a, e):
                saved = self.loops
                self.loops = [*self.loops, lp if lp is not None else Loop(f"u{len(self.loops)}", Coll(), e, fr.fi)]
                try:
                    el = self.loop_value(fr, value, lp, e)
                    m = self.member(el, b)
                    f_ = conj([g, self.take_run_conds(), m if attr == "isdisjoint" else f_not(m)])
                finally:
                    self.loops[-1].active = False
                    self.loops = saved
                if ckey is not None:
                    f_ = self.exists(f_, ckey)
                alts.append(f_)
            return BoolV(f_not(disj(alts)))
        if attr in ("count", "index"):
            return Unknown(f"{key(c)}.{attr}(..)", self._taints(args, kwargs) | {"GAP"})
        return Unknown(f"{key(c)}.{attr}(..)", self._taints(args, kwargs) | {"GAP"})


# --------------------------------------------------------------------------- queries on the descriptions


def retention(c: Coll, sym: str, base_ok: Callable[[str], bool]) -> Formula:
    """Condition under which the generic element `sym` of an accepted base is an element of `c`."""
    alts = []
    for p in c.parts:
        if p.kind == "base":
            if base_ok(p.base):
                alts.append(p.guard)
        elif p.kind == "filter":
            alts.append(conj([rename_sym(p.guard, p.sym, sym), retention(p.src, sym, base_ok)]))
    return disj(alts)


def walk_parts(c: Coll, down: Formula = TRUE, seen: "set | None" = None):
    """(part, condition imposed by the filters between the part and the collection) for every part the collection is built from.

    The downstream condition is expressed on the filter's own element symbol `@`; the caller renames it to the name added by the part.
    """
    for p in c.parts:
        yield p, down
        if p.kind == "filter" and p.src is not None:
            yield from walk_parts(p.src, conj([down, rename_sym(p.guard, p.sym, "@")]))


def bases_of(c: Coll) -> list[Part]:
    return [p for p, _ in walk_parts(c) if p.kind == "base"]
