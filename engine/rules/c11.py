"""C11 - regex, partial-name and batched specifications equal their expansions (relational, by construction).

Every rule works on the *inlined view* (core/inline_stmt.py) of a public entry point and on role-based anchors, never on private
names, local variable names or one loop idiom:

  C11.R1  entry = the matcher method Rule.assert_applies runs on the evaluable.  In its view: ModuleNameConverter.convert runs
          unconditionally before every graph query, against the evaluable being queried (the parameter, or a local / field that
          provably holds it), on the requirement as given to the constructor; the queries, and the detectors / message generators
          built outside the view, receive values whose provenance (c11_prov.py) is this evaluation's conversion of both sides -
          never pre-state (raw or stale).  State kept between evaluations is only a violation if Rule.assert_applies does not
          create a fresh matcher per call (a factory stored in place of the matcher class is followed: it must create the matcher
          it returns).  A conversion under a condition on the *rule* (not on the matcher's state) is followed branch by branch:
          without the conversion a side may stay as specified only if the branch shows that it holds no regex filter, and may
          share the other side's conversion only if the branch shows that both specifications are equal.  The class view
          (c11_lib.class_view) takes apart helper calls in argument position, conditional / boolean expressions around them,
          constructors of helper classes that own a part of the pipeline and try/except wrappers; a helper that hands out
          conversions without being taken apart (a generator) stands for the conversions it makes; a graph query that is
          reachable from the entry point but not shown by the view is undecided, never passed over.
  C11.R2  view of ModuleNameConverter.convert, described as collections (c11_coll.py): result[0] is exactly
          {ModuleNameFilter(m) | m in arch.modules, f in modules, f regex, re.match(f.identifier, m)} + {f | f in modules, f not regex};
          no early exit from the scan; ImpossibleMatch is raised iff the set of never-matched patterns (all patterns minus matched
          ones, in any of its spellings) is non-empty, and the test dominates the return.
  C11.R3  view of Rule.have_name_containing: the list stored into the rule's state is
          {ModuleNameRegexFilter(name=convert_partial_match_to_regex(n)) | n in names}, unfiltered, stored on every path - and it is
          stored exactly like Rule.have_name_matching stores its filters: same state fields, same way (replace / extend),
          equivalent conditions, so that only the pattern text differs between the partial-name form and its regex translation.
  C11.R4  views of the three public queries of EvaluableArchitecture: the result has one entry per element of the given collections
          (no filter), each value is a graph search over (graph, own key, whole given collections) only, nothing is carried from one
          key to the next, every entry is stored under its own key unconditionally.  A value computed by a helper that cannot be
          replaced by its body is followed: the helper must reach a graph search, be given the key and whole collections only, and
          change nothing that outlives the call (fields of a shared object, parameters, closure / module variables).
  C11.R5  the ImpossibleMatch raised by the conversion reaches the caller of Rule.assert_applies: in no function on a call path from
          Rule.assert_applies to ModuleNameConverter.convert does the call that leads on sit under an `except` clause (by class,
          base class or bare) that does not end in raising an error, under `contextlib.suppress`, or under a `finally` that
          returns; turning it into AssertionError counts as a verdict; a failure handed on as a value must make every caller raise.
"""

from __future__ import annotations

import ast
from dataclasses import dataclass, field

from core.guards import f_or, implies
from core.inline_stmt import inline_view
from core.loader import AnalysisError, FuncInfo, Repo, ancestors, header, norm, own_nodes, parent
from core.report import Result

from .c11_coll import Collections, flatten
from .c11_lib import Fn, class_view, names_loaded, show
from .c11_prov import Provenance, field_key
from .common import assigned_names, cfg_of, dotted, guard_formula, reachable_funcs, stmt_of, types_of, upward_exposed, where
from .tables import EXPLICIT_QUERY, MATCHER, MODREQ, OTHER_QUERIES, RULE, SEARCHES

EVAL_ARCH = "pytestarch.eval_structure.evaluable_architecture"
EV_TAG = "acc:@evaluable"  # provenance tag of the evaluable handed to the matcher entry point

CONVERTER = "pytestarch.eval_structure.module_name_converter"


# --------------------------------------------------------------------------------------------------------------- C11.R1

CONVERT_FQ = f"{CONVERTER}::ModuleNameConverter.convert"
QUERIES = (EXPLICIT_QUERY, *OTHER_QUERIES)


def _matcher_classes(repo: Repo) -> list:
    base = repo.cls(MATCHER, "RuleMatcher")
    return [base, *repo.subclasses(base)]


CONSUMER_MODULES = (
    "pytestarch.rule_assessment.rule_check.rule_violation_detector",
    "pytestarch.rule_assessment.rule_check.layer_rule_violation_detector",
    "pytestarch.rule_assessment.rule_check.rule_violations",
    "pytestarch.rule_assessment.rule_check.behavior_requirement",
    "pytestarch.rule_assessment.error_message.",
)


def _allow_r1(caller: FuncInfo, callee: FuncInfo) -> bool:
    """The pipeline between the entry point and its consumers is inlined wherever it lives (matcher classes, the requirement
    class, module-level helpers); the conversion itself stays a call, and the evaluable (graph, searches) and the consumers of the
    converted requirement (detectors, message generators, violation records) are not part of the pipeline under test."""
    if callee.fq == CONVERT_FQ:
        return False
    name = callee.module.name
    if name.startswith("pytestarch.eval_structure"):
        return False
    return not any(name == m or (m.endswith(".") and name.startswith(m)) for m in CONSUMER_MODULES)


@dataclass
class Wrapped:
    """A call of a repo helper that the view cannot take apart (a generator, a callable with several exits) and that hands out
    results of ModuleNameConverter.convert: the call stands for the conversions it makes."""

    call: ast.Call
    callee: FuncInfo
    accs: list[str]  # accessors of the module requirement whose filters it converts
    ev_ok: bool  # every conversion inside is made against a parameter / a field of the matcher (which must hold the evaluable, see ev_exprs)
    undecided: str = ""
    ev_exprs: list = field(default_factory=list)  # argument expressions of the call / names of fields of `self` that must hold the evaluable
    ev_text: str = ""


def _wrapped_conversions(repo: Repo, fn: Fn, calls: list[ast.Call], accessors: dict[str, set[str]], ev: str) -> list[Wrapped]:
    T = types_of(repo)
    out: list[Wrapped] = []
    for w in calls:
        cs, how = fn.callees(w)
        if len(cs) != 1 or how != "repo":
            continue
        g = cs[0]
        if g.fq == CONVERT_FQ or g.is_abstract or isinstance(g.node, ast.Lambda) or g.module.name.startswith("pytestarch.eval_structure"):
            continue
        inner = []
        for c in own_nodes(g.node):
            if isinstance(c, ast.Call):
                try:
                    ics, _h = T.callees(g, c, byname_fallback=False)
                except Exception:  # noqa: BLE001
                    ics = []
                if any(f.fq == CONVERT_FQ for f in ics):
                    inner.append(c)
        if not inner:
            continue
        gfn = Fn(repo, g)
        why = ""
        # the results leave the helper: yielded / returned (directly or through locals) - anything else is not followed
        if not any(isinstance(x, (ast.Yield, ast.YieldFrom, ast.Return)) for x in own_nodes(g.node)):
            why = f"{g.qualname} converts but hands nothing out"
        # made on every run of the helper
        for c in inner:
            top = _always_run(gfn, c)
            if flatten(gfn.conds_all(c)) or parent(top) is not g.node:
                why = why or f"the conversion inside {g.qualname} is conditional"
        # against the evaluable given at this call
        a = g.node.args
        pos = [p.arg for p in [*a.posonlyargs, *a.args]]
        if g.cls is not None and g.outer is None and not g.is_staticmethod and pos:
            pos = pos[1:]
        bound: dict[str, ast.AST] = dict(zip(pos, w.args))
        bound.update({k.arg: k.value for k in w.keywords if k.arg})
        ev_ok = True
        ev_exprs: list = []
        ev_text = ""
        for c in inner:
            arch = c.args[1] if len(c.args) > 1 else next((k.value for k in c.keywords if k.arg not in (None, "modules")), None)
            ev_text = ev_text or (norm(arch, 40) if arch is not None else "?")
            if isinstance(arch, ast.Name) and arch.id in bound and all(d.kind == "param" for d in gfn.reaching(arch.id, arch)):
                ev_exprs.append(bound[arch.id])
            elif isinstance(arch, ast.Attribute) and isinstance(arch.value, ast.Name) and arch.value.id == "self" and isinstance(w.func, ast.Attribute) and isinstance(w.func.value, ast.Name) and w.func.value.id == "self" and not any(isinstance(x, ast.Attribute) and isinstance(x.ctx, ast.Store) and x.attr == arch.attr for x in own_nodes(g.node)):
                ev_exprs.append(arch.attr)  # a field of the matcher, not written by the helper itself
            else:
                ev_ok = False

        def attr_tags(at: ast.Attribute, base=frozenset()):
            if at.attr in accessors and any(m[0] == "cls" and m[1].endswith(".ModuleRequirement") for m in _members(gfn.type_of(at.value))):
                return {f"acc:{at.attr}"}
            return None

        sub = Provenance(gfn, lambda c_, a_: None, lambda x: _scalar_type(gfn.type_of(x)), attr_tags, None, None)
        accs: set[str] = set()
        for c in inner:
            inp = c.args[0] if c.args else next((k.value for k in c.keywords), None)
            got = {t[4:] for t in sub.of(inp) if t.startswith("acc:")} if inp is not None else set()
            if not got:
                why = why or f"the input `{norm(inp, 50) if inp is not None else '?'}` of the conversion inside {g.qualname} is not recognised as an accessor of the module requirement"
            accs |= got
        out.append(Wrapped(w, g, sorted(accs), ev_ok, why, ev_exprs, ev_text))
    return out


def _pipeline_ctor(init: FuncInfo) -> bool:
    """Constructor of a helper class that owns a part of the pipeline under test: it (or what it calls) converts the regexes or
    queries the graph.  Such a constructor is taken apart in the view; plain carriers (the requirement classes) stay calls."""
    repo = init.module.repo  # type: ignore[attr-defined]
    cache = repo.__dict__.setdefault("_c11_pipeline_ctor", {})
    if init.fq not in cache:
        hit = False
        for g in reachable_funcs(repo, [init], byname=False):
            if g.fq == CONVERT_FQ:
                hit = True
                break
            if not g.module.name.startswith("pytestarch.eval_structure") and any(_query_site(x) for x in own_nodes(g.node)):
                hit = True
                break
        cache[init.fq] = hit
    return cache[init.fq]


def _members(t) -> list:
    return list(t[1]) if t[0] == "union" else [t]


def _carrying(repo: Repo, t) -> bool:
    """Static type of something that carries module filters: a ModuleRequirement or a collection of ModuleFilter."""
    for m in _members(t):
        if m[0] == "cls":
            ci = repo.classes.get(m[1])
            if ci is not None and (ci.name == "ModuleRequirement" or any(c.name == "ModuleFilter" for c in repo.mro(ci))):
                return True
        if m[0] == "b" and m[1] in ("list", "seq", "set", "iter", "tuple", "frozenset") and m[2]:
            if any(_carrying(repo, x) for x in m[2] if isinstance(x, tuple)):
                return True
    return False


def _may_hold_filters(repo: Repo, t, depth: int = 0) -> bool:
    """Conservative: False only if the static type is known and neither it nor what its constructor takes / its annotated
    attributes hold can carry module filters (flags, strings, classes made of those)."""
    ms = _members(t)
    if not ms:
        return True
    for m in ms:
        if m[0] == "b" and m[1] in ("bool", "str", "int", "none", "float"):
            continue
        if m[0] == "cls" and depth < 2 and not _carrying(repo, m):
            ci = repo.classes.get(m[1])
            if ci is None or ci.bases:
                return True
            init = repo.lookup_method(ci, "__init__")
            anns = [p.annotation for p in init.params[1:]] if init is not None else list(ci.ann_attrs.values())
            if any(a is None for a in anns):
                return True
            T = types_of(repo)
            if any(_may_hold_filters(repo, T.ann(ci.module, a), depth + 1) for a in anns):
                return True
            continue
        return True
    return False


def _scalar_type(t) -> bool:
    ms = _members(t)
    return bool(ms) and all(m[0] == "b" and m[1] in ("bool", "str", "int", "none", "float") for m in ms)


def _allow_outside_matcher(caller: FuncInfo, callee: FuncInfo) -> bool:
    repo = callee.module.repo  # type: ignore[attr-defined]
    return callee.cls is None or callee.cls not in _matcher_classes(repo)


def _entry_points(repo: Repo) -> tuple[list[FuncInfo], bool, str]:
    """(methods of the matcher hierarchy that Rule.assert_applies runs on the evaluable, is the matcher provably created anew for
    every assert_applies call, why not)."""
    T = types_of(repo)
    rule = repo.cls(RULE, "Rule")
    aa = rule.methods.get("assert_applies")
    if aa is None:
        raise AnalysisError("Rule.assert_applies not found")
    view = inline_view(repo, aa, T, allow=_allow_outside_matcher)
    fn = Fn(repo, view)
    classes = _matcher_classes(repo)
    ev = view.param_names[1] if len(view.param_names) > 1 else ""

    def is_ctor(f: FuncInfo) -> bool:
        return f.cls in classes and f.name in ("__init__", "__post_init__")

    stale: list[str] = []  # why a matcher handed out by a factory is not an object created for this call

    def factory(f: FuncInfo, depth: int = 0) -> bool | None:
        """A callable stored where the rule expects the matcher class (`Rule(rule_matcher_class=<bound method / function>)`):
        None if it does not produce matchers; True if every object it returns is created by that very call; False (with the
        reason in `stale`) if it may hand out an object that it keeps."""
        if isinstance(f.node, ast.Lambda) or depth > 2:
            return None
        ann = f.node.returns
        typed = ann is not None and any(m[0] == "cls" and repo.classes.get(m[1]) in classes for m in _members(T.ann(f.module, ann)))
        ffn = Fn(repo, f)
        rets = [r for r in own_nodes(f.node) if isinstance(r, ast.Return) and r.value is not None]
        if not rets:
            return None

        def made_here(v: ast.AST | None, seen: int = 0) -> bool | None:
            if isinstance(v, ast.Call):
                cs, _how = ffn.callees(v)
                if cs and all(is_ctor(g) for g in cs):
                    return True
                inner = [factory(g, depth + 1) if not is_ctor(g) else True for g in cs]
                if cs and all(x is not None for x in inner):
                    return all(inner)
                return None
            if isinstance(v, ast.Name) and seen < 3:
                defs = ffn.reaching(v.id, v)
                got = [made_here(d.value, seen + 1) if d.kind == "assign" else None for d in defs]
                if defs and all(x is not None for x in got):
                    return all(got)
                return None
            if isinstance(v, (ast.Attribute, ast.Subscript)) and any(m[0] == "cls" and repo.classes.get(m[1]) in classes for m in _members(ffn.type_of(v))):
                return False  # an object kept in a field / container
            return None

        kinds = [made_here(r.value) for r in rets]
        if any(k is None for k in kinds):
            if not typed:
                return None
            kinds = [bool(k) for k in kinds]
        if not all(kinds):
            r = rets[[bool(k) for k in kinds].index(False)]
            stale.append(f"the matcher may be handed out by {f.qualname} (`{header(r)[:60]}`), which does not create it for this call")
            return False
        return True

    def creates_matcher(v: ast.AST | None, deep: bool = True) -> bool:
        """Is `v` a call that yields a matcher (constructor of a matcher class, or a factory stored in its place)?  Whether the
        object is new is recorded in `stale`."""
        if not isinstance(v, ast.Call):
            return False
        cs, how = fn.callees(v)
        if bool(cs) and all(is_ctor(f) for f in cs):
            return True
        if cs and any(is_ctor(f) for f in cs):
            kinds = [True if is_ctor(f) else factory(f) for f in cs]
            if all(k is not None for k in kinds):
                return True
        if deep and parent(v) is not None:  # a private factory whose body only builds the matcher
            x = fn.expand(v)
            return x is not v and creates_matcher(x, False)
        return False

    def is_matcher(e: ast.AST) -> bool:
        if any(m[0] == "cls" and repo.classes.get(m[1]) in classes for m in _members(fn.type_of(e))):
            return True
        if isinstance(e, ast.Name):
            defs = fn.reaching(e.id, e)
            return bool(defs) and any(d.kind == "assign" and (creates_matcher(d.value) or (d.value is not None and is_matcher(d.value))) for d in defs)
        return creates_matcher(e)

    entries: list[FuncInfo] = []
    matcher_calls: list[ast.Call] = []
    fresh, why = True, ""
    found = False
    for c in own_nodes(view.node):
        if not isinstance(c, ast.Call) or not isinstance(c.func, ast.Attribute):
            continue
        if not any(isinstance(a, ast.Name) and a.id == ev for a in [*c.args, *[k.value for k in c.keywords]]):
            continue
        recv = c.func.value
        if not is_matcher(recv):
            continue
        impls = [f for f in repo.implementations(classes[0], c.func.attr) if not f.is_abstract]
        if not impls:
            continue
        found = True
        matcher_calls.append(c)
        for f in impls:
            if f not in entries:
                entries.append(f)
        if not isinstance(recv, ast.Name):
            if not creates_matcher(recv):
                fresh, why = False, f"the matcher is kept in `{norm(recv)}` of the rule object and used again"
            continue
        for d in fn.reaching(recv.id, recv):
            if not (d.kind == "assign" and creates_matcher(d.value)):
                fresh, why = False, f"the matcher `{recv.id}` is `{norm(d.value) if d.value is not None else d.kind}`, not an object created for this call"
    if not found:
        raise AnalysisError("Rule.assert_applies: the call that runs the rule matcher on the evaluable was not found")
    if fresh and stale:
        fresh, why = False, stale[0]
    repo.__dict__["_c11_matcher_calls"] = (view, matcher_calls)
    return entries, fresh, why


def _query_call(fn: Fn, c: ast.Call, ev: str) -> bool:
    """Is `c` a call of one of the three public graph queries on the evaluable parameter (directly or through a local alias)?"""

    def is_ev(e: ast.AST) -> bool:
        if isinstance(e, ast.Name) and e.id == ev:
            return True
        if isinstance(e, ast.Name) and parent(e) is not None:  # local alias of the evaluable
            x = fn.expand(e)
            return isinstance(x, ast.Name) and x.id == ev
        return False

    def is_q(e: ast.AST) -> bool:
        return isinstance(e, ast.Attribute) and e.attr in QUERIES and is_ev(e.value)

    if is_q(c.func):
        return True
    if isinstance(c.func, ast.Name):
        defs = fn.reaching(c.func.id, c.func)
        return bool(defs) and all(d.kind == "assign" and d.value is not None and (is_q(d.value) or (isinstance(d.value, ast.IfExp) and is_q(d.value.body) and is_q(d.value.orelse))) for d in defs)
    if not isinstance(c.func, ast.Attribute):
        # a query method selected by an expression: (a if c else b)(...), {flag: q1, ...}[flag](...)
        return any(is_q(x) for x in ast.walk(c.func))
    return False


def _query_site(x: ast.AST) -> bool:
    """A mention of one of the three public graph queries: `<e>.get_dependencies`, or its name as a string (getattr dispatch)."""
    return (isinstance(x, ast.Attribute) and isinstance(x.ctx, ast.Load) and x.attr in QUERIES) or (isinstance(x, ast.Constant) and isinstance(x.value, str) and x.value in QUERIES)


def _no_regex_guard(fn: Fn, prov: Provenance, test: ast.AST, value: bool, accessors: dict[str, set[str]]) -> set[str] | None:
    """The sides of the requirement that hold no regex filter when `test` evaluates to `value`:
    `any(f.identifier_is_regex for f in <side>)` false, `[f for f in <side> if f.identifier_is_regex]` empty,
    `all(not f.identifier_is_regex for f in <side>)` true (through locals).  None if the test says nothing of the kind."""

    def sides_of(e: ast.AST) -> set[str]:
        orig = getattr(e, "_orig", (None, e))[1]
        tags = prov.of(orig) | prov.of(e)
        return set().union(*[accessors.get(t[4:], set()) for t in tags if t.startswith("acc:")]) if any(t.startswith("acc:") for t in tags) else set()

    def comp_over(g: ast.AST, negated: bool) -> set[str]:
        """comprehension `<P(x)> for x in E` / `x for x in E if P(x)`"""
        if not isinstance(g, (ast.GeneratorExp, ast.ListComp, ast.SetComp)) or len(g.generators) != 1 or not isinstance(g.generators[0].target, ast.Name):
            return set()
        gen = g.generators[0]
        var = gen.target.id
        if gen.ifs:
            lits = flatten([(c, True) for c in gen.ifs])
            if negated or len(lits) != 1 or not (_is_regex_flag(lits[0][0], var) and lits[0][1]):
                return set()
        else:
            lits = flatten([(g.elt, True)])
            if len(lits) != 1 or not _is_regex_flag(lits[0][0], var) or lits[0][1] == negated:
                return set()
        return sides_of(gen.iter)

    out: set[str] = set()
    for lit, pol in flatten([(test, value)]):
        e = fn.expand(lit) if parent(lit) is not None else lit
        for x, p in flatten([(e, pol)]):
            if isinstance(x, ast.Call) and isinstance(x.func, ast.Name) and len(x.args) == 1 and not x.keywords:
                if x.func.id == "any" and not p:
                    out |= comp_over(x.args[0], False)
                elif x.func.id == "all" and p:
                    out |= comp_over(x.args[0], True)
            elif isinstance(x, (ast.ListComp, ast.SetComp)) and not p and x.generators and x.generators[0].ifs:
                out |= comp_over(x, False)
    return out or None


def _same_spec_guard(fn: Fn, prov: Provenance, test: ast.AST, value: bool):
    """Does `test == value` say that the two sides of the requirement are the same specification?
    ("same", {sides}) for `<side a> == <side b>` on the filter objects themselves (order / duplicate-insensitive copies allowed);
    ("projected", text) when only a projection of the filters is compared (`f.identifier for f in ...`): filters of different
    kinds with the same text then count as the same; None when the test is something else."""

    def raw_sides(e: ast.AST) -> set[str]:
        orig = getattr(e, "_orig", (None, e))[1]
        return {t[4:] for t in (prov.of(orig) | prov.of(e)) if t.startswith("raw:")}

    def operand(e: ast.AST):
        """(sides, projected?)"""
        while isinstance(e, ast.Call) and isinstance(e.func, ast.Name) and e.func.id in ("list", "tuple", "set", "frozenset", "sorted") and len(e.args) == 1:
            e = e.args[0]
        if isinstance(e, (ast.GeneratorExp, ast.ListComp, ast.SetComp)) and len(e.generators) == 1 and not e.generators[0].ifs:
            sd = raw_sides(e.generators[0].iter)
            plain = isinstance(e.elt, ast.Name) and isinstance(e.generators[0].target, ast.Name) and e.elt.id == e.generators[0].target.id
            return sd, not plain
        if isinstance(e, ast.Call) and isinstance(e.func, ast.Name) and e.func.id == "map" and len(e.args) == 2:
            return raw_sides(e.args[1]), True
        return raw_sides(e), False

    for lit, pol in flatten([(test, value)]):
        e = fn.expand(lit) if parent(lit) is not None else lit
        for x, p in flatten([(e, pol)]):
            if isinstance(x, ast.Compare) and len(x.ops) == 1 and isinstance(x.ops[0], ast.Eq) and p:
                (sa, pa), (sb, pb) = operand(x.left), operand(x.comparators[0])
                if len(sa) == 1 and len(sb) == 1 and sa != sb:
                    if pa or pb:
                        return "projected", norm(x, 70)
                    return "same", sa | sb
    return None


def _requirement_sides(repo: Repo) -> tuple[dict[str, set[str]], list[str]]:
    """accessor (property / field of ModuleRequirement) -> constructor parameters whose value it may return; the two
    filter-list constructor parameters."""
    req = repo.cls(MODREQ, "ModuleRequirement")
    init = req.methods.get("__init__")
    if init is None:
        raise AnalysisError("ModuleRequirement.__init__ not found")
    T = types_of(repo)
    sides = [p.arg for p in init.params[1:] if p.annotation is not None and _carrying(repo, T.ann(init.module, p.annotation))]
    fields: dict[str, set[str]] = {}
    for _ in range(3):
        for n in own_nodes(init.node):
            pairs = []
            if isinstance(n, ast.Assign):
                for t in n.targets:
                    if isinstance(t, ast.Tuple) and isinstance(n.value, ast.Tuple) and len(t.elts) == len(n.value.elts):
                        pairs += list(zip(t.elts, n.value.elts))
                    else:
                        pairs.append((t, n.value))
            elif isinstance(n, ast.AnnAssign) and n.value is not None:
                pairs.append((n.target, n.value))
            for t, v in pairs:
                if isinstance(t, ast.Attribute) and isinstance(t.value, ast.Name) and t.value.id == "self":
                    got = fields.setdefault(t.attr, set())
                    for x in ast.walk(v):
                        if isinstance(x, ast.Name) and x.id in sides:
                            got.add(x.id)
                        if isinstance(x, ast.Attribute) and isinstance(x.value, ast.Name) and x.value.id == "self" and x.attr in fields:
                            got |= fields[x.attr]
    acc: dict[str, set[str]] = {k: set(v) for k, v in fields.items()}
    for name, m in req.methods.items():
        if m.is_property:
            got: set[str] = set()
            for r in own_nodes(m.node):
                if isinstance(r, ast.Return) and r.value is not None:
                    for x in ast.walk(r.value):
                        if isinstance(x, ast.Attribute) and isinstance(x.value, ast.Name) and x.value.id == "self":
                            got |= fields.get(x.attr, set())
            acc[name] = got
    return acc, sides


def _stores_of_field(repo: Repo, field_name: str) -> list[tuple[FuncInfo, ast.AST]]:
    out = []
    for ci in _matcher_classes(repo):
        for m in [*ci.methods.values(), *ci.extra_methods]:
            for n in own_nodes(m.node):
                if isinstance(n, ast.Attribute) and isinstance(n.ctx, ast.Store) and n.attr == field_name and isinstance(n.value, ast.Name) and n.value.id == "self":
                    out.append((m, n))
    return out


def _always_run(fn: Fn, call: ast.AST) -> ast.AST:
    """The statement whose execution implies that `call` is executed: its own statement, or the outermost enclosing `for` over a
    non-empty literal tuple / list (such a loop body runs at least once)."""
    node = stmt_of(call)
    cur = node
    for a in ancestors(node):
        if isinstance(a, (ast.For, ast.AsyncFor)):
            it = fn.expand(a.iter)
            if isinstance(it, (ast.Tuple, ast.List)) and it.elts and cur in a.body and not a.orelse:
                node = a
                cur = a
                continue
            break
        if isinstance(a, (ast.While, ast.If, ast.Try, ast.With, ast.FunctionDef, ast.AsyncFunctionDef)):
            break
        cur = a
    return node


def _ctor_none_fields(repo: Repo) -> set[str]:
    """Fields of the matcher classes that the constructors set to the constant None."""
    out: set[str] = set()
    for ci in _matcher_classes(repo):
        init = ci.methods.get("__init__")
        if init is None:
            continue
        for n in own_nodes(init.node):
            t, v = None, None
            if isinstance(n, ast.Assign) and len(n.targets) == 1:
                t, v = n.targets[0], n.value
            elif isinstance(n, ast.AnnAssign):
                t, v = n.target, n.value
            if isinstance(t, ast.Attribute) and isinstance(t.value, ast.Name) and t.value.id == "self" and isinstance(v, ast.Constant) and v.value is None:
                out.add(t.attr)
    return out


def run_r1(repo: Repo, res: Result) -> None:
    T = types_of(repo)
    entries, fresh, why_not_fresh = _entry_points(repo)
    if not entries:
        raise AnalysisError("no implementation of the matcher entry point found")
    accessors, sides = _requirement_sides(repo)
    classes = _matcher_classes(repo)
    none_fields = _ctor_none_fields(repo) if fresh else set()
    nq = 0
    concrete = [c for c in classes if not any(m.is_abstract and repo.lookup_method(c, m.name) is m for k in repo.mro(c) for m in k.methods.values())] or classes[:1]
    reported: dict[str, bool] = {}
    judged_sites: set[int] = set()

    class Dedupe:
        """The same construct analysed for several concrete matcher classes is reported once per verdict."""

        def add(self, rule, construct, ok, detail="", where="", nontrivial=True, kind="structural"):
            if reported.get(construct) == bool(ok):
                return None
            if construct in reported:
                construct = f"{construct} [as {cur.name}]"
            reported[construct] = bool(ok)
            return res_.add(rule, construct, ok, detail, where, nontrivial, kind)

        def undecide(self, rule, construct, detail, where=""):
            if not any(u["construct"] == construct for u in res_.undecided):
                res_.undecide(rule, construct, detail, where)

        def observe(self, text):
            if text not in res_.observations:
                res_.observe(text)

    res_ = res
    res = Dedupe()
    for cur, entry0 in [(c, e) for c in concrete for e in entries]:
        entry = repo.lookup_method(cur, entry0.name) or entry0
        view = class_view(repo, entry, cur, allow=_allow_r1, max_depth=4, inline_ctor=_pipeline_ctor)
        fn = Fn(repo, view)
        cfg = cfg_of(view)
        ev = next((p.arg for p in view.params[1:] if p.annotation is not None and any(m[0] == "cls" and m[1].endswith(".EvaluableArchitecture") for m in _members(T.ann(view.module, p.annotation)))), view.param_names[1] if len(view.param_names) > 1 else "")
        calls = [c for c in own_nodes(view.node) if isinstance(c, ast.Call)]
        convs = [c for c in calls if any(f.fq == CONVERT_FQ for f in fn.callees(c)[0])]
        wrapped = {id(x.call): x for x in _wrapped_conversions(repo, fn, [c for c in calls if c not in convs], accessors, ev)}
        convs += [x.call for x in wrapped.values()]

        def conv_input(c: ast.Call) -> ast.AST | None:
            if id(c) in wrapped:
                return None
            return c.args[0] if c.args else next((k.value for k in c.keywords), None)

        def conv_accs(c: ast.Call, pv) -> list[str]:  # noqa: ANN001
            if id(c) in wrapped:
                return list(wrapped[id(c)].accs)
            inp_ = conv_input(c)
            return sorted(t[4:] for t in pv.of(inp_) if t.startswith("acc:")) if inp_ is not None else []
        queries = [c for c in calls if _query_call(fn, c, ev)]
        base = f"{entry.relpath}::{entry.qualname}::"
        if not queries:
            raise AnalysisError(f"{entry.fq}: no graph query on `{ev}` found in the inlined view (rule would pass vacuously)")
        nq += len(queries)
        for q in queries:
            heads = [q.func]
            if isinstance(q.func, ast.Name):
                heads += [d.value for d in fn.reaching(q.func.id, q.func) if d.value is not None]
            for h in heads:
                judged_sites.update(id(getattr(x, "_src", (None, x))[1]) for x in ast.walk(h) if _query_site(x))
        # ---- provenance: which conversion (of which side) does a value derive from; `pre:` = state from before this evaluation
        ids = {id(c): i for i, c in enumerate(convs)}

        def source(call: ast.Call, argtags: list):
            if id(call) not in ids:
                return None
            out = {f"conv:{ids[id(call)]}"}
            if id(call) in wrapped:
                for a_ in wrapped[id(call)].accs:
                    out |= {f"cside:{p}" for p in accessors.get(a_, ())}
                return out
            for t in (argtags[0] if argtags else ()):
                if t.startswith("acc:"):
                    out |= {f"cside:{p}" for p in accessors.get(t[4:], ())}
            return out

        def attr_tags(a: ast.Attribute, base=frozenset()):
            if a.attr in accessors and any(m[0] == "cls" and m[1].endswith(".ModuleRequirement") for m in _members(fn.type_of(a.value))):
                out = {f"acc:{a.attr}"}
                if base and not any(t.startswith(("conv:", "cside:")) for t in base):
                    # read off a requirement that no conversion has touched: the filters as the user specified them
                    out |= {f"raw:{sd}" for sd in accessors[a.attr]}
                return out
            return None

        assumed: list[str] = []

        def assume(st_if: ast.If, state: dict):
            # a matcher that is created for every assert_applies call enters with its constructor state: `self.f is None` holds
            # for a field the constructor sets to None as long as nothing was stored into it on the way
            if not fresh:
                return None
            lits = flatten([(st_if.test, True)])
            if len(lits) != 1:
                return None
            lit, pol = lits[0]
            if isinstance(lit, ast.Compare) and len(lit.ops) == 1 and isinstance(lit.ops[0], ast.Is) and isinstance(lit.comparators[0], ast.Constant) and lit.comparators[0].value is None:
                fk = field_key(lit.left) if isinstance(lit.left, ast.Attribute) and isinstance(lit.left.value, ast.Name) else None
                if fk is not None and fk[5:] in none_fields and state.get(fk, {f"pre:{fk}"}) == {f"pre:{fk}"}:
                    if norm(st_if.test) not in assumed:
                        assumed.append(norm(st_if.test))
                    return pol
            return None

        def passes(call: ast.Call) -> bool:
            # constructors (objects carry what they are built from) and order / duplicate-only copies hand their arguments on
            if isinstance(call.func, ast.Name) and call.func.id in ("list", "tuple", "set", "frozenset", "sorted", "cast", "iter", "reversed"):
                return True
            cs, how = fn.callees(call)
            return how == "ctor" or (bool(cs) and all(f.name in ("__init__", "__post_init__") for f in cs))

        def on_state(lits_: list) -> bool:
            """Do the literals read state of the matcher that an evaluation can change (a field written outside the constructor,
            or `self` handed to something that is not shown)?  Fields only the constructor writes are part of the rule."""
            for l, _p in lits_:
                for x in ast.walk(l):
                    if isinstance(x, ast.Name) and x.id == "self":
                        up = parent(x)
                        if not (isinstance(up, ast.Attribute) and up.value is x and isinstance(up.ctx, ast.Load)):
                            return True
                        if isinstance(parent(up), ast.Call) and parent(up).func is up:
                            return True  # a method that the view does not show
                        if any(m.name != "__init__" for m, _n in _stores_of_field(repo, up.attr)):
                            return True
            return False

        pre_relevance: dict[str, bool] = {}

        def relevant_pre(tag: str) -> bool:
            """Can the state `pre:self.<field>` hold module filters at all?  An object travelling together with the requirement
            (the behaviour flags handed to the same helper object) leaves its tag on the whole, but says nothing about filters."""
            if tag not in pre_relevance:
                name = tag[9:] if tag.startswith("pre:self.") else ""
                verdicts = []
                for ci in classes:
                    for m_ in [*ci.methods.values(), *ci.extra_methods]:
                        for n_ in own_nodes(m_.node):
                            if isinstance(n_, ast.Attribute) and n_.attr == name and isinstance(n_.value, ast.Name) and n_.value.id == "self" and isinstance(n_.ctx, ast.Load):
                                verdicts.append(_may_hold_filters(repo, T.expr(m_, n_)))
                pre_relevance[tag] = (not verdicts) or any(verdicts)
            return pre_relevance[tag]

        def make_prov(forced: dict[int, bool] | None = None) -> Provenance:
            def assume2(st_if: ast.If, state: dict):
                if forced and id(st_if) in forced:
                    return forced[id(st_if)]
                return assume(st_if, state)

            return Provenance(fn, source, lambda a: _scalar_type(fn.type_of(a)), attr_tags, assume2, passes, init={ev: frozenset({EV_TAG})})

        prov = make_prov()
        # ---- conversions that run only under a condition on the *rule* (not on the matcher's state): `if <cond>: convert(side)
        # else: <something else>`.  Each such branch is followed separately below; on the path without the conversion the side must
        # still be its own specification (and provably free of regex filters), never something derived from elsewhere.
        splits: dict[int, tuple[ast.If, bool, list[ast.Call]]] = {}
        unsplit: list[ast.Call] = []
        for c in convs:
            lits_c = flatten(fn.conds_all(c))
            if not lits_c or on_state(lits_c):
                continue
            st_c = stmt_of(c)
            holder = next((a for a in ancestors(st_c) if isinstance(a, (ast.If, ast.For, ast.AsyncFor, ast.While, ast.Try, ast.With))), None)
            if not isinstance(holder, ast.If) or fn.conds_all(c) != fn.conds_all(st_c):
                unsplit.append(c)
                continue
            in_body = any(st_c is x or any(y is st_c for y in ast.walk(x)) for x in holder.body)
            if id(holder) in splits and splits[id(holder)][1] != in_body:
                continue  # both branches convert
            splits.setdefault(id(holder), (holder, in_body, []))[2].append(c)
        if len(splits) > 3:
            unsplit += [c for _h, _b, cs in splits.values() for c in cs]
            splits = {}
        split_convs = {id(c) for _h, _b, cs in splits.values() for c in cs}
        # ---- (1) the conversion runs on every evaluation, before any query, against the evaluable being queried
        problems: list[tuple[str, ast.AST, bool]] = []  # (text, node, depends on matcher state)
        if not convs:
            hidden = [g for g in reachable_funcs(repo, [entry], byname=True) if g.fq == CONVERT_FQ]
            if hidden:
                res.undecide("C11.R1", base + "conversion dominates evaluation", "ModuleNameConverter.convert is reachable from the matcher entry point, but not through calls that the inlined view shows (a wrapper the view could not take apart)", where(view, view.node))
                continue
            problems.append(("the regex filters are never converted to module names before the graph is queried", queries[0], True))
        for c in convs:
            if id(c) in split_convs:
                continue  # followed branch by branch below
            lits = flatten(fn.conds_all(c))
            state = on_state(lits)
            if lits:
                problems.append((f"the conversion `{norm(c, 60)}` only runs if `{' and '.join(('' if p else 'not ') + norm(l, 50) for l, p in lits)}`", c, state))
            for q in queries:
                if not cfg.dominates(_always_run(fn, c), stmt_of(q)):
                    problems.append((f"the query `{norm(q, 50)}` can be reached without the conversion `{norm(c, 50)}`", q, state or not lits))
                    break
        for c in convs:
            if id(c) in wrapped:
                wr = wrapped[id(c)]
                if wr.undecided:
                    res.undecide("C11.R1", base + "conversion dominates evaluation", f"`{norm(c, 60)}`: {wr.undecided}", where(view, c))
                held = [set(prov.of(x)) if not isinstance(x, str) else set(prov.field_at(stmt_of(c), x)) for x in wr.ev_exprs]
                if not wr.ev_ok or any(h != {EV_TAG} for h in held):
                    problems.append((f"`{norm(c, 70)}` converts against `{wr.ev_text}` inside {wr.callee.qualname}, not against the evaluable `{ev}` being checked", c, False))
                continue
            arg = c.args[1] if len(c.args) > 1 else next((k.value for k in c.keywords if k.arg not in (None, "modules")), None)
            direct = isinstance(arg, ast.Name) and arg.id == ev and all(d.kind == "param" for d in fn.reaching(ev, arg))
            if not direct and not (arg is not None and set(prov.of(arg)) == {EV_TAG}):  # the parameter itself, or a local / field that holds it on every path
                problems.append((f"`{norm(c, 70)}` converts against `{norm(arg) if arg is not None else '?'}`, not against the evaluable `{ev}` being checked", c, False))
        # the input of the conversion is the requirement as specified, not something an earlier evaluation left behind
        for c in convs:
            inp = conv_input(c)
            for t in sorted(prov.of(inp)) if inp is not None else []:
                if not t.startswith("pre:self."):
                    continue
                late = [(m, n) for m, n in _stores_of_field(repo, t[9:]) if m.name != "__init__"]
                if late:
                    m, n = late[0]
                    problems.append((f"`{t[4:]}`, from which the conversion reads the filters as specified by the user, is overwritten in {m.qualname} (`{header(stmt_of(n))[:70]}`): a later evaluation converts what an earlier one left behind", c, True))
        key = base + "conversion dominates evaluation"
        wrong_target = [p for p in problems if not p[2] and "converts against" in p[0]]
        stateful = [p for p in problems if p[2]]
        other = [p for p in problems if p not in wrong_target and p not in stateful]
        if wrong_target:
            res.add("C11.R1", key, False, f"{wrong_target[0][0]}: the regexes are resolved against another architecture than the one evaluated", where(view, wrong_target[0][1]), kind="dominance")
        elif not problems:
            res.add("C11.R1", key, True, "regexes are converted to module names before any graph query, unconditionally, against the evaluable being checked", where(view, view.node), kind="dominance")
        elif other:
            res.undecide("C11.R1", key, other[0][0] + " - a condition that is not about the matcher's own state; the path without the conversion could not be followed", where(view, other[0][1]))
        elif fresh and convs:
            res.add("C11.R1", key, True, f"the conversion depends on the matcher's state ({problems[0][0]}), but Rule.assert_applies creates a new matcher for every call, so every evaluation starts from the constructor state", where(view, problems[0][1]), kind="dominance")
        elif stateful:
            extra = f" - and {why_not_fresh}, so the state survives between evaluations" if why_not_fresh else ""
            res.add("C11.R1", key, False, f"{stateful[0][0]}{extra}: a stale or missing conversion is evaluated", where(view, stateful[0][1]), kind="dominance")
        else:
            res.undecide("C11.R1", key, other[0][0], where(view, other[0][1]))
        # ---- every combination of the rule-dependent branches is followed on its own (no such branch: one pass, as written)
        import itertools

        spec_fields = {t for c in convs if conv_input(c) is not None for t in prov.of(conv_input(c)) if t.startswith("pre:")}
        main_prov = prov
        for combo in itertools.product((True, False), repeat=len(splits)):
            forced = {hid: (in_body if run else not in_body) for (hid, (_h, in_body, _cs)), run in zip(splits.items(), combo)}
            prov = make_prov(forced) if splits else main_prov
            skipped_convs = {id(c) for (_hid, (_h, _b, cs)), run in zip(splits.items(), combo) if not run for c in cs}
            active = [c for c in convs if id(c) not in skipped_convs]
            raw_ok: set[str] = set()  # sides that may reach the queries as specified: the branch taken shows they hold no regex filter
            raw_unsure: dict[str, str] = {}
            raw_wrong: dict[str, str] = {}
            alias_ok: dict[str, set[str]] = {}  # side -> the other side, when the branch taken shows both sides are the same specification
            projected: dict[str, str] = {}
            opaque: dict[str, str] = {}
            where_skipped = ""
            for (_hid, (h, in_body, cs)), run in zip(splits.items(), combo):
                if run:
                    continue
                where_skipped = where_skipped or f"when `{norm(h.test, 60)}` is {'false' if in_body else 'true'}"
                for c in cs:
                    sides_c = set().union(*[accessors.get(a_, set()) for a_ in conv_accs(c, main_prov)]) if conv_accs(c, main_prov) else set()
                    free = _no_regex_guard(fn, main_prov, h.test, not in_body, accessors)
                    same = _same_spec_guard(fn, main_prov, h.test, not in_body)
                    for sd in sides_c:
                        if free is not None and sd in free:
                            raw_ok.add(sd)
                        elif free is not None:
                            raw_wrong[sd] = f"{where_skipped} the {sd} reach the query as the user specified them, regex filters included: the condition only shows that the {', '.join(sorted(free))} hold no regex filter"
                        else:
                            raw_unsure[sd] = f"{where_skipped} the {sd} are not converted; the condition is not recognised as 'none of them is a regex filter'"
                        if same is not None and same[0] == "same" and sd in same[1]:
                            alias_ok[sd] = same[1] - {sd}
                        elif same is not None and same[0] == "projected":
                            projected[sd] = same[1]
                        else:
                            opaque[sd] = norm(h.test, 60)
            tag = f" [{where_skipped}]" if where_skipped else ""

            def excuse(t):  # noqa: ANN001
                """(pre tags that count, does the value come from the conversion or from a regex-free specification, sides delivered)"""
                acc_sides = {x[4:] for x in t if x.startswith("raw:")}
                pre_ = sorted(x for x in t if x.startswith("pre:") and relevant_pre(x))
                raw_fine = bool(acc_sides) and acc_sides <= raw_ok and all(x in spec_fields for x in pre_)
                if raw_fine:
                    pre_ = []
                got_ = {x[6:] for x in t if x.startswith("cside:")} | (acc_sides & raw_ok)
                return pre_, raw_fine or any(x.startswith("conv:") for x in t), got_, acc_sides

            # ---- (2) both sides are converted
            conv_side: dict[int, set[str]] = {}
            acc_text: dict[int, list[str]] = {}
            for c in active:
                accs = conv_accs(c, prov)
                acc_text[ids[id(c)]] = accs
                conv_side[ids[id(c)]] = set().union(*[accessors.get(a, set()) for a in accs]) if accs else set()
            covered = set().union(*conv_side.values()) if conv_side else set()
            all_accs = sorted({a for v in acc_text.values() for a in v})
            distinct = len(all_accs) >= min(2, len(sides))
            ok = bool(convs) and set(sides) <= (covered | raw_ok) and (distinct or bool(raw_ok))
            if skipped_convs and not ok:
                pass  # decided where the sides reach the queries (3)
            elif convs and any(not v for v in conv_side.values()):
                res.undecide("C11.R1", base + "both sides converted", f"the input `{norm(conv_input(convs[[i for i, v in conv_side.items() if not v][0]]) or convs[0], 60)}` of a conversion is not recognised as an accessor of the module requirement", where(view, convs[0]))
            else:
                res.add("C11.R1", base + "both sides converted", ok, "importers and importees are both converted against the evaluable being checked" if ok else f"the conversion covers {all_accs} only: a side ({', '.join(sorted(set(sides) - covered)) or 'one of ' + ', '.join(sides)}) keeps its regex filters or is converted twice", where(view, convs[0] if convs else view.node), kind="structural")
            # ---- (3) the queries receive converted filters only
            for q in queries:
                args = [*q.args, *[k.value for k in q.keywords]]
                bad = ""
                unsure = ""
                got: set[str] = set()
                raw_seen: set[str] = set()
                for a in args:
                    t = prov.of(a)
                    pre, from_conv, got_a, acc_sides = excuse(t)
                    got |= got_a
                    raw_seen |= acc_sides
                    flt = sorted(x for x in t if x.startswith("via:filter:"))
                    via = sorted(x for x in t if x.startswith("via:") and not x.startswith("via:filter:"))
                    if acc_sides & set(raw_wrong) and all(x in spec_fields for x in pre):
                        bad = bad or raw_wrong[sorted(acc_sides & set(raw_wrong))[0]]
                    elif acc_sides & set(raw_unsure) and all(x in spec_fields for x in pre):
                        unsure = unsure or raw_unsure[sorted(acc_sides & set(raw_unsure))[0]]
                    elif pre:
                        bad = bad or f"`{norm(a, 60)}` is read from `{pre[0][4:]}` as it was before this evaluation's conversion (the un-converted or a stale requirement)"
                    elif not from_conv:
                        bad = bad or f"`{norm(a, 60)}` does not come from the conversion"
                    elif flt:
                        bad = bad or f"the converted filters are filtered (`{flt[0][11:]}`) before they reach `{norm(a, 60)}`: modules the regex matches are dropped from the rule"
                    elif via:
                        unsure = unsure or f"the converted filters pass through `{via[0][4:]}` before they reach `{norm(a, 60)}` - not recognised as an unchanged hand-over"
                got |= {sd for sd, others in alias_ok.items() if others <= got}
                if not bad and convs and not set(sides) <= got:
                    missing = set(sides) - got
                    if missing <= (raw_seen & set(raw_unsure)):
                        unsure = unsure or raw_unsure[sorted(missing)[0]]
                    elif skipped_convs and missing <= set(projected):
                        bad = f"{where_skipped} the {', '.join(sorted(missing))} given to the query do not derive from the {', '.join(sorted(missing))} the user specified (only the conversion of {sorted(got)} reaches it), and `{projected[sorted(missing)[0]]}` compares a projection of the filters only: a regex filter and a name filter with the same text count as the same specification"
                    elif skipped_convs and missing <= set(opaque) | set(projected):
                        unsure = unsure or f"{where_skipped} the {', '.join(sorted(missing))} given to the query derive from the conversion of {sorted(got)} only; `{opaque.get(sorted(missing)[0], '')}` is not recognised as 'both sides are the same specification'"
                    elif skipped_convs:
                        bad = f"{where_skipped} the {', '.join(sorted(missing))} given to the query do not derive from the {', '.join(sorted(missing))} the user specified (only the conversion of {sorted(got)} reaches it)"
                    else:
                        bad = f"only the conversion of {sorted(got)} reaches the query"
                if unsure and not bad:
                    res.undecide("C11.R1", repo.key(view, stmt_of(q)) + f" [{norm(q.func, 80)}]", unsure, where(view, q))
                    continue
                res.add("C11.R1", repo.key(view, stmt_of(q)) + f" [{norm(q.func, 80)}]" + (tag if bad else ""), not bad, "queries the graph with the converted requirement" if not bad else (bad if "filtered" in bad or "do not derive" in bad or "regex filters included" in bad else f"{bad}: regex filters reach a graph query"), where(view, q), kind="flow")
            # ---- (4) consumers outside the view (detectors, message generators) read the converted requirement
            seen: set[tuple[str, str]] = set()
            for c in calls:
                if not (isinstance(c.func, ast.Attribute) and isinstance(c.func.value, ast.Name) and c.func.value.id == "self"):
                    continue
                if id(c) in wrapped:
                    continue  # reads the requirement as specified in order to convert it
                roots = [f for f in fn.callees(c)[0] if f.cls in classes]
                if not roots:
                    continue
                for m in reachable_funcs(repo, roots, byname=False):
                    if m.cls not in classes:
                        continue
                    for node in own_nodes(m.node):
                        if not (isinstance(node, ast.Attribute) and isinstance(node.ctx, ast.Load) and isinstance(node.value, ast.Name) and node.value.id == "self"):
                            continue
                        if not _carrying(repo, T.expr(m, node)):
                            continue
                        up = parent(node)
                        if isinstance(up, ast.Attribute) and _scalar_type(T.expr(m, up)):
                            continue  # only a flag of the requirement is read
                        t = prov.field_at(stmt_of(c), node.attr)
                        pre, from_conv, _got, acc_sides = excuse(t)
                        if acc_sides & set(raw_unsure):
                            continue  # undecided where the same value reaches the queries
                        flt = sorted(x for x in t if x.startswith("via:filter:"))
                        okr = not pre and not flt and from_conv
                        k = (m.fq, norm(stmt_of(node)) + node.attr)
                        if k in seen and okr:
                            continue
                        seen.add(k)
                        nq += 1
                        shown = up if isinstance(up, ast.Attribute) else node
                        res.add("C11.R1", repo.key(m, stmt_of(node)) + f" [{norm(shown, 80)}]", okr, "reads the converted requirement" if okr else f"{m.qualname} reads `{norm(shown)}`, which at the call `{norm(c, 50)}` is {'the un-converted (or a stale) requirement' if pre else ('the conversion result filtered by `' + flt[0][11:] + '`') if flt else 'not the result of the conversion'}: the detector / message generator does not judge the converted requirement", where(m, node), kind="flow")
            # consumers constructed inside the view (their factory was inlined for this concrete class)
            for c in calls:
                cs_, how_ = fn.callees(c)
                if not cs_ or not all(f.name in ("__init__", "__post_init__") and any(f.module.name == m or (m.endswith(".") and f.module.name.startswith(m)) for m in CONSUMER_MODULES) for f in cs_):
                    continue
                for a in [*c.args, *[k.value for k in c.keywords]]:
                    if not _carrying(repo, fn.type_of(a)):
                        continue
                    t = prov.of(a)
                    pre, from_conv, _got, acc_sides = excuse(t)
                    if acc_sides & set(raw_unsure):
                        continue  # undecided where the same value reaches the queries
                    flt = sorted(x for x in t if x.startswith("via:filter:"))
                    okr = not pre and not flt and from_conv
                    nq += 1
                    res.add("C11.R1", repo.key(view, stmt_of(c)) + f" [{norm(a, 80)}]", okr, "is built from the converted requirement" if okr else f"`{norm(c, 60)}` receives `{norm(a, 50)}`, which is {'read from `' + pre[0][4:] + '` as it was before this evaluation (the un-converted or a stale requirement)' if pre else ('the conversion result filtered by `' + flt[0][11:] + '`') if flt else 'not the result of the conversion'}: the detector / message generator does not judge the converted requirement", where(view, c), kind="flow")
        prov = main_prov
        if assumed:
            res.observe(f"C11.R1: evaluated under the constructor state of a freshly created matcher ({', '.join(assumed)})")
    # every graph query that the matcher can reach was seen (and judged) in one of the views: a query in a helper that the views do
    # not show (a callable handed around, a call the resolver cannot follow) would otherwise pass unexamined
    for g in reachable_funcs(repo, entries, byname=True):
        if g.module.name.startswith("pytestarch.eval_structure"):
            continue
        for x in own_nodes(g.node):
            if _query_site(x) and id(x) not in judged_sites:
                res.undecide("C11.R1", repo.key(g, stmt_of(x)) + " [graph query outside the view]", f"{g.qualname} queries the graph (`{norm(x, 70)}`) but the call is not part of the inlined view of the matcher entry point: its arguments cannot be traced to the conversion", where(g, x))
    res_.floor("C11.R1", 1, nq)  # at least one graph query was found and judged (a view without queries is an ANALYSIS-ERROR above)


# --------------------------------------------------------------------------------------------------------------- C11.R5

NO_MATCH = ("pytestarch.eval_structure.exceptions", "ImpossibleMatch")


def _swallowed(repo: Repo, fn: Fn, call: ast.AST) -> tuple[ast.AST, str] | None:
    """The construct between `call` and the caller of the analysed function that keeps an ImpossibleMatch raised inside `call`
    from propagating as an error: an `except` clause that catches it (by class, by a base class, bare) and does not end in a
    `raise` of an error on every path, a `contextlib.suppress`, a `finally` that returns.  None if there is none."""
    try:
        nm = repo.cls(*NO_MATCH)
        bases = {c.fq for c in repo.mro(nm)}
    except Exception:  # noqa: BLE001
        nm, bases = None, set()

    def catches(t: ast.AST | None) -> bool:
        if t is None:
            return True
        for x in (t.elts if isinstance(t, ast.Tuple) else [t]):
            last = dotted(x).split(".")[-1] if dotted(x) else ""
            if last in ("Exception", "BaseException", "ImpossibleMatch"):
                return True
            ty = fn.type_of(x)
            if any(m[0] == "type" and m[1] in bases for m in _members(ty)):
                return True
        return False

    def verdict_class(exc: ast.AST | None, handler_name: str | None) -> bool:
        """Does `raise exc` report a verdict (AssertionError) instead of an error?"""
        if exc is None or (isinstance(exc, ast.Name) and exc.id == handler_name):
            return False
        head = exc.func if isinstance(exc, ast.Call) else exc
        return dotted(head).split(".")[-1] == "AssertionError"

    def ends_in_error(body: list[ast.stmt], handler_name: str | None) -> bool:
        if not body:
            return False
        last = body[-1]
        if isinstance(last, ast.Raise):
            return not verdict_class(last.exc, handler_name)
        if isinstance(last, ast.If):
            return ends_in_error(last.body, handler_name) and ends_in_error(last.orelse, handler_name)
        if isinstance(last, (ast.With, ast.AsyncWith)):
            return ends_in_error(last.body, handler_name)
        return False

    cur: ast.AST = call
    for a in ancestors(call):
        if isinstance(a, (ast.FunctionDef, ast.AsyncFunctionDef, ast.Lambda)):
            break
        if isinstance(a, ast.Try):
            in_body = any(cur is x for x in a.body)
            if in_body:
                for h in a.handlers:
                    if catches(h.type) and not ends_in_error(h.body, h.name):
                        turned = bool(h.body) and isinstance(h.body[-1], ast.Raise) and verdict_class(h.body[-1].exc, h.name)
                        return h, f"`except {norm(h.type, 50) if h.type is not None else ''}`".replace("except `", "except`") + (" turns it into an AssertionError, the report of a violated rule" if turned else " catches it and goes on")
            if (in_body or any(cur is x for h in a.handlers for x in h.body) or any(cur is x for x in a.orelse)) and any(isinstance(x, ast.Return) for st in a.finalbody for x in ast.walk(st)):
                return a, "a `finally` block returns, which discards it"
        if isinstance(a, (ast.With, ast.AsyncWith)) and any(cur is x for x in a.body):
            for it in a.items:
                ce = it.context_expr
                if isinstance(ce, ast.Call) and (fn.lib_name(ce.func) in ("contextlib.suppress", "suppress") or dotted(ce.func).split(".")[-1] == "suppress") and any(catches(x) for x in ce.args):
                    return a, f"`{norm(ce, 50)}` suppresses it"
        cur = a
    return None


def _error_as_value(repo: Repo, g: FuncInfo, handler: ast.ExceptHandler, callers: list[tuple[FuncInfo, ast.Call]]):
    """`except ImpossibleMatch as e: return <.., description>` / `return <.., None>`: the failure is handed to the callers as a value
    (a position of the returned tuple that is None on success only).  True if every caller raises an error (not a verdict)
    whenever it receives such a value, (False, why) if one provably does not, None if the idiom is not recognised."""
    from core.guards import atoms_of, f_and, f_not, implies as implies_f
    from .common import truth

    def tuple_of(r: ast.Return):
        v = r.value
        return list(v.elts) if isinstance(v, ast.Tuple) else None

    in_handlers = {id(x) for t in ast.walk(g.node) if isinstance(t, ast.Try) for h in t.handlers for st in h.body for x in ast.walk(st)}
    h_rets = [r for st in handler.body for r in ast.walk(st) if isinstance(r, ast.Return)]
    n_rets = [r for r in own_nodes(g.node) if isinstance(r, ast.Return) and id(r) not in in_handlers]
    if len(h_rets) != 1 or not n_rets or h_rets[0].value is None:
        return None
    th = tuple_of(h_rets[0])
    tns = [tuple_of(r) for r in n_rets]
    if th is None or any(t is None or len(t) != len(th) for t in tns):
        return None
    is_none = lambda e: isinstance(e, ast.Constant) and e.value is None  # noqa: E731
    idx = [i for i in range(len(th)) if all(is_none(t[i]) for t in tns) and not is_none(th[i])]
    if len(idx) != 1 or not callers:
        return None
    i = idx[0]
    for h, call in callers:
        st = stmt_of(call)
        if not (isinstance(st, ast.Assign) and st.value is call and len(st.targets) == 1 and isinstance(st.targets[0], ast.Tuple) and len(st.targets[0].elts) == len(th)):
            return None
        mk = st.targets[0].elts[i]
        if not (isinstance(mk, ast.Name) or (isinstance(mk, ast.Attribute) and isinstance(mk.value, ast.Name))):
            return None
        prem = f_and([truth(h, norm(mk)), f_not(truth(h, f"{norm(mk)} is None"))])
        markers: set[str] = set()
        for h2, c2 in callers:
            if h2 is h:
                s2 = stmt_of(c2)
                if isinstance(s2, ast.Assign) and isinstance(s2.targets[0], ast.Tuple) and len(s2.targets[0].elts) == len(th):
                    m2 = norm(s2.targets[0].elts[i])
                    markers |= atoms_of(truth(h, m2)) | atoms_of(truth(h, f"{m2} is None"))
        raises = [r for r in own_nodes(h.node) if isinstance(r, ast.Raise) and r.exc is not None and getattr(r, "lineno", 0) > getattr(st, "lineno", 0) and dotted(r.exc.func if isinstance(r.exc, ast.Call) else r.exc).split(".")[-1] != "AssertionError"]
        if not raises:
            return False, f"{h.qualname} receives the failure of `{norm(call, 50)}` in `{norm(mk)}` and never raises an error for it"
        guards = [guard_formula(h, r) for r in raises]
        if any(implies_f(prem, gd) for gd in guards):
            continue
        if all(atoms_of(gd) <= markers for gd in guards):
            from core.guards import show as show_formula

            return False, f"{h.qualname} receives the failure of `{norm(call, 50)}` in `{norm(mk)}` but raises only if `{show_formula(guards[0])}`"
        return None
    return True


def run_r5(repo: Repo, res: Result) -> None:
    """'raises a no-match error (never a verdict) when nothing matches': the ImpossibleMatch raised by the conversion reaches the
    caller of Rule.assert_applies - in no function on a call path from Rule.assert_applies to ModuleNameConverter.convert does the
    call that leads on to the conversion sit under a construct that catches the error and goes on to a verdict."""
    from .common import callees_of

    T = types_of(repo)
    rule = repo.cls(RULE, "Rule")
    aa = rule.methods.get("assert_applies")
    conv = repo.cls(CONVERTER, "ModuleNameConverter").methods.get("convert")
    if aa is None or conv is None:
        raise AnalysisError("Rule.assert_applies / ModuleNameConverter.convert not found")
    _entry_points(repo)  # the matcher call must exist (raises otherwise)
    reach = list(reachable_funcs(repo, [aa], byname=False))
    edges = {f: set(callees_of(repo, f, False)) for f in reach}
    leads: set = {conv}
    changed = True
    while changed:
        changed = False
        for f, cs in edges.items():
            if f not in leads and cs & leads:
                leads.add(f)
                changed = True
    if aa not in leads:
        res.undecide("C11.R5", f"{aa.relpath}::{aa.qualname}::no-match error propagates", "no call path from Rule.assert_applies to ModuleNameConverter.convert could be resolved", where(aa, aa.node))
        return
    sites: dict = {}  # function -> calls that lead on to the conversion
    for f in sorted(leads - {conv}, key=lambda x: x.fq):
        if f.module.name.startswith("pytestarch.eval_structure") or isinstance(f.node, ast.Lambda):
            continue
        for c in own_nodes(f.node):
            if isinstance(c, ast.Call):
                try:
                    cs, _how = T.callees(f, c, byname_fallback=False)
                except Exception:  # noqa: BLE001
                    cs = []
                if set(cs) & leads:
                    sites.setdefault(f, []).append(c)
    n = 0
    for f, calls in sites.items():
        fn = Fn(repo, f)
        for c in calls:
            n += 1
            got = _swallowed(repo, fn, c)
            key = repo.key(f, stmt_of(c)) + f" [{norm(c.func, 60)}: no-match error propagates]"
            if got is None:
                res.add("C11.R5", key, True, "an ImpossibleMatch raised below this call leaves the function as an error", where(f, c), kind="dominance")
                continue
            node, why = got
            if isinstance(node, ast.ExceptHandler) and node.body and isinstance(node.body[-1], ast.Return) and node.body[-1].value is not None:
                callers = [(h, m) for h, ms in sites.items() for m in ms if f in set(T.callees(h, m, byname_fallback=False)[0])]
                d = _error_as_value(repo, f, node, callers)
                if d is True:
                    res.add("C11.R5", key, True, "the ImpossibleMatch is handed to the callers as a value, and every caller raises an error whenever it receives one", where(f, c), kind="dominance")
                    continue
                if d is None:
                    res.undecide("C11.R5", key, f"`{norm(c, 50)}`: {why}, returning `{norm(node.body[-1].value, 50)}` - whether every caller raises an error for it was not recognised", where(f, node))
                    continue
                why = f"{why}; {d[1]}"
            res.add("C11.R5", key, False, f"an ImpossibleMatch raised below `{norm(c, 50)}` does not reach the user: {why} - a regex that matches nothing yields a verdict instead of the no-match error", where(f, node), kind="dominance")
    res.floor("C11.R5", 3, n)


# --------------------------------------------------------------------------------------------------------------- C11.R2


def _allow_r2(caller: FuncInfo, callee: FuncInfo) -> bool:
    # the graph searches called for their side effects only (sub modules of a match) are not part of the conversion
    return callee.module.name != SEARCHES


@dataclass
class RegexTest:
    kind: str  # match | fullmatch | search | ...
    pattern: ast.AST | None
    subject: ast.AST | None
    flags: bool
    call: ast.AST


def regex_test(fn: Fn, e: ast.AST) -> RegexTest | None:
    """`re.match(p, s)`, `re.compile(p).match(s)` (and the fullmatch / search variants) inside the expression `e`."""
    for c in ast.walk(e):
        if not isinstance(c, ast.Call):
            continue
        name = fn.lib_name(c.func) if isinstance(c.func, (ast.Name, ast.Attribute)) else ""
        if name in ("re.match", "re.fullmatch", "re.search"):
            pat = c.args[0] if c.args else next((k.value for k in c.keywords if k.arg == "pattern"), None)
            sub = c.args[1] if len(c.args) > 1 else next((k.value for k in c.keywords if k.arg == "string"), None)
            flags = len(c.args) > 2 or any(k.arg == "flags" for k in c.keywords)
            if isinstance(pat, ast.Call) and fn.lib_name(pat.func) == "re.compile":
                flags = flags or len(pat.args) > 1 or bool(pat.keywords)
                pat = pat.args[0] if pat.args else None
            return RegexTest(name.split(".")[1], pat, sub, flags, c)
        if isinstance(c.func, ast.Attribute) and c.func.attr in ("match", "fullmatch", "search") and isinstance(c.func.value, ast.Subscript) and isinstance(c.func.value.value, ast.Name):
            # a cache of compiled patterns keyed by the pattern text: every entry is `cache[k] = re.compile(k)`
            cache = c.func.value.value.id
            stores = [n for n in ast.walk(fn.fi.node) if isinstance(n, ast.Assign) and any(isinstance(t, ast.Subscript) and isinstance(t.value, ast.Name) and t.value.id == cache for t in n.targets)]
            others = [n for n in ast.walk(fn.fi.node) if isinstance(n, ast.Call) and isinstance(n.func, ast.Attribute) and isinstance(n.func.value, ast.Name) and n.func.value.id == cache and n.func.attr in ("update", "setdefault", "pop", "popitem", "clear")]
            inits = [d for d in fn.reaching(cache, fn.ctx_of(c.func.value.value)[1]) if d.kind == "assign"] if parent(fn.ctx_of(c.func.value.value)[1]) is not None else []
            ok = bool(stores) and not others and all(d.value is not None and isinstance(d.value, ast.Dict) and not d.value.keys for d in inits) and bool(inits)
            flags = len(c.args) > 1 or bool(c.keywords)
            for n in stores:
                t = next(t for t in n.targets if isinstance(t, ast.Subscript) and isinstance(t.value, ast.Name) and t.value.id == cache)
                v = n.value
                if not (len(n.targets) == 1 and isinstance(v, ast.Call) and fn.lib_name(v.func) == "re.compile" and v.args and norm(v.args[0]) == norm(t.slice)):
                    ok = False
                elif len(v.args) > 1 or v.keywords:
                    flags = True
            if ok:
                return RegexTest(c.func.attr, c.func.value.slice, c.args[0] if c.args else None, flags, c)
        if isinstance(c.func, ast.Attribute) and c.func.attr in ("match", "fullmatch", "search") and isinstance(c.func.value, ast.Call) and fn.lib_name(c.func.value.func) == "re.compile":
            comp = c.func.value
            flags = len(comp.args) > 1 or bool(comp.keywords) or len(c.args) > 1 or bool(c.keywords)
            return RegexTest(c.func.attr, comp.args[0] if comp.args else None, c.args[0] if c.args else None, flags, c)
    return None


def _success_polarity(lit: ast.AST, call: ast.AST) -> bool | None:
    """Polarity of the literal `lit` under which the match object `call` exists: `m` -> True, `m is None` -> False."""
    if lit is call:
        return True
    if isinstance(lit, ast.Compare) and len(lit.ops) == 1 and lit.left is call and isinstance(lit.ops[0], (ast.Is, ast.Eq)) and isinstance(lit.comparators[0], ast.Constant) and lit.comparators[0].value is None:
        return False
    return None


def _is_regex_flag(lit: ast.AST, var: str) -> bool:
    if isinstance(lit, ast.Attribute) and lit.attr == "identifier_is_regex" and isinstance(lit.value, ast.Name) and lit.value.id == var:
        return True
    if isinstance(lit, ast.Call) and isinstance(lit.func, ast.Name) and lit.func.id == "isinstance" and len(lit.args) == 2 and isinstance(lit.args[0], ast.Name) and lit.args[0].id == var and "ModuleNameRegexFilter" in norm(lit.args[1]):
        return True
    return False


def _is_identifier_of(e: ast.AST | None, var: str) -> bool:
    return isinstance(e, ast.Attribute) and e.attr in ("identifier", "name") and isinstance(e.value, ast.Name) and e.value.id == var


@dataclass
class Matched:
    ok: bool
    why: str = ""
    subject: str = ""
    pattern: str = ""


def _first_time_flag(fn: Fn, lit: ast.AST) -> bool:
    """`if x is None: x = <new>; ...` inside an inner loop with `x = None` set at the start of every pass of the enclosing loop:
    the block runs for the first inner element that gets there - once per outer element if any inner element qualifies."""
    if not (isinstance(lit, ast.Compare) and len(lit.ops) == 1 and isinstance(lit.ops[0], ast.Is) and isinstance(lit.comparators[0], ast.Constant) and lit.comparators[0].value is None and isinstance(lit.left, ast.Name)):
        return False
    ctx, orig = fn.ctx_of(lit.left)
    if ctx is not fn.fi or parent(orig) is None:
        return False
    test_if = next((a for a in ancestors(orig) if isinstance(a, ast.If) and any(n is orig for n in ast.walk(a.test))), None)
    if test_if is None:
        return False
    defs = fn.reaching(orig.id, orig)
    inits = [d for d in defs if d.kind == "assign" and isinstance(d.value, ast.Constant) and d.value.value is None]
    sets = [d for d in defs if d not in inits]
    if len(inits) != 1 or not sets or any(d.kind != "assign" for d in sets):
        return False
    inside = {id(n) for st in test_if.body for n in ast.walk(st)}
    if any(id(d.stmt) not in inside for d in sets):
        return False
    loops_if = [a for a in ancestors(test_if) if isinstance(a, (ast.For, ast.AsyncFor))]
    loops_init = [a for a in ancestors(inits[0].stmt) if isinstance(a, (ast.For, ast.AsyncFor))]
    # the reset happens in a loop that encloses the loop of the test (reset once per outer element)
    return bool(loops_if) and bool(loops_init) and loops_init[0] in loops_if[1:] and loops_if[0] is not loops_init[0]


def _first_time_bool(fn: Fn, lit: ast.AST) -> bool:
    """`flag = False` at the start of every pass of the outer loop; inside the inner loop, *after a successful pattern test*,
    `if flag: continue` / `if not flag:` and `flag = True`: the guarded block runs for the first inner element that matches."""
    if not isinstance(lit, ast.Name):
        return False
    ctx, orig = fn.ctx_of(lit)
    if ctx is not fn.fi or parent(orig) is None:
        return False
    defs = fn.reaching(orig.id, orig)
    inits = [d for d in defs if d.kind == "assign" and isinstance(d.value, ast.Constant) and d.value.value is False]
    sets = [d for d in defs if d.kind == "assign" and isinstance(d.value, ast.Constant) and d.value.value is True]
    if len(inits) != 1 or not sets or len(inits) + len(sets) != len(defs):
        return False
    loops_use = [a for a in ancestors(orig) if isinstance(a, (ast.For, ast.AsyncFor))]
    loops_init = [a for a in ancestors(inits[0].stmt) if isinstance(a, (ast.For, ast.AsyncFor))]
    if not loops_use or not loops_init or loops_init[0] not in loops_use[1:] or loops_use[0] is loops_init[0]:
        return False
    for d in sets:
        if loops_use[0] not in list(ancestors(d.stmt)):
            return False
        # only a real match may set the flag
        tested = False
        for l, p in flatten(fn.conds_all(d.stmt)):
            rt = regex_test(fn, l)
            if rt is not None and _success_polarity(l, rt.call) == p:
                tested = True
        if not tested:
            return False
    return True


def matched_pair(fn: Fn, c, modules_param: str, arch_param: str, membership_of: str | None = None, once_per_module: bool = False) -> Matched:
    """Is the contribution made exactly once for every pair (regex filter f of `modules`, module m of `arch.modules`) with
    re.match(f.identifier, m)?  `membership_of`: a literal `f.identifier in <that name>` is tolerated (remove idiom)."""
    subj = [b for b in c.binders if b.root and isinstance(b.source, ast.Attribute) and b.source.attr == "modules" and dotted(b.source.value) == arch_param and len(b.names) == 1]
    pats = [b for b in c.binders if b.root and dotted(b.source) == modules_param and len(b.names) == 1]
    if len(c.binders) != 2 or len(subj) != 1 or len(pats) != 1:
        rng = ", ".join(f"{norm(b.target)} in {show(b.source, 50)}" for b in c.binders) or "nothing"
        return Matched(False, f"it ranges over ({rng}) instead of every (module of `{arch_param}.modules`, filter of `{modules_param}`) pair")
    sv, pv = subj[0].names[0], pats[0].names[0]
    lits = flatten(c.conds)
    flag = test = False
    for lit, pol in lits:
        if _is_regex_flag(lit, pv):
            if not pol:
                return Matched(False, "it is made for filters that are *not* regex filters")
            flag = True
            continue
        rt = regex_test(fn, lit)
        if rt is not None:
            succ = _success_polarity(lit, rt.call)
            if succ is None:
                return Matched(False, f"the use of the match result in `{show(lit)}` is not recognised")
            if succ != pol:
                return Matched(False, f"it is made when the pattern test `{show(rt.call)}` *fails*")
            if rt.kind != "match" or rt.flags:
                return Matched(False, f"the pattern test uses re.{rt.kind}{' with flags' if rt.flags else ''} instead of re.match(pattern, name)")
            if not _is_identifier_of(rt.pattern, pv) or not (isinstance(rt.subject, ast.Name) and rt.subject.id == sv):
                return Matched(False, f"the pattern test is `{show(rt.call)}`, not re.match(<regex filter>.identifier, <module name>)")
            test = True
            continue
        if not pol and c.kind == "add" and c.acc and isinstance(lit, ast.Compare) and isinstance(lit.ops[0], ast.In) and dotted(lit.comparators[0]) == c.acc and c.elt is not None and norm(lit.left) == norm(c.elt):
            continue  # `if e not in acc: acc.append(e)` - duplicates are not added twice
        if once_per_module and pol and _first_time_flag(fn, lit):
            continue  # added for the first matching pattern of a module only: the same *set* of modules
        if once_per_module and not pol and _first_time_bool(fn, lit):
            continue  # the same with a boolean: `if seen: continue; seen = True` after the pattern test, reset per module
        if membership_of is not None and pol and isinstance(lit, ast.Compare) and isinstance(lit.ops[0], ast.In) and _is_identifier_of(lit.left, pv) and dotted(lit.comparators[0]) == membership_of:
            continue
        return Matched(False, f"it additionally depends on `{'' if pol else 'not '}{show(lit)}`")
    if not test:
        return Matched(False, "it does not depend on the pattern test re.match(pattern, name)")
    if not flag:
        return Matched(False, "it is also made for filters that are not regex filters (their names are used as patterns)")
    return Matched(True, "", sv, pv)


def _full(co: Collections, node: ast.AST):
    """Normalised description with `if <collection>:` conditions turned into binders."""
    d = co.normalise(co.exists_intro(co.describe(node)))
    # conditions that only appear once sources are composed (an element was registered `if <its own match list>:`)
    return co.normalise(co.exists_intro(d))


def _tuple_parts(fn: Fn, e: ast.AST) -> list[ast.AST] | None:
    if isinstance(e, ast.Tuple):
        return list(e.elts)
    if isinstance(e, ast.Name):
        defs = fn.reaching(e.id, e)
        if len(defs) == 1 and defs[0].kind == "assign" and isinstance(defs[0].value, ast.Tuple):
            return list(defs[0].value.elts)
    return None


def run_r2(repo: Repo, res: Result) -> None:
    T = types_of(repo)
    conv = repo.cls(CONVERTER, "ModuleNameConverter")
    f = conv.methods.get("convert")
    if f is None:
        raise AnalysisError("ModuleNameConverter.convert not found")
    view = inline_view(repo, f, T, allow=_allow_r2)
    fn = Fn(repo, view)
    co = Collections(fn)
    _routing(repo, res, view)
    off = 0 if f.is_staticmethod else 1
    modules_p, arch_p = view.param_names[off], view.param_names[off + 1]
    base = f"{f.relpath}::{f.qualname}::"
    rets = [s for s in own_nodes(view.node) if isinstance(s, ast.Return) and s.value is not None]
    parts = _tuple_parts(fn, rets[0].value) if len(rets) == 1 else None
    if len(rets) > 1:
        # several exits: at least none of them may bypass the unmatched-pattern test
        rs = [s for s in own_nodes(view.node) if isinstance(s, ast.Raise) and s.exc is not None and _raised_class(fn, s.exc).endswith(".ImpossibleMatch")]
        cfg = cfg_of(view)
        free = [r for r in rets if not any(cfg.dominates(_if_of(x), r) for x in rs)]
        if free and not all(isinstance(e, (ast.List, ast.Tuple, ast.Dict)) and not getattr(e, "elts", getattr(e, "keys", None)) for e in (_tuple_parts(fn, free[0].value) or [free[0].value])):
            res.add("C11.R2", base + "no-match raises", False, f"`{header(free[0])[:80]}` returns a conversion result without the unmatched-pattern test having been made: a regex matching nothing does not raise ImpossibleMatch before the conversion result is returned", where(view, free[0]), kind="dominance")
            return
    if parts is None or len(parts) != 2:
        res.undecide("C11.R2", base + "result", "expected a single `return <filters>, <mapping>`", where(view, rets[0] if rets else view.node))
        return
    ret = rets[0]
    d = _full(co, parts[0])
    if d.unknown:
        res.undecide("C11.R2", base + "result", "the list of converted filters is not recognised: " + "; ".join(d.unknown[:2]), where(view, ret))
        return
    # ---- every element of the result is either the name filter of a matched (regex, module) pair or an unchanged non-regex filter
    k1, k2, bad = [], [], []
    for c in d.contribs:
        cls_ = _ctor_class(fn, c.elt) if c.elt is not None else ""
        if cls_.endswith(".ModuleNameFilter"):
            k1.append(c)
        elif isinstance(c.elt, ast.Name) and len(c.binders) == 1 and c.binders[0].root and dotted(c.binders[0].source) == modules_p and c.elt.id in c.binders[0].names:
            k2.append(c)
        else:
            bad.append(f"the result also holds `{c.text()[:110]}`")
    for r_ in d.removals:
        bad.append(f"elements are taken out of the result again (`{show(r_.node, 70)}`)")
    n1 = 0
    scan_loops: list[ast.AST] = []
    sites: dict[int, ast.AST] = {}  # loop inside a generator helper -> statement of the view that runs it
    for c in k1:
        m = matched_pair(fn, c, modules_p, arch_p, once_per_module=True)
        key = repo.key(view, stmt_of(c.node)) + " [pattern x module]" if c.node is not None and parent(c.node) is not None else base + "name filter of a match"
        ok = m.ok
        why = m.why
        if ok:
            arg = _ctor_arg(fn, c.elt, "name")
            if not (isinstance(arg, ast.Name) and arg.id == m.subject):
                ok, why = False, f"the filter built for a match is `{show(c.elt)}`, not the name filter of the matched module `{m.subject}`"
            for b in c.binders:
                if isinstance(b.loop, (ast.For, ast.AsyncFor)) and b.loop not in scan_loops:
                    scan_loops.append(b.loop)
                    if b.site is not None:
                        sites[id(b.loop)] = stmt_of(b.site)
        n1 += 1
        res.add("C11.R2", key, ok, "a name filter is added exactly for the pairs (regex filter, module) with re.match(pattern, module name)" if ok else f"`{show(c.node, 70)}`: {why}: a regex no longer stands for exactly the modules re.match(pattern, name) selects", where(view, c.node if c.node is not None else ret), kind="dominance")
    early = [x for lp in scan_loops for x in ast.walk(lp) if isinstance(x, (ast.Break, ast.Return))]
    res.add("C11.R2", base + "all modules scanned", bool(k1) and not early, "every module of the architecture is tested against every pattern" if k1 and not early else ("no name filter is ever added for a matching module" if not k1 else f"the scan can be left early (`{header(early[0])}`): a regex no longer stands for all modules it matches"), where(view, early[0] if early else view.node), kind="structural")
    ok2 = bool(k2)
    why2 = "the non-regex filters are not part of the result" if not k2 else ""
    for c in k2:
        lits = flatten(c.conds)
        v = c.binders[0].names[0]
        if not (len(lits) >= 1 and all(_is_regex_flag(l, v) and not pol for l, pol in lits)):
            extra = [f"{'' if pol else 'not '}{show(l)}" for l, pol in lits if not (_is_regex_flag(l, v) and not pol)]
            ok2, why2 = False, (f"filters are passed on under `{' and '.join(extra)}`" if extra else "filters are passed on whether or not they are regex filters")
    if bad:
        ok2, why2 = False, bad[0]
    res.add("C11.R2", base + "result = converted + others", ok2, "result is the converted filters plus the non-regex filters unchanged" if ok2 else f"{why2}: the conversion result is not `name filters of all matches + other filters unchanged`", where(view, ret), kind="structural")
    # ---- a regex that matches nothing raises before anything is returned
    raises = [s for s in own_nodes(view.node) if isinstance(s, ast.Raise) and s.exc is not None and _raised_class(fn, s.exc).endswith(".ImpossibleMatch")]
    ok, why = _no_match_raises(repo, view, fn, co, raises, ret, [sites.get(id(lp), lp) for lp in scan_loops], modules_p, arch_p)
    if ok is None:
        res.undecide("C11.R2", base + "no-match raises", why, where(view, raises[0] if raises else view.node))
    else:
        res.add("C11.R2", base + "no-match raises", ok, "a regex that matched nothing raises ImpossibleMatch before any result is returned" if ok else f"{why}: a regex matching nothing does not (only) raise ImpossibleMatch before the conversion result is returned", where(view, raises[0] if raises else view.node), kind="dominance")


def _flag_on_class(repo: Repo, ci, attr: str):  # noqa: ANN001
    """Value of the routing flag `attr` for instances of class `ci`, as far as the class alone determines it:
    ("const", bool, node) | ("depends", text, node) - it is computed from the instance's state | ("unknown", why, node)."""
    from .c11_lib import fold_const

    for c in repo.mro(ci):
        m = c.methods.get(attr)
        if m is not None:
            if m.is_abstract:
                continue
            if not (m.is_property or "cached_property" in m.decorators):
                return "unknown", f"{c.name}.{attr} is a method, not a property / attribute", m.node
            fn = Fn(repo, m)
            me = m.param_names[0] if m.param_names else "self"
            rets = [r for r in own_nodes(m.node) if isinstance(r, ast.Return)]
            if not rets:
                return "unknown", f"{c.name}.{attr} returns nothing", m.node
            vals = []
            for r in rets:
                v = fold_const(fn.expand(r.value)) if r.value is not None else ast.Constant(value=None)
                if isinstance(v, ast.Constant):
                    vals.append(bool(v.value))
                    continue
                if any(isinstance(x, ast.Name) and x.id == me for x in ast.walk(v)) or any(isinstance(x, ast.Name) and x.id == me for x in ast.walk(r.value)):
                    return "depends", norm(r.value, 70), r
                return "unknown", f"`{norm(r.value, 60)}` in {c.name}.{attr} is not a constant", r
            if len(set(vals)) == 1:
                return "const", vals[0], rets[0]
            tests = [t for t in own_nodes(m.node) if isinstance(t, (ast.If, ast.IfExp))]
            dep = next((t for t in tests if any(isinstance(x, ast.Name) and x.id == me for x in ast.walk(t.test))), None)
            if dep is not None:
                return "depends", norm(dep.test, 70), dep
            return "unknown", f"{c.name}.{attr} returns different constants", rets[0]
        if attr in c.class_attrs:
            v = fold_const(c.class_attrs[attr])
            if isinstance(v, ast.Constant):
                return "const", bool(v.value), c.class_attrs[attr]
            return "unknown", f"{c.name}.{attr} = `{norm(c.class_attrs[attr], 50)}` is not a constant", c.class_attrs[attr]
        if attr in c.ann_attrs:
            ann = c.ann_attrs[attr]
            default = next((n.value for n in c.node.body if isinstance(n, ast.AnnAssign) and isinstance(n.target, ast.Name) and n.target.id == attr and n.value is not None), None)
            if default is not None and isinstance(fold_const(default), ast.Constant) and ("ClassVar" in norm(ann) or not c.is_dataclass):
                return "const", bool(fold_const(default).value), default
            return "unknown", f"{c.name}.{attr} is a field that every instance may set differently", c.node
        # set once in the constructor
        init = c.methods.get("__init__") or c.methods.get("__post_init__")
        if init is not None:
            sets = [n for n in own_nodes(init.node) if isinstance(n, ast.Assign) and any(isinstance(t, ast.Attribute) and t.attr == attr and isinstance(t.value, ast.Name) and t.value.id == init.param_names[0] for t in n.targets)]
            if sets:
                fi_ = Fn(repo, init)
                vs = [fold_const(fi_.expand(n.value)) for n in sets]
                if all(isinstance(v, ast.Constant) for v in vs) and len({bool(v.value) for v in vs}) == 1 and not flatten(fi_.conds_all(sets[0])):
                    return "const", bool(vs[0].value), sets[0]
                if any(isinstance(x, ast.Name) and x.id in init.param_names for n in sets for x in ast.walk(n.value)):
                    return "depends", norm(sets[0].value, 70), sets[0]
                return "unknown", f"{c.name}.{attr} is set in the constructor to `{norm(sets[0].value, 50)}`", sets[0]
    return "unknown", f"no definition of `{attr}` found for {ci.name}", ci.node


def _routing(repo: Repo, res: Result, view: FuncInfo) -> None:
    """Premise of C11.R2: whether a filter is converted is decided by the flag the conversion reads - for the filters that
    have_name_matching / have_name_containing create (ModuleNameRegexFilter, C11.R3) that flag must be True whatever the pattern
    text is, and for the name filters the conversion puts in their place it must be False (or the expansion would be expanded again).
    A test on the class itself (`isinstance`) routes by construction."""
    attrs = sorted({n.attr for n in own_nodes(view.node) if isinstance(n, ast.Attribute) and isinstance(n.ctx, ast.Load) and n.attr == "identifier_is_regex"})
    base = repo.cls(EVAL_ARCH, "ModuleFilter")
    by_name = {c.name: c for c in [base, *repo.subclasses(base)]}
    for cname, want in (("ModuleNameRegexFilter", True), ("ModuleNameFilter", False)):
        ci = by_name.get(cname)
        if ci is None:
            if want:
                raise AnalysisError(f"{cname} not found")
            continue
        for c in [ci, *[x for x in repo.subclasses(ci) if x is not ci]]:
            if not want and c is not ci:
                continue
            key = f"{c.module.relpath}::{c.name}::{'regex filters are routed to the conversion' if want else 'name filters are passed on unconverted'}"
            if not attrs:
                res.add("C11.R2", key, True, "the conversion tells regex filters from others by their class", where(view, view.node), kind="structural")
                continue
            for attr in attrs:
                kind, val, node = _flag_on_class(repo, c, attr)
                loc = f"{c.module.relpath}:{getattr(node, 'lineno', 0)}"
                if kind == "const":
                    ok = val is want
                    res.add("C11.R2", key, ok, f"`{c.name}.{attr}` is {val} for every instance" if ok else f"`{c.name}.{attr}` is {val} for every instance: " + ("no filter created by have_name_matching / have_name_containing is ever converted" if want else "the name filters a regex is replaced by are treated as regexes again"), loc, kind="structural")
                elif kind == "depends":
                    res.add("C11.R2", key, False, f"`{c.name}.{attr}` is `{val}`: whether a filter " + ("created by have_name_matching / have_name_containing reaches the conversion depends on its pattern text, not on its class - a pattern without special characters (e.g. `paylib`) is passed on as a plain module name and no longer stands for all modules it matches, and raises no ImpossibleMatch when it matches nothing" if want else "that names a module is converted depends on its text: a named module is expanded like a regex"), loc, kind="structural")
                else:
                    res.undecide("C11.R2", key, val, loc)


def _raised_class(fn: Fn, exc: ast.AST) -> str:
    if isinstance(exc, ast.Call):
        return _ctor_class(fn, exc)
    t = fn.type_of(exc)
    for m in (t[1] if t[0] == "union" else [t]):
        if m[0] == "type":
            return m[1]
    return ""


def _pattern_image(c, modules_p: str, extra_ok=None) -> tuple[bool, list]:
    """Contribution `{f.identifier | f in modules, f is regex}`; returns (is it, remaining literals)."""
    if len(c.binders) != 1 or not c.binders[0].root or dotted(c.binders[0].source) != modules_p or len(c.binders[0].names) != 1:
        return False, []
    v = c.binders[0].names[0]
    if not _is_identifier_of(c.elt, v):
        return False, []
    rest, flag = [], False
    for lit, pol in flatten(c.conds):
        if _is_regex_flag(lit, v) and pol:
            flag = True
        else:
            rest.append((lit, pol))
    return flag, rest


def _no_match_raises(repo: Repo, view: FuncInfo, fn: Fn, co: Collections, raises: list, ret: ast.AST, scan_loops: list, modules_p: str, arch_p: str):
    if not raises:
        return False, "ImpossibleMatch is never raised"
    if len(raises) > 1:
        return None, "several `raise ImpossibleMatch` statements"
    r = raises[0]
    if any(isinstance(a, (ast.For, ast.AsyncFor, ast.While)) for a in ancestors(r)):
        return None, "ImpossibleMatch is raised inside the scan"
    lits = flatten(fn.conds_all(r))
    if len(lits) != 1 or not lits[0][1]:
        return False, f"ImpossibleMatch is raised under `{' and '.join(('' if p else 'not ') + show(l) for l, p in lits) or 'no condition'}`, not exactly when the set of unmatched patterns is non-empty"
    u = lits[0][0]
    if isinstance(u, ast.Compare) and len(u.ops) == 1 and isinstance(u.left, ast.Call) and isinstance(u.left.func, ast.Name) and u.left.func.id == "len" and len(u.left.args) == 1 and isinstance(u.comparators[0], ast.Constant):
        k = u.comparators[0].value
        if (isinstance(u.ops[0], ast.Gt) and k == 0) or (isinstance(u.ops[0], ast.GtE) and k == 1):
            u = u.left.args[0]
        else:
            return False, f"ImpossibleMatch is raised under `{show(u)}`, not whenever some pattern matched nothing"
    if not (isinstance(u, ast.Name) or (isinstance(u, ast.Attribute) and isinstance(u.value, ast.Name) and u.value.id not in ("self", "cls"))):
        return None, f"the condition `{show(u)}` of the raise is not the truthiness of a collection"
    uname = dotted(u)
    cfg = cfg_of(view)
    guard_if = _if_of(r)

    def tested_empty(node: ast.AST) -> bool:
        """`node` only runs if the unmatched collection was tested and found empty (`if not U: return ...` / `if U: raise`)."""
        for lit, pol in flatten(fn.conds_all(node)):
            if isinstance(lit, ast.Compare) and len(lit.ops) == 1 and isinstance(lit.left, ast.Call) and isinstance(lit.left.func, ast.Name) and lit.left.func.id == "len" and len(lit.left.args) == 1 and isinstance(lit.comparators[0], ast.Constant):
                k = lit.comparators[0].value
                if ((isinstance(lit.ops[0], ast.Gt) and k == 0) or (isinstance(lit.ops[0], ast.GtE) and k == 1)) and not pol and dotted(lit.left.args[0]) == uname:
                    return True
                if isinstance(lit.ops[0], ast.Eq) and k == 0 and pol and dotted(lit.left.args[0]) == uname:
                    return True
            if not pol and dotted(lit) == uname:
                return True
        return False

    if not cfg.dominates(guard_if, ret) and not tested_empty(ret):
        return False, "the result can be returned without the unmatched-pattern test having been made"
    if not cfg.dominates(guard_if, ret):
        guard_if = next((a for a in [ret, *ancestors(ret)] if parent(a) is view.node), guard_if)  # the scan must precede this exit
    def top(lp: ast.AST) -> ast.AST:
        for a in ancestors(lp):
            if isinstance(a, (ast.For, ast.AsyncFor, ast.While)):
                lp = a
        return lp

    for lp in {id(top(x)): top(x) for x in scan_loops if x in cfg.g}.values():
        if not cfg.dominates(lp, guard_if):
            return False, "the unmatched-pattern test can be made before the scan"
    du = _full(co, u)
    if du.unknown:
        return None, f"`{uname}` is not recognised: {du.unknown[0]}"
    if not du.contribs:
        return False, f"`{uname}` never holds a pattern"
    # form A: all patterns, each taken out when (and only when) it matched
    images = [_pattern_image(c, modules_p) for c in du.contribs]
    if all(ok for ok, _ in images):
        rests = [rest for _, rest in images]
        if all(not rest for rest in rests):
            rem = du.removals
            if not rem:
                return False, f"`{uname}` holds every pattern and none is ever taken out"
            for x in rem:
                if x.how == "difference":
                    got = _matched_keys(fn, co, x.value, modules_p, arch_p)
                    if got is not True:
                        return got
                    continue
                if x.how not in ("remove", "discard"):
                    return None, f"`{show(x.node, 60)}` on the unmatched set is not recognised"
                m = matched_pair(fn, x, modules_p, arch_p, membership_of=uname)
                if not m.ok:
                    return False, f"a pattern is taken out of the unmatched set `{uname}` by `{show(x.node, 60)}`, but {m.why}"
                if not _is_identifier_of(x.elt, m.pattern):
                    return False, f"`{show(x.node, 60)}` takes `{show(x.elt)}` out of the unmatched set, not the pattern that matched"
            return True, ""
        # form B: patterns without an entry in a container keyed by matched patterns
        if len(du.contribs) == 1 and len(rests[0]) == 1 and not du.removals:
            lit, pol = rests[0][0]
            v = du.contribs[0].binders[0].names[0]
            if not pol and isinstance(lit, ast.Compare) and isinstance(lit.ops[0], ast.In) and _is_identifier_of(lit.left, v):
                got = _matched_keys(fn, co, lit.comparators[0], modules_p, arch_p)
                return (True, "") if got is True else got
        # form D: patterns whose match counter stayed at zero
        got = _unmatched_by_counter(fn, co, u, modules_p, arch_p)
        if got is not None:
            return got
        # form C: per pattern, "no module matched" is a flag set in an inner scan or `not any(<test> for <module>)`
        got = _unmatched_by_flag(fn, co, u, modules_p, arch_p)
        if got is not None:
            return got
        extra = [f"{'' if p else 'not '}{show(l)}" for rest in rests for l, p in rest]
        return False, f"the unmatched set `{uname}` does not start from all regex filters (only those with `{' and '.join(extra[:2])}`)"
    got = _unmatched_by_counter(fn, co, u, modules_p, arch_p)
    if got is not None:
        return got
    return None, f"the unmatched set `{uname}` is `{du.contribs[0].text()[:100]}` - not recognised"


def _unmatched_by_counter(fn: Fn, co: Collections, u: ast.Name, modules_p: str, arch_p: str):
    """`counts = dict.fromkeys(patterns, 0)` ... `counts[p] += 1` for every match ... `U = [p for p, n in counts.items() if n == 0]`.
    Returns None if the shape is a different one."""
    if not isinstance(u, ast.Name):
        return None
    raw = co.describe(u)
    if raw.unknown or raw.removals or len(raw.contribs) != 1:
        return None
    c = raw.contribs[0]
    if len(c.binders) != 1 or not isinstance(c.binders[0].target, (ast.Tuple, ast.List)) or len(c.binders[0].target.elts) != 2:
        return None
    src = c.binders[0].source
    if not (isinstance(src, ast.Call) and isinstance(src.func, ast.Attribute) and src.func.attr == "items" and isinstance(src.func.value, ast.Name) and not src.args):
        return None
    k, v = c.binders[0].target.elts
    if not (isinstance(k, ast.Name) and isinstance(v, ast.Name) and isinstance(c.elt, ast.Name) and c.elt.id == k.id):
        return None
    lits = flatten(c.conds)
    zero = len(lits) == 1 and ((isinstance(lits[0][0], ast.Name) and lits[0][0].id == v.id and not lits[0][1]) or (lits[0][1] and isinstance(lits[0][0], ast.Compare) and isinstance(lits[0][0].ops[0], ast.Eq) and isinstance(lits[0][0].left, ast.Name) and lits[0][0].left.id == v.id and isinstance(lits[0][0].comparators[0], ast.Constant) and lits[0][0].comparators[0].value == 0))
    if not zero:
        return False, f"`{u.id}` is `{c.text()[:90]}`: not the patterns whose match counter is zero"
    t = co.tree(src.func.value)
    if t is None:
        return None
    dm = _full(co, t)
    if dm.unknown or dm.removals:
        return None, f"the counter `{src.func.value.id}` is not recognised"
    seeds = [x for x in dm.contribs if x.how != "subscript-aug"]
    incs = [x for x in dm.contribs if x.how == "subscript-aug"]
    if not seeds or not incs:
        return None
    for x in seeds:
        ok, more = _pattern_image(x, modules_p)
        if not ok or more or not (isinstance(x.value, ast.Constant) and x.value.value == 0):
            return False, f"the counter `{src.func.value.id}` does not start at zero for every regex filter (`{x.text()[:80]}`)"
    for x in incs:
        if not (isinstance(x.value, ast.Constant) and isinstance(x.value.value, int) and x.value.value > 0 and isinstance(x.node, ast.AugAssign) and isinstance(x.node.op, ast.Add)):
            return None, f"`{show(x.node, 60)}` on the match counter is not recognised"
        m = matched_pair(fn, x, modules_p, arch_p)
        if not m.ok:
            return False, f"the match counter is increased by `{show(x.node, 60)}`, but {m.why}"
        if not _is_identifier_of(x.elt, m.pattern):
            return False, f"`{show(x.node, 60)}` counts for `{show(x.elt)}`, not for the pattern that matched"
    return True, ""


def _unmatched_by_flag(fn: Fn, co: Collections, u: ast.Name, modules_p: str, arch_p: str):
    """Unmatched set filled per pattern:  `for p in patterns: hit = False; for m in modules: if test: hit = True ...; if not hit:
    U.add(p)`  or  `if not any(test(p, m) for m in modules): U.add(p)`.  Returns None if the shape is a different one."""
    from .c11_coll import Binder, Contribution

    if not isinstance(u, ast.Name):
        return None
    raw = co.describe(u)
    if raw.unknown or raw.removals or len(raw.contribs) != 1:
        return None
    c = raw.contribs[0]
    lits = flatten(c.conds)
    neg = [(l, p) for l, p in lits if not p and (isinstance(l, ast.Name) or (isinstance(l, ast.Call) and isinstance(l.func, ast.Name) and l.func.id == "any" and len(l.args) == 1))]
    if len(neg) != 1 or not c.binders or not isinstance(c.binders[-1].loop, (ast.For, ast.AsyncFor)):
        return None
    lit = neg[0][0]
    rest = [(l, p) for l, p in lits if l is not lit]
    # without the flag the set must hold every pattern
    plain = co.normalise(type(raw)([Contribution(c.elt, None, list(c.binders), rest, c.context, c.node, "add", c.how, c.acc)]))
    if plain.unknown or len(plain.contribs) != 1:
        return None
    ok, more = _pattern_image(plain.contribs[0], modules_p)
    if not ok or more:
        return False, f"the unmatched set `{u.id}` does not start from all regex filters"
    outer = c.binders[-1].loop
    events: list[Contribution] = []
    if isinstance(lit, ast.Name):
        t = co.tree(lit)
        if t is None:
            return None
        defs = fn.reaching(lit.id, t)
        sets = [d for d in defs if d.kind == "assign" and isinstance(d.value, ast.Constant) and d.value.value is True]
        inits = [d for d in defs if d.kind == "assign" and isinstance(d.value, ast.Constant) and not d.value.value]
        if len(sets) + len(inits) != len(defs) or not sets or len(inits) != 1:
            return None
        if outer not in list(ancestors(inits[0].stmt)) or any(outer not in list(ancestors(d.stmt)) for d in sets):
            return None, f"the flag `{lit.id}` is not reset for every pattern"
        for d in sets:
            inner = [l for l in co._loops_between(d.stmt, [inits[0].stmt]) if isinstance(l, (ast.For, ast.AsyncFor))]
            local, _ctx = co.local_conds(d.stmt, inner[0] if inner else inits[0].stmt)
            if not inner:
                local = [x for x in fn.conds_all(d.stmt) if (id(x[0]), x[1]) not in {(id(e), p) for e, p in fn.conds_all(inits[0].stmt)}]
            events.append(Contribution(c.elt, None, list(c.binders) + [Binder(l.target, l.iter, l) for l in inner], rest + co.xc(local), [], d.stmt, "add", "flag"))
    else:
        g = lit.args[0]
        if not isinstance(g, (ast.GeneratorExp, ast.ListComp)):
            return None
        sub = co._describe_copy(g)
        for x in sub.contribs:
            events.append(Contribution(c.elt, None, list(c.binders) + x.binders, rest + x.conds + [(x.elt, True)], [], c.node, "add", "any"))
    d2 = co.normalise(type(raw)(events))
    if d2.unknown or not d2.contribs:
        return None
    for e in d2.contribs:
        m = matched_pair(fn, e, modules_p, arch_p)
        if not m.ok:
            return False, f"a pattern counts as matched at `{show(e.node, 60)}`, but {m.why}"
        if not _is_identifier_of(e.elt, m.pattern):
            return False, f"`{show(e.node, 60)}` marks `{show(e.elt)}`, not the pattern that matched"
    return True, ""


def _matched_keys(fn: Fn, co: Collections, m: ast.AST, modules_p: str, arch_p: str):
    """True if the container `m` gets an entry / element `f.identifier` exactly for the matched pairs."""
    ctx, orig = fn.ctx_of(m)
    while isinstance(orig, ast.Call) and ((isinstance(orig.func, ast.Name) and orig.func.id in ("set", "list", "frozenset", "tuple") and len(orig.args) == 1) or (isinstance(orig.func, ast.Attribute) and orig.func.attr == "keys")):
        orig = orig.args[0] if isinstance(orig.func, ast.Name) else orig.func.value
    if ctx is not fn.fi or parent(orig) is None:
        return None, f"`{show(m)}` is not recognised"
    dm = _full(co, orig)
    if dm.unknown or dm.removals:
        return None, f"`{show(m)}` is not recognised"
    if not dm.contribs:
        return False, f"`{show(m)}` never gets an entry"
    for c in dm.contribs:
        mm = matched_pair(fn, c, modules_p, arch_p)
        if not mm.ok:
            return False, f"`{show(c.node, 60)}` records a pattern as matched, but {mm.why}"
        if not _is_identifier_of(c.elt, mm.pattern):
            return False, f"`{show(c.node, 60)}` records `{show(c.elt)}`, not the pattern that matched"
    return True


def _if_of(stmt: ast.AST) -> ast.AST:
    p = parent(stmt)
    while isinstance(p, ast.If):
        stmt = p
        p = parent(p)
    return stmt


# --------------------------------------------------------------------------------------------------------------- C11.R3

PARTIAL = "pytestarch.utils.partial_match_to_regex_converter"


def _allow_r3(caller: FuncInfo, callee: FuncInfo) -> bool:
    # the translation of a partial name is vocabulary of the rule (its correctness is C08's business)
    return callee.module.name != PARTIAL


def _ctor_class(fn: Fn, call: ast.AST) -> str:
    """Fully qualified name of the repo class a call expression constructs ('' if it is not a constructor call)."""
    if not isinstance(call, ast.Call):
        return ""
    t = fn.type_of(call.func)
    for m in (t[1] if t[0] == "union" else [t]):
        if m[0] == "type":
            return m[1]
    return ""


def _ctor_arg(fn: Fn, call: ast.Call, field_name: str) -> ast.AST | None:
    """The argument a dataclass-style constructor call gives to `field_name` (keyword, or positional by field order)."""
    for k in call.keywords:
        if k.arg == field_name:
            return k.value
    ci = fn.repo.classes.get(_ctor_class(fn, call))
    if ci is None:
        return None
    init = fn.repo.lookup_method(ci, "__init__")
    if init is not None:
        names = init.param_names[1:]
    else:
        names = [a for c in reversed(fn.repo.mro(ci)) for a in c.ann_attrs]
    if field_name in names and names.index(field_name) < len(call.args):
        return call.args[names.index(field_name)]
    return None


def _builds_filter(fn: Fn, e: ast.AST) -> bool:
    for c in ast.walk(e):
        if isinstance(c, ast.Call):
            ci = fn.repo.classes.get(_ctor_class(fn, c))
            if ci is not None and any(x.name == "ModuleFilter" for x in fn.repo.mro(ci)):
                return True
    return False


def _self_sinks(view: FuncInfo, fn: Fn | None = None) -> list[tuple[ast.AST, ast.AST]]:
    """(statement, stored value) for every store into state reachable from `self`: attribute / subscript stores, setattr and
    in-place extensions, on `self...` itself or on a local that stands for a part of it (`configuration = self._configuration`)."""

    def of_self(e: ast.AST) -> bool:
        for x in ast.walk(e):
            if isinstance(x, ast.Name) and x.id == "self":
                return True
            if fn is not None and isinstance(x, ast.Name) and isinstance(x.ctx, ast.Load) and parent(x) is not None and x.id not in fn.params:
                defs = fn.reaching(x.id, x)
                # every value the local may hold is (a part of) the object: attribute chains / getattr on self
                if defs and all(d.kind == "assign" and d.value is not None and isinstance(d.value, (ast.Attribute, ast.Subscript, ast.Call)) and any(isinstance(y, ast.Name) and y.id == "self" for y in ast.walk(d.value)) and not (isinstance(d.value, ast.Call) and not (isinstance(d.value.func, ast.Name) and d.value.func.id == "getattr")) for d in defs):
                    return True
        return False

    out = []
    for n in own_nodes(view.node):
        if isinstance(n, ast.Assign):
            for t in n.targets:
                if isinstance(t, (ast.Attribute, ast.Subscript)) and of_self(t.value):
                    out.append((n, n.value))
        elif isinstance(n, ast.Call):
            if isinstance(n.func, ast.Name) and n.func.id == "setattr" and len(n.args) == 3 and of_self(n.args[0]):
                out.append((n, n.args[2]))
            elif isinstance(n.func, ast.Attribute) and n.func.attr in ("extend", "append", "update", "add") and n.args and of_self(n.func.value):
                out.append((n, n.args[0]))
    return out


def _is_str_test(e: ast.AST, param: str) -> bool:
    return isinstance(e, ast.Call) and isinstance(e.func, ast.Name) and e.func.id == "isinstance" and len(e.args) == 2 and isinstance(e.args[0], ast.Name) and e.args[0].id == param and isinstance(e.args[1], ast.Name) and e.args[1].id == "str"


def _stored_filters(repo: Repo, res: Result, m: FuncInfo, what: str, translate: bool) -> None:
    """The public method `m` of Rule stores {ModuleNameRegexFilter(name=t(n)) | n in names} (names = the parameter, or [parameter]
    if it is a str), unfiltered, on every path; t = convert_partial_match_to_regex if `translate` else the identity."""
    T = types_of(repo)
    view = inline_view(repo, m, T, allow=_allow_r3)
    fn = Fn(repo, view)
    co = Collections(fn)
    param = view.param_names[1]
    key = f"{m.relpath}::{m.qualname}::{what} -> regex filter"
    want = f"ModuleNameRegexFilter(name={'convert_partial_match_to_regex(<name>)' if translate else '<regex>'})"
    relevant: list[tuple[ast.AST, list]] = []
    unknown: list[str] = []
    for stmt, value in _self_sinks(view, fn):
        d = co.normalise(co.describe(value))
        mine = [c for c in d.contribs if any(param in names_loaded(b.source) for b in c.binders) or (c.elt is not None and (param in names_loaded(c.elt) or _builds_filter(fn, c.elt)))]
        if mine:
            relevant.append((stmt, d.contribs))
            unknown += d.unknown
            for r_ in d.removals:
                unknown.append(f"elements are removed (`{norm(r_.node, 60)}`)")
    if not relevant:
        uses = [n for n in own_nodes(view.node) if isinstance(n, ast.Name) and n.id == param and isinstance(n.ctx, ast.Load)]
        if not uses:
            res.add("C11.R3", key, False, f"`{param}` is never used: the given {what} is dropped instead of becoming {want}", where(view, view.node), kind="flow")
            return
        res.undecide("C11.R3", key, f"no store of filters built from `{param}` into the rule's state was recognised", where(view, view.node))
        return
    if unknown:
        res.undecide("C11.R3", key, "the list of filters is not recognised: " + "; ".join(unknown[:2]), where(view, view.node))
        return
    bad: list[str] = []
    dropped: list[str] = []
    for stmt, contribs in relevant:
        for c in contribs:
            if len(c.binders) > 1 or (c.binders and not (c.binders[0].root and dotted(c.binders[0].source) == param)):
                bad.append(f"`{norm(stmt, 70)}` stores filters built from `{', '.join(norm(b.source, 40) for b in c.binders)}`, not from every element of `{param}`")
                continue
            if c.binders and len(c.binders[0].names) != 1:
                bad.append(f"`{norm(stmt, 70)}`: elements of `{param}` are unpacked")
                continue
            var = c.binders[0].names[0] if c.binders else param
            # the parameter is iterated unless it is a str, and wrapped into a one-element list only if it is one
            for e, pol in flatten(list(c.conds) + [x for x in flatten(co.xc(c.context)) if _is_str_test(x[0], param)]):
                if _is_str_test(e, param):
                    if pol == bool(c.binders):
                        dropped.append(f"`{param}` is {'iterated although it is a str' if c.binders else 'taken as a single name although it is not a str'} (`{'' if pol else 'not '}{show(e)}`)")
                    continue
                dropped.append(f"a filter is only created if `{'' if pol else 'not '}{show(e)}`")
            elt = fn.expand(c.elt) if c.elt is not None else None  # factories that only delegate
            ok = _ctor_class(fn, elt).endswith(".ModuleNameRegexFilter")
            if ok:
                arg = _ctor_arg(fn, elt, "name")
                if translate:
                    callee = fn.callee(arg) if isinstance(arg, ast.Call) else None
                    ok = callee is not None and callee.module.name == PARTIAL and callee.name == "convert_partial_match_to_regex" and len(arg.args) + len(arg.keywords) == 1 and dotted([*arg.args, *[k.value for k in arg.keywords]][0]) == var
                else:
                    ok = isinstance(arg, ast.Name) and arg.id == var
            if not ok:
                bad.append(f"an element `{var}` of `{param}` becomes `{show(elt)}`, not {want.replace('<name>', var).replace('<regex>', var)}")
    res.add("C11.R3", key, not bad, f"each given {what} becomes {want}" if not bad else bad[0] + (": the partial-name form is not the regex filter of its translation" if translate else ": the regex does not become a regex filter of itself"), where(view, view.node), kind="flow")
    # every given name yields a filter, and the list reaches the rule's configuration on every path
    first = next((c for _, cs in relevant for c in cs if c.node is not None and parent(c.node) is not None), None)
    ctx = guard_formula(view, stmt_of(first.node)) if first is not None else None
    stored = f_or([guard_formula(view, stmt) for stmt, _ in relevant])
    if ctx is not None and not implies(ctx, stored):
        dropped.append("the list of filters is not stored on every path")
    res.add("C11.R3", f"{m.relpath}::{m.qualname}::one filter per {what}", not dropped, f"every given {what} yields exactly one filter, which is stored in the rule" if not dropped else dropped[0] + f": not every given {what} yields a filter", where(view, view.node), kind="structural")


def _store_signature(repo: Repo, m: FuncInfo):
    """Where and when the public method `m` of Rule stores the filters it builds from its parameter:
    ({(state field, how): guard formula with the parameter renamed}, reason why the signature is not fully known or '')."""
    import re as _re

    from core.guards import TRUE

    T = types_of(repo)
    view = inline_view(repo, m, T, allow=_allow_r3)
    fn = Fn(repo, view)
    co = Collections(fn)
    param = view.param_names[1]
    sig: dict[tuple[str, str], object] = {}
    unknown = ""

    def rename(f):  # noqa: ANN001
        if f[0] == "atom":
            return ("atom", _re.sub(rf"\b{_re.escape(param)}\b", "<given>", f[1]))
        if f[0] == "not":
            return ("not", rename(f[1]))
        if f[0] in ("and", "or"):
            return (f[0], [rename(x) for x in f[1]])
        return f

    def place(e: ast.AST) -> str:
        """`self._configuration.modules_to_check` for the target, through local aliases of parts of the object"""
        if isinstance(e, ast.Attribute):
            return f"{place(e.value)}.{e.attr}"
        if isinstance(e, ast.Subscript):
            return f"{place(e.value)}[{norm(e.slice, 40)}]"
        if isinstance(e, ast.Name) and e.id != "self" and parent(e) is not None and e.id not in fn.params:
            x = fn.expand(e)
            if x is not e and not isinstance(x, ast.Name):
                return place(x)
        return norm(e, 60)

    for stmt, value in _self_sinks(view, fn):
        d = co.normalise(co.describe(value))
        if not any(any(param in names_loaded(b.source) for b in c.binders) or (c.elt is not None and (param in names_loaded(c.elt) or _builds_filter(fn, c.elt))) for c in d.contribs):
            continue
        g = rename(guard_formula(view, stmt_of(stmt) if not isinstance(stmt, ast.stmt) else stmt))
        entries: list[tuple[str, str, object]] = []
        if isinstance(stmt, ast.Assign):
            for t in stmt.targets:
                if isinstance(t, (ast.Attribute, ast.Subscript)):
                    entries.append((place(t), "assign", g))
        elif isinstance(stmt, ast.Call) and isinstance(stmt.func, ast.Name):  # setattr(obj, name, value)
            name = fn.expand(stmt.args[1]) if parent(stmt.args[1]) is not None else stmt.args[1]
            if isinstance(name, ast.Constant) and isinstance(name.value, str):
                entries.append((f"{place(stmt.args[0])}.{name.value}", "assign", g))
            elif isinstance(name, ast.IfExp) and all(isinstance(x, ast.Constant) and isinstance(x.value, str) for x in (name.body, name.orelse)):
                from core.guards import f_and, f_not, to_formula

                c = rename(to_formula(name.test))
                entries.append((f"{place(stmt.args[0])}.{name.body.value}", "assign", f_and([g, c])))
                entries.append((f"{place(stmt.args[0])}.{name.orelse.value}", "assign", f_and([g, f_not(c)])))
            elif not (names_loaded(name) - {"self"}):
                # chosen by an expression over the rule's own state: comparable when both methods spell it alike
                entries.append((f"{place(stmt.args[0])}.<{norm(name, 80)}>", "assign", g))
            else:
                unknown = unknown or f"`{norm(stmt, 60)}` chooses the field by a computed name"
        elif isinstance(stmt, ast.Call) and isinstance(stmt.func, ast.Attribute):
            entries.append((place(stmt.func.value), stmt.func.attr, g))
        for fld, how, gg in entries:
            k = (fld, how)
            sig[k] = f_or([sig[k], gg]) if k in sig else gg
    return sig, unknown, view


def _same_store(repo: Repo, res: Result, partial: FuncInfo, regex: FuncInfo) -> None:
    """The deprecated partial-name form configures the rule exactly like the regex form: the filters go to the same state
    fields, in the same way (replace / extend), under equivalent conditions - only the pattern text differs (C11.R3 above)."""
    from core.guards import atoms_of, equivalent
    from core.guards import show as show_formula

    key = f"{partial.relpath}::{partial.qualname}::stores like have_name_matching"
    sa, ua, va = _store_signature(repo, partial)
    sb, ub, vb = _store_signature(repo, regex)
    if ua or ub or not sa or not sb:
        res.undecide("C11.R3", key, ua or ub or "no store of the filters into the rule's state was recognised in one of the two methods", where(va, va.node))
        return
    only_a = sorted(set(sa) - set(sb))
    only_b = sorted(set(sb) - set(sa))
    if any("<" in k[0] for k in only_a + only_b):
        res.undecide("C11.R3", key, f"the state field is chosen by a computed name (`{[k[0] for k in only_a + only_b if '<' in k[0]][0]}`) in one of the two methods only", where(va, va.node))
        return
    if only_a or only_b:
        fa = sorted({k[0] for k in sa})
        fb = sorted({k[0] for k in sb})
        if fa == fb:
            k = (only_a or only_b)[0]
            other = next(x for x in (sb if only_a else sa) if x[0] == k[0])
            why = f"have_name_containing stores its filters into `{k[0]}` by `{(k if only_a else other)[1]}`, have_name_matching by `{(other if only_a else k)[1]}`"
        else:
            why = f"have_name_containing stores its filters into {fa}, have_name_matching into {fb}"
        res.add("C11.R3", key, False, why + ": a rule given by a partial name is not configured like the rule given by the translated regex", where(va, va.node), kind="structural")
        return
    for k in sorted(sa):
        if equivalent(sa[k], sb[k]):
            continue
        if atoms_of(sa[k]) == atoms_of(sb[k]):
            res.add("C11.R3", key, False, f"have_name_containing stores into `{k[0]}` when `{show_formula(sa[k])}`, have_name_matching when `{show_formula(sb[k])}`: a rule given by a partial name is not configured like the rule given by the translated regex", where(va, va.node), kind="structural")
        else:
            res.undecide("C11.R3", key, f"the conditions under which `{k[0]}` is stored are spelled differently in the two methods (`{show_formula(sa[k])}` / `{show_formula(sb[k])}`)", where(va, va.node))
        return
    res.add("C11.R3", key, True, f"both forms store their filters into {sorted({k[0] for k in sa})} in the same way and under equivalent conditions", where(va, va.node), kind="structural")


def run_r3(repo: Repo, res: Result) -> None:
    rule = repo.cls(RULE, "Rule")
    m = rule.methods.get("have_name_containing")
    if m is None:
        res.observe("Rule.have_name_containing no longer exists (deprecated form removed): C11.R3 not applicable to it")
    else:
        _stored_filters(repo, res, m, "partial name", True)
    hm = rule.methods.get("have_name_matching")
    if hm is None:
        raise AnalysisError("Rule.have_name_matching not found")
    _stored_filters(repo, res, hm, "regex", False)
    if m is not None:
        _same_store(repo, res, m, hm)


# --------------------------------------------------------------------------------------------------------------- C11.R4


def _allow_r4(caller: FuncInfo, callee: FuncInfo) -> bool:
    # the searches themselves stay calls: they are what the rule looks for
    return callee.module.name != SEARCHES


def _queries(repo: Repo) -> list[FuncInfo]:
    """Non-abstract implementations of the three public graph queries of EvaluableArchitecture."""
    base = repo.cls(EVAL_ARCH, "EvaluableArchitecture")
    out: list[FuncInfo] = []
    for name in (EXPLICIT_QUERY, *OTHER_QUERIES):
        impls = [m for m in repo.implementations(base, name) if not _is_stub(m)]
        if not impls:
            raise AnalysisError(f"no implementation of the public query EvaluableArchitecture.{name} found")
        out += impls
    return out


def _is_stub(m: FuncInfo) -> bool:
    """Abstract method / protocol member: nothing but a docstring, `pass`, `...` or `raise NotImplementedError`."""
    if m.is_abstract:
        return True
    for s in m.node.body:
        if isinstance(s, ast.Pass) or (isinstance(s, ast.Expr) and isinstance(s.value, ast.Constant)):
            continue
        if isinstance(s, ast.Raise) and s.exc is not None and "NotImplementedError" in norm(s.exc):
            continue
        return False
    return True


def _strip_copies(e: ast.AST) -> ast.AST:
    while isinstance(e, ast.Call) and isinstance(e.func, ast.Name) and e.func.id in ("list", "tuple", "sorted", "set", "frozenset") and len(e.args) == 1:
        e = e.args[0]
    return e


def _value_candidates(fn: Fn, v: ast.AST) -> list[ast.AST]:
    """The expressions a stored value may stand for: a local with several definitions yields one candidate per definition."""
    ctx, orig = fn.ctx_of(v)
    if isinstance(v, ast.Name) and ctx is fn.fi and isinstance(orig, ast.Name) and parent(orig) is not None:
        defs = fn.reaching(orig.id, orig)
        if len(defs) > 1 and all(d.kind == "assign" and d.value is not None for d in defs):
            return [fn.expand(d.value) for d in defs]
    return [v]


def _carried(fn: Fn, co: Collections, loop: ast.For, acc: set[str]) -> set[str]:
    """State that survives from one iteration of `loop` to a later one: re-bound names read before they are bound again,
    containers changed in place in the body and read there, and any read of the result container itself."""
    targets = {n.id for n in ast.walk(loop.target) if isinstance(n, ast.Name)}
    inside = {id(n) for st in loop.body for n in ast.walk(st)}
    changed = assigned_names(loop.body)
    for name, evs in co.events().items():
        if any(id(ev[2]) in inside for ev in evs):
            changed.add(name)
    exposed = upward_exposed(loop.body, targets)
    out = (exposed & changed) - targets - acc
    # the result container may only be written (under its own key), never read
    for st in loop.body:
        for n in ast.walk(st):
            if isinstance(n, ast.Name) and n.id in acc and isinstance(n.ctx, ast.Load):
                p = parent(n)
                if isinstance(p, ast.Subscript) and isinstance(p.ctx, ast.Store) and p.value is n:
                    continue
                if isinstance(p, ast.Attribute) and p.attr in ("setdefault", "update") and isinstance(parent(p), ast.Call):
                    continue
                out.add(n.id)
    return out


def run_r4(repo: Repo, res: Result) -> None:
    T = types_of(repo)
    n = 0
    for m in _queries(repo):
        view = inline_view(repo, m, T, allow=_allow_r4)
        fn = Fn(repo, view)
        co = Collections(fn)
        params = [p for p in view.param_names[1:]]
        rets = [s for s in own_nodes(view.node) if isinstance(s, ast.Return) and s.value is not None]
        if not rets:
            raise AnalysisError(f"{m.fq}: returns nothing")
        contribs, removals, unknown = [], [], []
        mispaired: list[str] = []
        accs: set[str] = set()
        for r in rets:
            if isinstance(r.value, ast.Name):
                accs.add(r.value.id)
            d = co.normalise(co.describe(r.value))
            contribs += d.contribs
            removals += d.removals
            unknown += d.unknown
            mispaired += d.mispaired
        anchor = rets[0]
        loops = []
        for c in contribs:
            for b in c.binders:
                if isinstance(b.loop, (ast.For, ast.AsyncFor)) and b.loop not in loops:
                    loops.append(b.loop)
        key_node = loops[0] if loops else (contribs[0].node if contribs and contribs[0].node is not None else anchor)
        base_key = repo.key(view, key_node)
        if mispaired:
            res.add("C11.R4", base_key + " [result per key]", False, mispaired[0] + ": a key may be stored with the search result of another key", where(view, key_node), kind="structural")
            n += 4
            continue
        if unknown or not contribs:
            res.undecide("C11.R4", base_key, "the construction of the query result is not recognised: " + ("; ".join(unknown[:2]) or "no entry is ever stored"), where(view, key_node))
            n += 4  # the query was found; its four obligations are undecided, not missing
            continue
        # ---- all keys: one entry per element of the given module collections, nothing filtered
        bad: list[str] = []
        unsure: list[str] = []
        key_params: list[str] = []
        for c in contribs:
            for b in c.binders:
                src = dotted(b.source)
                if not b.root or src not in params:
                    if isinstance(b.source, ast.Call) and not any(isinstance(x, ast.Name) and x.id == "self" for x in ast.walk(b.source)):
                        unsure.append(f"the entries range over `{norm(b.source, 60)}`, which is not recognised as a copy of the given module collections")
                    else:
                        bad.append(f"the entries range over `{norm(b.source, 60)}`, which is not one of the given module collections")
                elif src not in key_params:
                    key_params.append(src)
            if not c.binders:
                bad.append(f"`{norm(c.node, 60)}` stores a single fixed entry")
            for e, pol in c.source_conds:
                bad.append(f"the keys are filtered by `{'' if pol else 'not '}{norm(e, 90)}`")
        for r_ in removals:
            bad.append(f"entries are removed again (`{norm(r_.node, 60)}`)")
        n += 1
        if unsure and not bad:
            res.undecide("C11.R4", base_key + " [all keys]", unsure[0], where(view, key_node))
        res.add(
            "C11.R4",
            base_key + " [all keys]",
            not bad,
            f"one entry per element of {key_params} (duplicates removed only)" if not bad else bad[0] + ": a subject/object of the batch gets no judgement of its own",
            where(view, key_node),
            kind="structural",
        )
        # ---- independent searches: the value of a key is a search over the graph, the key and whole given collections only
        bad = []
        unsure4: list[str] = []
        for c in contribs:
            bnames = {x for b in c.binders for x in b.names}
            if c.value is None:
                bad.append(f"`{norm(c.node, 60)}` does not store a search result under a key")
                continue
            for cand in _value_candidates(fn, _strip_copies(c.value)):
                call = _strip_copies(cand)
                searches_in = [x for x in ast.walk(cand) if isinstance(x, ast.Call) and (lambda cs: bool(cs) and all(f.module.name == SEARCHES for f in cs))(fn.callees(x)[0])]
                if not searches_in:
                    kind, why = _helper_search(fn, co, call, bnames, params, key_params)
                    if kind == "bad":
                        bad.append(why)
                    elif kind == "unsure":
                        unsure4.append(why)
                    continue
                if call is not searches_in[0] or len(searches_in) != 1:
                    others = sorted({x.id for x in ast.walk(cand) if isinstance(x, ast.Name) and x.id in fn.mutated} - bnames)
                    bad.append(f"the search result is post-processed (`{norm(cand, 80)}`)" + (f" using `{', '.join(others)}`" if others else ""))
                    continue
                for a in [*call.args, *[k.value for k in call.keywords]]:
                    why = _own_key_and_whole_sets_only(fn, co, a, bnames, params, key_params)
                    if why:
                        bad.append(f"the search also receives `{show(a, 60)}`{why}")
                # a collection that all keys share must come back from the search as it went in
                sf = fn.callee(call)
                if sf is not None and not isinstance(sf.node, ast.Lambda):
                    sp = [x.arg for x in [*sf.node.args.posonlyargs, *sf.node.args.args]]
                    given = dict(zip(sp, call.args))
                    given.update({k.arg: k.value for k in call.keywords if k.arg})
                    for pn, a in given.items():
                        if isinstance(a, ast.Name) and a.id in bnames or isinstance(a, ast.Constant) or (isinstance(a, ast.Attribute) and _is_graph(fn, a)):
                            continue
                        hit = _mutates_param(sf, pn)
                        if hit is not None:
                            bad.append(f"the search {sf.qualname} changes the collection `{pn}` it is given (`{header(stmt_of(hit))[:60]}`), and `{show(a, 50)}` is shared by all keys of the batch: the result for a key depends on which keys were searched before")
        n += 1
        if unsure4 and not bad:
            res.undecide("C11.R4", base_key + " [independent searches]", unsure4[0], where(view, key_node))
        res.add(
            "C11.R4",
            base_key + " [independent searches]",
            not bad,
            "each search receives only the graph, its own key and the whole opposite set" if not bad else bad[0] + (", so" if bad[0].endswith("batch") else ":") + " a batched rule is no longer the conjunction of the single rules",
            where(view, key_node),
            kind="flow",
        )
        # ---- no state carried from one key to the next
        carried: set[str] = set()
        for lp in loops:
            carried |= _carried(fn, co, lp, accs)
        n += 1
        res.add("C11.R4", base_key + " [no loop-carried state]", not carried, "no variable carries a value from one key to the next" if not carried else f"variable(s) {sorted(carried)} carry values between the iterations for different keys", where(view, key_node), kind="flow")
        # ---- result per key
        bad = []
        for c in contribs:
            bnames = {x for b in c.binders for x in b.names}
            missing = sorted(bnames - names_loaded(c.elt)) if c.elt is not None else sorted(bnames)
            if missing:
                bad.append(f"the key `{norm(c.elt, 60) if c.elt is not None else '?'}` does not identify `{', '.join(missing)}`")
            for e, pol in c.own_conds:
                bad.append(f"the entry is stored only if `{'' if pol else 'not '}{norm(e, 80)}`")
        n += 1
        res.add("C11.R4", base_key + " [result per key]", not bad, "the result is stored under the key of the iteration, unconditionally" if not bad else bad[0] + ": the result of a search is not stored under its own key for every key", where(view, key_node), kind="structural")
    res.floor("C11.R4", 12, n)


def _mutates_param(f: FuncInfo, pn: str) -> ast.AST | None:
    """The node in `f` that changes the object the parameter `pn` refers to in place (before `pn` is re-bound), else None."""
    rebound = [n for n in own_nodes(f.node) if isinstance(n, ast.Name) and n.id == pn and isinstance(n.ctx, ast.Store) and not isinstance(parent(n), ast.AugAssign)]
    first_rebind = min((getattr(n, "lineno", 10**9) for n in rebound), default=10**9)
    for x in own_nodes(f.node):
        tgt = None
        if isinstance(x, ast.Call) and isinstance(x.func, ast.Attribute) and x.func.attr in ("append", "extend", "add", "update", "remove", "pop", "clear", "discard", "insert", "setdefault", "popitem", "difference_update", "intersection_update", "symmetric_difference_update", "sort", "reverse"):
            tgt = x.func.value
        elif isinstance(x, ast.Subscript) and isinstance(x.ctx, (ast.Store, ast.Del)):
            tgt = x.value
        elif isinstance(x, ast.AugAssign) and isinstance(x.target, ast.Name) and isinstance(x.op, (ast.BitOr, ast.BitAnd, ast.Sub, ast.Add, ast.BitXor)):
            tgt = x.target  # s |= t / s -= t change a set / list in place
        if isinstance(tgt, ast.Name) and tgt.id == pn and getattr(x, "lineno", 0) < first_rebind:
            return x
    return None


def _helper_search(fn: Fn, co: Collections, call: ast.AST, bnames: set[str], params: list[str], key_params: list[str]) -> tuple[str, str]:
    """The value stored for a key is the result of a repo helper that could not be replaced by its body (a loop, a try, several
    statements).  ("ok", "") if the helper runs a graph search, changes nothing that outlives the call, and is given only the key
    and whole collections; ("bad", why) with the offending construct; ("unsure", why) if the helper cannot be followed."""
    repo = fn.repo
    T = types_of(repo)
    shown = norm(call, 80)
    if not isinstance(call, ast.Call):
        return "bad", f"the value `{shown}` stored for a key is not computed by a graph search for that key (it is derived from other state)"
    h = fn.callee(call)
    if h is None or isinstance(h.node, ast.Lambda):
        cs, _how = fn.callees(call)
        if not cs:
            return "bad", f"the value `{shown}` stored for a key is not computed by a graph search for that key (it is derived from other state)"
        return "unsure", f"the value `{shown}` stored for a key is computed by a helper that could not be resolved uniquely"
    inside = reachable_funcs(repo, [h], byname=False)
    if not any(g.module.name == SEARCHES for g in inside):
        return "bad", f"the value `{shown}` stored for a key is not computed by a graph search for that key (it is derived from other state)"
    # nothing that outlives the call is changed: fields of the receiver / of parameters, containers handed in
    orig_call = getattr(call, "_orig", (None, call))[1]
    own_object = isinstance(orig_call, ast.Call) and isinstance(orig_call.func, ast.Attribute) and isinstance(orig_call.func.value, ast.Call) and bool(_ctor_class(fn, call.func.value) if isinstance(call.func, ast.Attribute) else False)
    for g in inside:
        if g.module.name == SEARCHES or g.module.name.startswith("pytestarch.eval_structure.networkxgraph") or g.name in ("__init__", "__post_init__"):
            continue
        gp = set(g.param_names)
        gfn = Fn(repo, g)
        for x in own_nodes(g.node):
            tgt = None
            if isinstance(x, ast.Attribute) and isinstance(x.ctx, (ast.Store, ast.Del)):
                tgt = x.value
            elif isinstance(x, ast.Subscript) and isinstance(x.ctx, (ast.Store, ast.Del)):
                tgt = x.value
            elif isinstance(x, ast.Call) and isinstance(x.func, ast.Attribute) and x.func.attr in ("append", "extend", "add", "update", "remove", "pop", "clear", "discard", "insert", "setdefault", "popitem", "difference_update", "intersection_update", "sort", "reverse"):
                tgt = x.func.value
            elif isinstance(x, (ast.Global, ast.Nonlocal)):
                return "bad", f"the helper {g.qualname} that computes the value of a key keeps state outside the call (`{header(x)}`): state is shared between the searches of one batch"
            if tgt is None:
                continue
            root = tgt
            while isinstance(root, (ast.Attribute, ast.Subscript)):
                root = root.value
            if own_object and isinstance(root, ast.Name) and g.cls is h.cls and g.params and root.id == g.params[0].arg and not g.is_staticmethod:
                # the helper object is created for this key only: re-binding its fields does not outlive the entry; changing the
                # object a field refers to is fine if that object was made for this helper object (not handed in and shared)
                if isinstance(x, ast.Attribute) and x.value is root:
                    continue
                fld = tgt
                while isinstance(fld, (ast.Attribute, ast.Subscript)) and not (isinstance(fld, ast.Attribute) and fld.value is root):
                    fld = fld.value
                if isinstance(fld, ast.Attribute) and _field_is_private_copy(fn, orig_call.func.value, h.cls, fld.attr):  # as written: a local that holds a set is shared
                    continue
            local_names = {n_.id for n_ in own_nodes(g.node) if isinstance(n_, ast.Name) and isinstance(n_.ctx, ast.Store)}
            if isinstance(root, ast.Name) and (root.id in gp or root.id not in local_names):
                # a parameter, or a variable of an enclosing scope (closure / module): the object is not made by this call.
                # (a parameter re-bound locally to a fresh container first is a local)
                defs = gfn.reaching(root.id, root) if parent(root) is not None else []
                if root.id in gp and isinstance(tgt, ast.Name) and defs and all(d.kind == "assign" for d in defs):
                    continue
                return "bad", f"the helper {g.qualname} that computes the value of a key changes `{norm(tgt, 50)}` (`{header(stmt_of(x))[:60]}`), which outlives the call: state is shared between the searches of one batch"
    for a in [*([call.func.value] if isinstance(call.func, ast.Attribute) else []), *call.args, *[k.value for k in call.keywords]]:
        why = _own_key_and_whole_sets_only(fn, co, a, bnames, params, key_params)
        if why:
            return "bad", f"the helper also receives `{show(a, 60)}`{why}"
    return "ok", ""


def _fresh_container(e: ast.AST | None) -> bool:
    if isinstance(e, (ast.List, ast.Set, ast.Dict, ast.ListComp, ast.SetComp, ast.DictComp)):
        return True
    return isinstance(e, ast.Call) and isinstance(e.func, ast.Name) and e.func.id in ("set", "list", "dict", "sorted", "frozenset", "tuple", "defaultdict", "deque")


def _field_is_private_copy(fn: Fn, ctor_call: ast.AST, ci, attr: str) -> bool:  # noqa: ANN001
    """`self.<attr>` of the helper object built by `ctor_call` refers to a container made for that object: the constructor assigns a
    fresh container, or a parameter for which the call hands in a fresh copy."""
    init = fn.repo.lookup_method(ci, "__init__") if ci is not None else None
    if init is None or not isinstance(ctor_call, ast.Call):
        return False
    vals = []
    for n in own_nodes(init.node):
        pairs = []
        if isinstance(n, ast.Assign):
            pairs = [(t, n.value) for t in n.targets]
        elif isinstance(n, ast.AnnAssign) and n.value is not None:
            pairs = [(n.target, n.value)]
        for t, v in pairs:
            if isinstance(t, ast.Attribute) and t.attr == attr and isinstance(t.value, ast.Name) and t.value.id == init.param_names[0]:
                vals.append(v)
    if not vals:
        return False
    names = init.param_names[1:]
    given: dict[str, ast.AST] = dict(zip(names, ctor_call.args))
    given.update({k.arg: k.value for k in ctor_call.keywords if k.arg})
    for v in vals:
        if _fresh_container(v):
            continue
        if isinstance(v, ast.Name) and v.id in given and _fresh_container(given[v.id]):
            continue
        return False
    return True


def _own_key_and_whole_sets_only(fn: Fn, co: Collections, a: ast.AST, bnames: set[str], params: list[str], key_params: list[str], depth: int = 0) -> str:
    """'' if the argument is computed from the key of this search, the graph and whole given collections of the *other* side only
    (then the search for a key is the same in a batch and in the single rule); else the reason."""
    if isinstance(a, ast.Starred):
        a = a.value
    if isinstance(a, ast.Name) and a.id in bnames:
        return ""
    if isinstance(a, ast.Constant):
        return ""
    if isinstance(a, ast.Attribute) and _is_graph(fn, a):
        return ""  # the graph itself (read-only for the searches)
    if isinstance(a, ast.Name) and a.id in ("self", "cls"):
        return ""  # the architecture object: its fields are judged where the helper reads them
    if depth < 3 and isinstance(a, ast.Call) and _ctor_class(fn, a):
        for x in [*a.args, *[k.value for k in a.keywords]]:  # a helper object built from the graph and whole collections
            w = _own_key_and_whole_sets_only(fn, co, x, bnames, params, key_params, depth + 1)
            if w:
                return w
        return ""
    if depth < 3 and isinstance(a, ast.Name) and parent(a) is not None and a.id not in bnames and a.id not in params:
        x = fn.expand(a)
        if x is not a and not isinstance(x, ast.Name):
            return _own_key_and_whole_sets_only(fn, co, x, bnames, params, key_params, depth + 1)
    da = co.normalise(co._describe_copy(a))
    if not da.unknown and not da.removals and len(da.contribs) == 1 and not da.contribs[0].conds and len(da.contribs[0].binders) == 1 and da.contribs[0].binders[0].root and isinstance(da.contribs[0].elt, ast.Name) and da.contribs[0].elt.id in da.contribs[0].binders[0].names:
        src = dotted(da.contribs[0].binders[0].source)
        if src in params:
            if src in key_params and len(key_params) < len(params):
                return f" - the whole collection `{src}` whose elements are the keys: the result for a key depends on which other keys are in the batch"
            return ""
    if depth < 3:
        if isinstance(a, (ast.Set, ast.Tuple, ast.List)):
            for x in a.elts:
                w = _own_key_and_whole_sets_only(fn, co, x, bnames, params, key_params, depth + 1)
                if w:
                    return w
            return ""
        if isinstance(a, ast.BinOp) and isinstance(a.op, (ast.Sub, ast.BitOr, ast.BitAnd, ast.Add)):
            return _own_key_and_whole_sets_only(fn, co, a.left, bnames, params, key_params, depth + 1) or _own_key_and_whole_sets_only(fn, co, a.right, bnames, params, key_params, depth + 1)
        if isinstance(a, ast.Call) and isinstance(a.func, ast.Attribute) and a.func.attr in ("difference", "union", "intersection", "copy") and not a.keywords:
            for x in [a.func.value, *a.args]:
                w = _own_key_and_whole_sets_only(fn, co, x, bnames, params, key_params, depth + 1)
                if w:
                    return w
            return ""
    return ": state is shared between the searches of one batch"


def _is_graph(fn: Fn, a: ast.AST) -> bool:
    t = fn.type_of(a)
    for mm in (t[1] if t[0] == "union" else [t]):
        if mm[0] == "cls":
            ci = fn.repo.classes.get(mm[1])
            if ci is not None and any(c.name == "AbstractGraph" for c in fn.repo.mro(ci)):
                return True
    return False


def run(repo: Repo) -> Result:
    res = Result("C11")
    res.explanation = (
        "Relational argument over the code: a compact rule (regex / partial name / batch) and its expansion drive the same pipeline with the "
        "same arguments. Each rule analyses the inlined view of a public entry point (private helpers, local names and loop idioms play no "
        "role). (R1) in the matcher method that Rule.assert_applies runs, ModuleNameConverter.convert is executed unconditionally before every "
        "graph query, against the evaluable being queried, on the requirement given to the constructor, for both sides; a provenance analysis "
        "shows that every query argument and every requirement read by a detector / message generator derives from this evaluation's "
        "conversion and never from state that existed before it; (R2) the conversion result is described as a set comprehension and must be "
        "{ModuleNameFilter(m) | m in arch.modules, f regex filter, re.match(f.identifier, m)} plus the non-regex filters unchanged, the scan has "
        "no early exit, and ImpossibleMatch is raised exactly when the set of never-matched patterns is non-empty, before any return; (R3) "
        "have_name_containing stores {ModuleNameRegexFilter(convert_partial_match_to_regex(n)) | n in names}, unfiltered, on every path, into the "
        "same state fields, in the same way and under equivalent conditions as have_name_matching; (R4) "
        "each of the three public queries stores one graph search per element of the given collections, computed from the graph, its own key "
        "and whole given collections only, with no state carried between keys, so a batch is the conjunction of the single rules; (R5) nothing between "
        "the conversion and the caller of Rule.assert_applies catches the ImpossibleMatch of an unmatched regex and goes on to a verdict. Together with "
        "purity (C15) identical inputs give identical verdicts."
    )
    res.not_decided = "regexes matching a module and its sub modules (documented caveat); equality of verdicts is argued from identical pipelines, not observed; the translation convert_partial_match_to_regex itself is C08's."
    res.trusted_base = ["re.match semantics", "C15 (evaluation is a function of its arguments)", "engine CFG/guards/inline views", "engine/rules/c11_lib.py, c11_coll.py, c11_prov.py (def-use, collection descriptions, provenance)"]
    run_r1(repo, res)
    run_r2(repo, res)
    run_r3(repo, res)
    run_r4(repo, res)
    run_r5(repo, res)
    return res
