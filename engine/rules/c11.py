"""C11 - regex, partial-name and batched specifications equal their expansions (relational, by construction).

  C11.R1  the regex -> names conversion dominates every graph query; queries, detectors and message generators read the converted
          requirement, never the raw one; both sides are converted
  C11.R2  a regex contributes exactly {ModuleNameFilter(m) : m in arch.modules, re.match(pattern, m)}; ImpossibleMatch precedes a verdict
  C11.R3  the deprecated partial-name form is ModuleNameRegexFilter(convert_partial_match_to_regex(name)) per element
  C11.R4  batch = conjunction: per (subject, object) pair resp. per subject computations are independent (no shared state, no dropped key)
"""

from __future__ import annotations

import ast

from core.guards import atom, atoms_of, f_not, implies
from core.loader import AnalysisError, FuncInfo, Repo, ancestors, calls_in, header, norm, own_nodes, parent
from core.report import Result

from core.inline_stmt import inline_view

from .c11_coll import Collections
from .c11_lib import Fn, names_loaded, show
from .common import assigned_names, cfg_of, conds, dotted, guard_formula, truth, is_attr_call, loop_carried, loops_around, stmt_of, types_of, upward_exposed, where
from .tables import EVAL_GRAPH, EXPLICIT_QUERY, MATCHER, OTHER_QUERIES, RULE, SEARCHES

EVAL_ARCH = "pytestarch.eval_structure.evaluable_architecture"

CONVERTER = "pytestarch.eval_structure.module_name_converter"


def run_r1(repo: Repo, res: Result) -> None:
    T = types_of(repo)
    matcher = repo.cls(MATCHER, "RuleMatcher")
    match = matcher.methods.get("match")
    if match is None:
        raise AnalysisError("RuleMatcher.match not found")
    conv_calls = [c for c in calls_in(match.node) if is_attr_call(c, "_updated_module_requirements")]
    find_calls = [c for c in calls_in(match.node) if is_attr_call(c, "_find_rule_violations")]
    ok = len(conv_calls) == 1 and len(find_calls) == 1 and cfg_of(match).dominates(stmt_of(conv_calls[0]), stmt_of(find_calls[0])) and not conds(match, conv_calls[0])
    res.add("C11.R1", f"{match.relpath}::{match.qualname}::conversion dominates evaluation", ok, "regexes are converted to module names before any graph query, unconditionally" if ok else "the regex conversion does not unconditionally precede the evaluation of the rule (a stale or missing conversion is evaluated)", where(match, match.node), kind="dominance")
    upd = matcher.methods.get("_updated_module_requirements")
    if upd is None:
        raise AnalysisError("RuleMatcher._updated_module_requirements not found")
    convs = [c for c in calls_in(upd.node) if is_attr_call(c, "convert")]
    sides = sorted(norm(c.args[0]).split(".")[-1] for c in convs if c.args)
    ok = sides == ["importees_as_specified_by_user", "importers_as_specified_by_user"] and all(not conds(upd, c) for c in convs) and all(len(c.args) == 2 and dotted(c.args[1]) == upd.param_names[1] for c in convs)
    res.add("C11.R1", f"{upd.relpath}::{upd.qualname}::both sides converted", ok, "importers and importees are both converted against the evaluable being checked" if ok else f"conversion covers {sides} (conditions: {[norm(e) for c in convs for e, _ in conds(upd, c)]}): a side keeps its regex or is converted against another architecture", where(upd, upd.node), kind="structural")
    early = [s for s in own_nodes(upd.node) if isinstance(s, ast.Return)]
    res.add("C11.R1", f"{upd.relpath}::{upd.qualname}::no early return", not early, "conversion runs to completion on every call" if not early else f"`{header(early[0])}` skips the conversion (e.g. when a previous evaluation already converted)", where(upd, upd.node), kind="structural")
    # raw requirement must not be read outside the conversion
    n = 0
    for cls in [matcher, *repo.subclasses(matcher)]:
        for m in cls.methods.values():
            if m.name in ("__init__",) or m is upd:
                continue
            for node in own_nodes(m.node):
                if isinstance(node, ast.Attribute) and node.attr == "_module_requirement" and isinstance(node.ctx, ast.Load):
                    n += 1
                    res.add("C11.R1", repo.key(m, stmt_of(node)) + " [raw requirement]", False, f"{m.qualname} reads the un-converted requirement `{norm(parent(node))}`: regex filters reach a graph query / detector / message generator", where(m, node), kind="flow")
                if isinstance(node, ast.Attribute) and node.attr == "_updated_module_requirement" and isinstance(node.ctx, ast.Load):
                    n += 1
                    res.add("C11.R1", repo.key(m, stmt_of(node)) + f" [{norm(parent(node), 80)}]", True, "reads the converted requirement", where(m, node), kind="flow")
    res.floor("C11.R1", 6, n)


def run_r2(repo: Repo, res: Result) -> None:
    conv = repo.cls(CONVERTER, "ModuleNameConverter")
    f = conv.methods.get("convert")
    if f is None:
        raise AnalysisError("ModuleNameConverter.convert not found")
    arch = f.param_names[2]
    loops = [l for l in own_nodes(f.node) if isinstance(l, ast.For) and norm(l.iter) == f"{arch}.modules"]
    ok = len(loops) == 1 and not conds(f, loops[0]) and not any(isinstance(x, (ast.Break, ast.Return)) for x in ast.walk(loops[0]))
    res.add("C11.R2", f"{f.relpath}::{f.qualname}::all modules scanned", ok, "every module of the architecture is tested against every pattern" if ok else "the scan over `arch.modules` is conditional or can be left early: a regex no longer stands for all modules it matches", where(f, f.node), kind="structural")
    if not loops:
        return
    outer = loops[0]
    mvar = dotted(outer.target)
    match_calls = [c for c in ast.walk(outer) if isinstance(c, ast.Call) and isinstance(c.func, ast.Attribute) and "match" in c.func.attr]
    if len(match_calls) != 1:
        raise AnalysisError(f"{f.fq}: pattern test inside the module scan not recognised")
    mc = match_calls[0]
    inner = [l for l in loops_around(mc, f.node) if isinstance(l, ast.For) and l is not outer]
    if len(inner) != 1:
        raise AnalysisError(f"{f.fq}: loop over the patterns not recognised")
    pvar = dotted(inner[0].target)
    ok = [dotted(a) for a in mc.args] == [pvar, mvar] and not any(isinstance(x, (ast.Break, ast.Continue)) for x in ast.walk(outer))
    res.add("C11.R2", repo.key(f, stmt_of(mc)) + " [pattern x module]", ok, "test is (pattern, module name) for every pair" if ok else f"the pattern test is `{norm(mc)}` or the pair loop can skip pairs", where(f, mc), kind="structural")
    # the patterns iterated are the identifiers of all regex filters
    psrc = dotted(inner[0].iter)
    assigns = [s for s in own_nodes(f.node) if isinstance(s, (ast.Assign, ast.AugAssign)) and any(dotted(t) == psrc for t in (s.targets if isinstance(s, ast.Assign) else [s.target]))]
    ok = len(assigns) == 1 and "identifier" in norm(assigns[0].value) and not any(isinstance(g, ast.comprehension) and g.ifs for g in ast.walk(assigns[0].value))
    res.add("C11.R2", f"{f.relpath}::{f.qualname}::patterns = all regex filters", ok, "every regex filter takes part in the scan" if ok else f"`{psrc}` is (re)assigned {len(assigns)} times / filtered: some regex filters are resolved outside the pattern test", where(f, inner[0]), kind="structural")
    # accumulators: only changed under the match test
    H = truth(f, mc)
    rets = [s for s in own_nodes(f.node) if isinstance(s, ast.Return) and s.value is not None]
    if len(rets) != 1 or not isinstance(rets[0].value, ast.Tuple):
        raise AnalysisError(f"{f.fq}: expected a single `return converted, mapping`")
    ret_names = {n.id for n in ast.walk(rets[0].value) if isinstance(n, ast.Name)}
    acc = set()
    for s in own_nodes(f.node):
        if isinstance(s, ast.Assign) and isinstance(s.targets[0], ast.Name) and s.targets[0].id in ret_names:
            acc |= {n.id for n in ast.walk(s.value) if isinstance(n, ast.Name)} | {s.targets[0].id}
    raise_stmts = [s for s in own_nodes(f.node) if isinstance(s, ast.Raise)]
    never = None
    for r in raise_stmts:
        cs_ = conds(f, r)
        if len(cs_) == 1 and cs_[0][1] and isinstance(cs_[0][0], ast.Name):
            never = cs_[0][0].id
    n = 0
    for c in calls_in(f.node):
        if isinstance(c.func, ast.Attribute) and c.func.attr in ("add", "append", "update", "extend", "remove", "discard", "pop", "clear"):
            base = c.func.value
            while isinstance(base, ast.Subscript):
                base = base.value
            b = dotted(base)
            if b in acc or b == never:
                if b not in ("converted_module_filters", never) and b not in ret_names and not any(b == x for x in acc):
                    continue
                n += 1
                g = guard_formula(f, c)
                ok = implies(g, H)
                res.add("C11.R2", repo.key(f, stmt_of(c)), ok, "changed only for a (pattern, module) pair that matches" if ok else f"`{norm(c, 80)}` is executed without the pattern test having matched: a regex resolves to modules by another criterion than `re.match(pattern, name)`", where(f, c), kind="dominance")
    res.floor("C11.R2.acc", 3, n)
    # ModuleNameFilter built from the matched module
    ctor = [c for c in ast.walk(outer) if isinstance(c, ast.Call) and dotted(c.func) == "ModuleNameFilter"]
    ok = len(ctor) == 1 and ((ctor[0].keywords and dotted(ctor[0].keywords[0].value) == mvar) or (ctor[0].args and dotted(ctor[0].args[0]) == mvar))
    res.add("C11.R2", f"{f.relpath}::{f.qualname}::name filter of the matched module", ok, "a matching module m contributes ModuleNameFilter(name=m)" if ok else "the filter built for a match is not the name filter of the matched module", where(f, ctor[0] if ctor else f.node), kind="structural")
    # never-matched raises before returning
    ok = never is not None and len(raise_stmts) == 1 and cfg_of(f).dominates(_if_of(raise_stmts[0]), rets[0]) and "ImpossibleMatch" in norm(raise_stmts[0])
    res.add("C11.R2", f"{f.relpath}::{f.qualname}::no-match raises", ok, "a regex that matched nothing raises ImpossibleMatch before any result is returned" if ok else "a regex matching nothing does not raise before the conversion result is returned", where(f, f.node), kind="dominance")
    if never is not None:
        init = [s for s in own_nodes(f.node) if isinstance(s, ast.Assign) and dotted(s.targets[0]) == never]
        ok = len(init) == 1 and "identifier" in norm(init[0].value) and not any(isinstance(g, ast.comprehension) and g.ifs for g in ast.walk(init[0].value))
        res.add("C11.R2", f"{f.relpath}::{f.qualname}::never-matched starts with all patterns", ok, "the unmatched set starts with every regex filter" if ok else "the unmatched set does not start with all regex filters", where(f, f.node), kind="structural")
    # result = converted + unchanged others
    txt = norm(rets[0].value.elts[0]) if isinstance(rets[0].value.elts[0], ast.Name) else ""
    src = [s for s in own_nodes(f.node) if isinstance(s, ast.Assign) and dotted(s.targets[0]) == txt]
    ok = len(src) == 1 and isinstance(src[0].value, ast.BinOp) and "other_modules" in norm(src[0].value) and "converted_module_filters" in norm(src[0].value)
    res.add("C11.R2", f"{f.relpath}::{f.qualname}::result = converted + others", ok, "result is the converted filters plus the non-regex filters unchanged" if ok else "the conversion result is not `converted + other filters`", where(f, rets[0]), kind="structural")
    # the test itself
    nm = conv.methods.get("_name_matches_pattern")
    if nm is None:
        raise AnalysisError("ModuleNameConverter._name_matches_pattern not found")
    res_calls = [repo.resolve_name(nm.module, c.func) for c in calls_in(nm.node)]
    ok = "re.match" in res_calls and "re.fullmatch" not in res_calls and "re.search" not in res_calls
    flags = [c for c in calls_in(nm.node) if repo.resolve_name(nm.module, c.func) in ("re.match", "re.compile") and (len(c.args) > 2 or (repo.resolve_name(nm.module, c.func) == "re.compile" and len(c.args) > 1) or c.keywords)]
    res.add("C11.R2", f"{nm.relpath}::{nm.qualname}::re.match", ok and not flags, "a module matches when re.match(pattern, name) succeeds (start-anchored, no flags)" if ok and not flags else f"the pattern test uses {[r for r in res_calls if r and r.startswith('re.')]}{' with flags' if flags else ''} instead of re.match(pattern, name)", where(nm, nm.node), kind="structural")


def _if_of(stmt: ast.AST) -> ast.AST:
    p = parent(stmt)
    return p if isinstance(p, ast.If) else stmt


# --------------------------------------------------------------------------------------------------------------- C11.R3

PARTIAL = "pytestarch.utils.partial_match_to_regex_converter"


def _ctor_class(fn: Fn, call: ast.AST) -> str:
    """Fully qualified name of the repo class a call expression constructs ('' if it is not a constructor call)."""
    if not isinstance(call, ast.Call):
        return ""
    t = fn.type_of(call.func)
    for m in (t[1] if t[0] == "union" else [t]):
        if m[0] == "type":
            return m[1]
    return ""


def _ctor_arg(fn: Fn, call: ast.Call, field_name: str) -> ast.AST | None:
    """The argument a dataclass-style constructor call gives to `field_name` (keyword, or positional by field order)."""
    for k in call.keywords:
        if k.arg == field_name:
            return k.value
    ci = fn.repo.classes.get(_ctor_class(fn, call))
    if ci is None:
        return None
    init = fn.repo.lookup_method(ci, "__init__")
    if init is not None:
        names = init.param_names[1:]
    else:
        names = [a for c in reversed(fn.repo.mro(ci)) for a in c.ann_attrs]
    if field_name in names and names.index(field_name) < len(call.args):
        return call.args[names.index(field_name)]
    return None


def _self_sinks(view: FuncInfo) -> list[tuple[ast.AST, ast.AST]]:
    """(statement, stored value) for every store into state reachable from `self`."""
    out = []
    for n in own_nodes(view.node):
        if isinstance(n, ast.Assign):
            for t in n.targets:
                if isinstance(t, (ast.Attribute, ast.Subscript)) and any(isinstance(x, ast.Name) and x.id == "self" for x in ast.walk(t)):
                    out.append((n, n.value))
        elif isinstance(n, ast.Call):
            if isinstance(n.func, ast.Name) and n.func.id == "setattr" and len(n.args) == 3 and any(isinstance(x, ast.Name) and x.id == "self" for x in ast.walk(n.args[0])):
                out.append((n, n.args[2]))
            elif isinstance(n.func, ast.Attribute) and n.func.attr in ("extend", "append", "update", "add") and n.args and any(isinstance(x, ast.Name) and x.id == "self" for x in ast.walk(n.func.value)):
                out.append((n, n.args[0]))
    return out


def run_r3(repo: Repo, res: Result) -> None:
    T = types_of(repo)
    rule = repo.cls(RULE, "Rule")
    m = rule.methods.get("have_name_containing")
    if m is None:
        res.observe("Rule.have_name_containing no longer exists (deprecated form removed): C11.R3 not applicable")
        return
    view = inline_view(repo, m, T)
    fn = Fn(repo, view)
    co = Collections(fn)
    param = view.param_names[1]
    key = f"{m.relpath}::{m.qualname}::partial name -> regex filter"
    relevant: list[tuple[ast.AST, list]] = []
    unknown: list[str] = []
    for stmt, value in _self_sinks(view):
        d = co.normalise(co.describe(value))
        mine = [c for c in d.contribs if any(b.root and dotted(b.source) == param for b in c.binders) or (not c.binders and c.elt is not None and param in names_loaded(c.elt))]
        if mine:
            relevant.append((stmt, d.contribs))
            unknown += d.unknown
            for r_ in d.removals:
                unknown.append(f"elements are removed (`{norm(r_.node, 60)}`)")
    if not relevant:
        res.undecide("C11.R3", key, f"no store of filters built from `{param}` into the rule's state was recognised", where(view, view.node))
        return
    if unknown:
        res.undecide("C11.R3", key, "the list of filters is not recognised: " + "; ".join(unknown[:2]), where(view, view.node))
        return
    bad: list[str] = []
    dropped: list[str] = []
    for stmt, contribs in relevant:
        for c in contribs:
            if len(c.binders) > 1 or (c.binders and not (c.binders[0].root and dotted(c.binders[0].source) == param)):
                bad.append(f"`{norm(stmt, 70)}` stores filters that are not built from the elements of `{param}` alone")
                continue
            if c.binders and len(c.binders[0].names) != 1:
                bad.append(f"`{norm(stmt, 70)}`: elements of `{param}` are unpacked")
                continue
            var = c.binders[0].names[0] if c.binders else param
            for e, pol in c.conds:
                if not c.binders and isinstance(e, ast.Call) and isinstance(e.func, ast.Name) and e.func.id == "isinstance":
                    continue
                dropped.append(f"a filter is only created if `{'' if pol else 'not '}{show(e)}`")
            elt = c.elt
            ok = _ctor_class(fn, elt).endswith(".ModuleNameRegexFilter")
            if ok:
                arg = _ctor_arg(fn, elt, "name")
                callee = fn.callee(arg) if isinstance(arg, ast.Call) else None
                ok = callee is not None and callee.module.name == PARTIAL and callee.name == "convert_partial_match_to_regex" and len(arg.args) + len(arg.keywords) == 1 and dotted([*arg.args, *[k.value for k in arg.keywords]][0]) == var
            if not ok:
                bad.append(f"an element `{var}` of `{param}` becomes `{show(elt)}`, not ModuleNameRegexFilter(name=convert_partial_match_to_regex({var}))")
    res.add("C11.R3", key, not bad, "each partial name becomes ModuleNameRegexFilter(convert_partial_match_to_regex(name))" if not bad else bad[0] + ": the partial-name form is not the regex filter of its translation", where(view, view.node), kind="flow")
    # every given name yields a filter, and the list reaches the rule's configuration on every path
    from core.guards import f_or

    first = next((c for _, cs in relevant for c in cs if c.node is not None and parent(c.node) is not None), None)
    ctx = guard_formula(view, stmt_of(first.node)) if first is not None else None
    stored = f_or([guard_formula(view, stmt) for stmt, _ in relevant])
    if ctx is not None and not implies(ctx, stored):
        dropped.append("the list of filters is not stored on every path")
    res.add("C11.R3", f"{m.relpath}::{m.qualname}::one filter per name", not dropped, "every given name yields exactly one filter, which is stored in the rule" if not dropped else dropped[0] + ": not every given name yields a filter", where(view, view.node), kind="structural")


# --------------------------------------------------------------------------------------------------------------- C11.R4


def _allow_r4(caller: FuncInfo, callee: FuncInfo) -> bool:
    # the searches themselves stay calls: they are what the rule looks for
    return callee.module.name != SEARCHES


def _queries(repo: Repo) -> list[FuncInfo]:
    """Non-abstract implementations of the three public graph queries of EvaluableArchitecture."""
    base = repo.cls(EVAL_ARCH, "EvaluableArchitecture")
    out: list[FuncInfo] = []
    for name in (EXPLICIT_QUERY, *OTHER_QUERIES):
        impls = [m for m in repo.implementations(base, name) if not _is_stub(m)]
        if not impls:
            raise AnalysisError(f"no implementation of the public query EvaluableArchitecture.{name} found")
        out += impls
    return out


def _is_stub(m: FuncInfo) -> bool:
    """Abstract method / protocol member: nothing but a docstring, `pass`, `...` or `raise NotImplementedError`."""
    if m.is_abstract:
        return True
    for s in m.node.body:
        if isinstance(s, ast.Pass) or (isinstance(s, ast.Expr) and isinstance(s.value, ast.Constant)):
            continue
        if isinstance(s, ast.Raise) and s.exc is not None and "NotImplementedError" in norm(s.exc):
            continue
        return False
    return True


def _strip_copies(e: ast.AST) -> ast.AST:
    while isinstance(e, ast.Call) and isinstance(e.func, ast.Name) and e.func.id in ("list", "tuple", "sorted", "set", "frozenset") and len(e.args) == 1:
        e = e.args[0]
    return e


def _value_candidates(fn: Fn, v: ast.AST) -> list[ast.AST]:
    """The expressions a stored value may stand for: a local with several definitions yields one candidate per definition."""
    ctx, orig = fn.ctx_of(v)
    if isinstance(v, ast.Name) and ctx is fn.fi and isinstance(orig, ast.Name) and parent(orig) is not None:
        defs = fn.reaching(orig.id, orig)
        if len(defs) > 1 and all(d.kind == "assign" and d.value is not None for d in defs):
            return [fn.expand(d.value) for d in defs]
    return [v]


def _carried(fn: Fn, co: Collections, loop: ast.For, acc: set[str]) -> set[str]:
    """State that survives from one iteration of `loop` to a later one: re-bound names read before they are bound again,
    containers changed in place in the body and read there, and any read of the result container itself."""
    targets = {n.id for n in ast.walk(loop.target) if isinstance(n, ast.Name)}
    inside = {id(n) for st in loop.body for n in ast.walk(st)}
    changed = assigned_names(loop.body)
    for name, evs in co.events().items():
        if any(id(ev[2]) in inside for ev in evs):
            changed.add(name)
    exposed = upward_exposed(loop.body, targets)
    out = (exposed & changed) - targets - acc
    # the result container may only be written (under its own key), never read
    for st in loop.body:
        for n in ast.walk(st):
            if isinstance(n, ast.Name) and n.id in acc and isinstance(n.ctx, ast.Load):
                p = parent(n)
                if isinstance(p, ast.Subscript) and isinstance(p.ctx, ast.Store) and p.value is n:
                    continue
                if isinstance(p, ast.Attribute) and p.attr in ("setdefault", "update") and isinstance(parent(p), ast.Call):
                    continue
                out.add(n.id)
    return out


def run_r4(repo: Repo, res: Result) -> None:
    T = types_of(repo)
    n = 0
    for m in _queries(repo):
        view = inline_view(repo, m, T, allow=_allow_r4)
        fn = Fn(repo, view)
        co = Collections(fn)
        params = [p for p in view.param_names[1:]]
        rets = [s for s in own_nodes(view.node) if isinstance(s, ast.Return) and s.value is not None]
        if not rets:
            raise AnalysisError(f"{m.fq}: returns nothing")
        contribs, removals, unknown = [], [], []
        accs: set[str] = set()
        for r in rets:
            if isinstance(r.value, ast.Name):
                accs.add(r.value.id)
            d = co.normalise(co.describe(r.value))
            contribs += d.contribs
            removals += d.removals
            unknown += d.unknown
        anchor = rets[0]
        loops = []
        for c in contribs:
            for b in c.binders:
                if isinstance(b.loop, (ast.For, ast.AsyncFor)) and b.loop not in loops:
                    loops.append(b.loop)
        key_node = loops[0] if loops else (contribs[0].node if contribs and contribs[0].node is not None else anchor)
        base_key = repo.key(view, key_node)
        if unknown or not contribs:
            res.undecide("C11.R4", base_key, "the construction of the query result is not recognised: " + ("; ".join(unknown[:2]) or "no entry is ever stored"), where(view, key_node))
            continue
        # ---- all keys: one entry per element of the given module collections, nothing filtered
        bad: list[str] = []
        key_params: list[str] = []
        for c in contribs:
            for b in c.binders:
                src = dotted(b.source)
                if not b.root or src not in params:
                    bad.append(f"the entries range over `{norm(b.source, 60)}`, which is not one of the given module collections")
                elif src not in key_params:
                    key_params.append(src)
            if not c.binders:
                bad.append(f"`{norm(c.node, 60)}` stores a single fixed entry")
            for e, pol in c.source_conds:
                bad.append(f"the keys are filtered by `{'' if pol else 'not '}{norm(e, 90)}`")
        for r_ in removals:
            bad.append(f"entries are removed again (`{norm(r_.node, 60)}`)")
        n += 1
        res.add(
            "C11.R4",
            base_key + " [all keys]",
            not bad,
            f"one entry per element of {key_params} (duplicates removed only)" if not bad else bad[0] + ": a subject/object of the batch gets no judgement of its own",
            where(view, key_node),
            kind="structural",
        )
        # ---- independent searches: the value of a key is a search over the graph, the key and whole given collections only
        bad = []
        for c in contribs:
            bnames = {x for b in c.binders for x in b.names}
            if c.value is None:
                bad.append(f"`{norm(c.node, 60)}` does not store a search result under a key")
                continue
            for cand in _value_candidates(fn, c.value):
                call = _strip_copies(cand)
                searches_in = [x for x in ast.walk(cand) if isinstance(x, ast.Call) and (lambda cs: bool(cs) and all(f.module.name == SEARCHES for f in cs))(fn.callees(x)[0])]
                if not searches_in:
                    bad.append(f"the value `{norm(cand, 80)}` stored for a key is not computed by a graph search for that key (it is derived from other state)")
                    continue
                if call is not searches_in[0] or len(searches_in) != 1:
                    others = sorted({x.id for x in ast.walk(cand) if isinstance(x, ast.Name) and x.id in fn.mutated} - bnames)
                    bad.append(f"the search result is post-processed (`{norm(cand, 80)}`)" + (f" using `{', '.join(others)}`" if others else ""))
                    continue
                for a in [*call.args, *[k.value for k in call.keywords]]:
                    if isinstance(a, ast.Name) and a.id in bnames:
                        continue
                    if isinstance(a, ast.Attribute) and dotted(a).startswith("self.") and _is_graph(fn, a):
                        continue
                    ctx, orig = fn.ctx_of(a)
                    whole = False
                    if ctx is fn.fi and parent(orig) is not None:
                        da = co.normalise(co.describe(orig))
                        whole = not da.unknown and not da.removals and len(da.contribs) == 1 and not da.contribs[0].conds and len(da.contribs[0].binders) == 1 and da.contribs[0].binders[0].root and dotted(da.contribs[0].binders[0].source) in params and isinstance(da.contribs[0].elt, ast.Name) and da.contribs[0].elt.id in da.contribs[0].binders[0].names
                    if not whole:
                        bad.append(f"the search also receives `{norm(a, 60)}`")
        n += 1
        res.add(
            "C11.R4",
            base_key + " [independent searches]",
            not bad,
            "each search receives only the graph, its own key and the whole opposite set" if not bad else bad[0] + ": state is shared between the searches of one batch, so a batched rule is no longer the conjunction of the single rules",
            where(view, key_node),
            kind="flow",
        )
        # ---- no state carried from one key to the next
        carried: set[str] = set()
        for lp in loops:
            carried |= _carried(fn, co, lp, accs)
        n += 1
        res.add("C11.R4", base_key + " [no loop-carried state]", not carried, "no variable carries a value from one key to the next" if not carried else f"variable(s) {sorted(carried)} carry values between the iterations for different keys", where(view, key_node), kind="flow")
        # ---- result per key
        bad = []
        for c in contribs:
            bnames = {x for b in c.binders for x in b.names}
            missing = sorted(bnames - names_loaded(c.elt)) if c.elt is not None else sorted(bnames)
            if missing:
                bad.append(f"the key `{norm(c.elt, 60) if c.elt is not None else '?'}` does not identify `{', '.join(missing)}`")
            for e, pol in c.own_conds:
                bad.append(f"the entry is stored only if `{'' if pol else 'not '}{norm(e, 80)}`")
        n += 1
        res.add("C11.R4", base_key + " [result per key]", not bad, "the result is stored under the key of the iteration, unconditionally" if not bad else bad[0] + ": the result of a search is not stored under its own key for every key", where(view, key_node), kind="structural")
    res.floor("C11.R4", 12, n)


def _is_graph(fn: Fn, a: ast.AST) -> bool:
    t = fn.type_of(a)
    for mm in (t[1] if t[0] == "union" else [t]):
        if mm[0] == "cls":
            ci = fn.repo.classes.get(mm[1])
            if ci is not None and any(c.name == "AbstractGraph" for c in fn.repo.mro(ci)):
                return True
    return False


def run(repo: Repo) -> Result:
    res = Result("C11")
    res.explanation = (
        "Relational argument over the code: a compact rule (regex / partial name / batch) and its expansion drive the same pipeline with the "
        "same arguments. (R1) the regex conversion unconditionally dominates every query and everything downstream reads the converted "
        "requirement; (R2) a regex contributes exactly the name filters of all modules for which re.match(pattern, name) succeeds, accumulators "
        "change only under that test, and an unmatched regex raises before a result exists; (R3) partial names become the regex filter of their "
        "translation; (R4) the three queries run one independent search per key over the full (de-duplicated) key set and store it under that "
        "key, so a batch is the conjunction of the single rules. Together with purity (C15) identical inputs give identical verdicts."
    )
    res.not_decided = "regexes matching a module and its sub modules (documented caveat); equality of verdicts is argued from identical pipelines, not observed."
    res.trusted_base = ["re.match semantics", "C15 (evaluation is a function of its arguments)", "engine CFG/guards"]
    run_r1(repo, res)
    run_r2(repo, res)
    run_r3(repo, res)
    run_r4(repo, res)
    return res
