"""C11 - regex, partial-name and batched specifications equal their expansions (relational, by construction).

  C11.R1  the regex -> names conversion dominates every graph query; queries, detectors and message generators read the converted
          requirement, never the raw one; both sides are converted
  C11.R2  a regex contributes exactly {ModuleNameFilter(m) : m in arch.modules, re.match(pattern, m)}; ImpossibleMatch precedes a verdict
  C11.R3  the deprecated partial-name form is ModuleNameRegexFilter(convert_partial_match_to_regex(name)) per element
  C11.R4  batch = conjunction: per (subject, object) pair resp. per subject computations are independent (no shared state, no dropped key)
"""

from __future__ import annotations

import ast
from dataclasses import dataclass

from core.guards import atom, atoms_of, f_not, implies
from core.loader import AnalysisError, FuncInfo, Repo, ancestors, calls_in, header, norm, own_nodes, parent
from core.report import Result

from core.inline_stmt import inline_view

from .c11_coll import Collections
from .c11_lib import Fn, names_loaded, show
from .common import assigned_names, cfg_of, conds, dotted, guard_formula, truth, is_attr_call, loop_carried, loops_around, stmt_of, types_of, upward_exposed, where
from .tables import EVAL_GRAPH, EXPLICIT_QUERY, MATCHER, OTHER_QUERIES, RULE, SEARCHES

EVAL_ARCH = "pytestarch.eval_structure.evaluable_architecture"

CONVERTER = "pytestarch.eval_structure.module_name_converter"


def run_r1(repo: Repo, res: Result) -> None:
    T = types_of(repo)
    matcher = repo.cls(MATCHER, "RuleMatcher")
    match = matcher.methods.get("match")
    if match is None:
        raise AnalysisError("RuleMatcher.match not found")
    conv_calls = [c for c in calls_in(match.node) if is_attr_call(c, "_updated_module_requirements")]
    find_calls = [c for c in calls_in(match.node) if is_attr_call(c, "_find_rule_violations")]
    ok = len(conv_calls) == 1 and len(find_calls) == 1 and cfg_of(match).dominates(stmt_of(conv_calls[0]), stmt_of(find_calls[0])) and not conds(match, conv_calls[0])
    res.add("C11.R1", f"{match.relpath}::{match.qualname}::conversion dominates evaluation", ok, "regexes are converted to module names before any graph query, unconditionally" if ok else "the regex conversion does not unconditionally precede the evaluation of the rule (a stale or missing conversion is evaluated)", where(match, match.node), kind="dominance")
    upd = matcher.methods.get("_updated_module_requirements")
    if upd is None:
        raise AnalysisError("RuleMatcher._updated_module_requirements not found")
    convs = [c for c in calls_in(upd.node) if is_attr_call(c, "convert")]
    sides = sorted(norm(c.args[0]).split(".")[-1] for c in convs if c.args)
    ok = sides == ["importees_as_specified_by_user", "importers_as_specified_by_user"] and all(not conds(upd, c) for c in convs) and all(len(c.args) == 2 and dotted(c.args[1]) == upd.param_names[1] for c in convs)
    res.add("C11.R1", f"{upd.relpath}::{upd.qualname}::both sides converted", ok, "importers and importees are both converted against the evaluable being checked" if ok else f"conversion covers {sides} (conditions: {[norm(e) for c in convs for e, _ in conds(upd, c)]}): a side keeps its regex or is converted against another architecture", where(upd, upd.node), kind="structural")
    early = [s for s in own_nodes(upd.node) if isinstance(s, ast.Return)]
    res.add("C11.R1", f"{upd.relpath}::{upd.qualname}::no early return", not early, "conversion runs to completion on every call" if not early else f"`{header(early[0])}` skips the conversion (e.g. when a previous evaluation already converted)", where(upd, upd.node), kind="structural")
    # raw requirement must not be read outside the conversion
    n = 0
    for cls in [matcher, *repo.subclasses(matcher)]:
        for m in cls.methods.values():
            if m.name in ("__init__",) or m is upd:
                continue
            for node in own_nodes(m.node):
                if isinstance(node, ast.Attribute) and node.attr == "_module_requirement" and isinstance(node.ctx, ast.Load):
                    n += 1
                    res.add("C11.R1", repo.key(m, stmt_of(node)) + " [raw requirement]", False, f"{m.qualname} reads the un-converted requirement `{norm(parent(node))}`: regex filters reach a graph query / detector / message generator", where(m, node), kind="flow")
                if isinstance(node, ast.Attribute) and node.attr == "_updated_module_requirement" and isinstance(node.ctx, ast.Load):
                    n += 1
                    res.add("C11.R1", repo.key(m, stmt_of(node)) + f" [{norm(parent(node), 80)}]", True, "reads the converted requirement", where(m, node), kind="flow")
    res.floor("C11.R1", 6, n)


# --------------------------------------------------------------------------------------------------------------- C11.R2


def _allow_r2(caller: FuncInfo, callee: FuncInfo) -> bool:
    # the graph searches called for their side effects only (sub modules of a match) are not part of the conversion
    return callee.module.name != SEARCHES


def flatten(conds: list) -> list[tuple[ast.AST, bool]]:
    """Conjunction of conditions as a list of literals: `a and b` / `not (a or b)` / `not x` / `bool(x)` are taken apart."""
    out: list[tuple[ast.AST, bool]] = []
    work = list(conds)
    while work:
        e, pol = work.pop(0)
        if isinstance(e, ast.UnaryOp) and isinstance(e.op, ast.Not):
            work.insert(0, (e.operand, not pol))
        elif isinstance(e, ast.BoolOp) and ((isinstance(e.op, ast.And) and pol) or (isinstance(e.op, ast.Or) and not pol)):
            work = [(v, pol) for v in e.values] + work
        elif isinstance(e, ast.Call) and isinstance(e.func, ast.Name) and e.func.id == "bool" and len(e.args) == 1:
            work.insert(0, (e.args[0], pol))
        elif isinstance(e, ast.Compare) and len(e.ops) == 1 and isinstance(e.ops[0], (ast.IsNot, ast.NotIn, ast.NotEq)):
            op = {ast.IsNot: ast.Is, ast.NotIn: ast.In, ast.NotEq: ast.Eq}[type(e.ops[0])]()
            ne = ast.Compare(left=e.left, ops=[op], comparators=e.comparators)
            out.append((ne, not pol))
        elif isinstance(e, ast.Constant) and bool(e.value) is pol:
            continue
        else:
            out.append((e, pol))
    return out


@dataclass
class RegexTest:
    kind: str  # match | fullmatch | search | ...
    pattern: ast.AST | None
    subject: ast.AST | None
    flags: bool
    call: ast.AST


def regex_test(fn: Fn, e: ast.AST) -> RegexTest | None:
    """`re.match(p, s)`, `re.compile(p).match(s)` (and the fullmatch / search variants) inside the expression `e`."""
    for c in ast.walk(e):
        if not isinstance(c, ast.Call):
            continue
        name = fn.lib_name(c.func) if isinstance(c.func, (ast.Name, ast.Attribute)) else ""
        if name in ("re.match", "re.fullmatch", "re.search"):
            pat = c.args[0] if c.args else next((k.value for k in c.keywords if k.arg == "pattern"), None)
            sub = c.args[1] if len(c.args) > 1 else next((k.value for k in c.keywords if k.arg == "string"), None)
            flags = len(c.args) > 2 or any(k.arg == "flags" for k in c.keywords)
            if isinstance(pat, ast.Call) and fn.lib_name(pat.func) == "re.compile":
                flags = flags or len(pat.args) > 1 or bool(pat.keywords)
                pat = pat.args[0] if pat.args else None
            return RegexTest(name.split(".")[1], pat, sub, flags, c)
        if isinstance(c.func, ast.Attribute) and c.func.attr in ("match", "fullmatch", "search") and isinstance(c.func.value, ast.Call) and fn.lib_name(c.func.value.func) == "re.compile":
            comp = c.func.value
            flags = len(comp.args) > 1 or bool(comp.keywords) or len(c.args) > 1 or bool(c.keywords)
            return RegexTest(c.func.attr, comp.args[0] if comp.args else None, c.args[0] if c.args else None, flags, c)
    return None


def _success_polarity(lit: ast.AST, call: ast.AST) -> bool | None:
    """Polarity of the literal `lit` under which the match object `call` exists: `m` -> True, `m is None` -> False."""
    if lit is call:
        return True
    if isinstance(lit, ast.Compare) and len(lit.ops) == 1 and lit.left is call and isinstance(lit.ops[0], (ast.Is, ast.Eq)) and isinstance(lit.comparators[0], ast.Constant) and lit.comparators[0].value is None:
        return False
    return None


def _is_regex_flag(lit: ast.AST, var: str) -> bool:
    if isinstance(lit, ast.Attribute) and lit.attr == "identifier_is_regex" and isinstance(lit.value, ast.Name) and lit.value.id == var:
        return True
    if isinstance(lit, ast.Call) and isinstance(lit.func, ast.Name) and lit.func.id == "isinstance" and len(lit.args) == 2 and isinstance(lit.args[0], ast.Name) and lit.args[0].id == var and "ModuleNameRegexFilter" in norm(lit.args[1]):
        return True
    return False


def _is_identifier_of(e: ast.AST | None, var: str) -> bool:
    return isinstance(e, ast.Attribute) and e.attr in ("identifier", "name") and isinstance(e.value, ast.Name) and e.value.id == var


@dataclass
class Matched:
    ok: bool
    why: str = ""
    subject: str = ""
    pattern: str = ""


def matched_pair(fn: Fn, c, modules_param: str, arch_param: str, membership_of: str | None = None) -> Matched:
    """Is the contribution made exactly once for every pair (regex filter f of `modules`, module m of `arch.modules`) with
    re.match(f.identifier, m)?  `membership_of`: a literal `f.identifier in <that name>` is tolerated (remove idiom)."""
    subj = [b for b in c.binders if b.root and isinstance(b.source, ast.Attribute) and b.source.attr == "modules" and dotted(b.source.value) == arch_param and len(b.names) == 1]
    pats = [b for b in c.binders if b.root and dotted(b.source) == modules_param and len(b.names) == 1]
    if len(c.binders) != 2 or len(subj) != 1 or len(pats) != 1:
        rng = ", ".join(f"{norm(b.target)} in {show(b.source, 50)}" for b in c.binders) or "nothing"
        return Matched(False, f"it ranges over ({rng}) instead of every (module of `{arch_param}.modules`, filter of `{modules_param}`) pair")
    sv, pv = subj[0].names[0], pats[0].names[0]
    lits = flatten(c.conds)
    flag = test = False
    for lit, pol in lits:
        if _is_regex_flag(lit, pv):
            if not pol:
                return Matched(False, "it is made for filters that are *not* regex filters")
            flag = True
            continue
        rt = regex_test(fn, lit)
        if rt is not None:
            succ = _success_polarity(lit, rt.call)
            if succ is None:
                return Matched(False, f"the use of the match result in `{show(lit)}` is not recognised")
            if succ != pol:
                return Matched(False, f"it is made when the pattern test `{show(rt.call)}` *fails*")
            if rt.kind != "match" or rt.flags:
                return Matched(False, f"the pattern test uses re.{rt.kind}{' with flags' if rt.flags else ''} instead of re.match(pattern, name)")
            if not _is_identifier_of(rt.pattern, pv) or not (isinstance(rt.subject, ast.Name) and rt.subject.id == sv):
                return Matched(False, f"the pattern test is `{show(rt.call)}`, not re.match(<regex filter>.identifier, <module name>)")
            test = True
            continue
        if membership_of is not None and pol and isinstance(lit, ast.Compare) and isinstance(lit.ops[0], ast.In) and _is_identifier_of(lit.left, pv) and dotted(lit.comparators[0]) == membership_of:
            continue
        return Matched(False, f"it additionally depends on `{'' if pol else 'not '}{show(lit)}`")
    if not test:
        return Matched(False, "it does not depend on the pattern test re.match(pattern, name)")
    if not flag:
        return Matched(False, "it is also made for filters that are not regex filters (their names are used as patterns)")
    return Matched(True, "", sv, pv)


def _tuple_parts(fn: Fn, e: ast.AST) -> list[ast.AST] | None:
    if isinstance(e, ast.Tuple):
        return list(e.elts)
    if isinstance(e, ast.Name):
        defs = fn.reaching(e.id, e)
        if len(defs) == 1 and defs[0].kind == "assign" and isinstance(defs[0].value, ast.Tuple):
            return list(defs[0].value.elts)
    return None


def run_r2(repo: Repo, res: Result) -> None:
    T = types_of(repo)
    conv = repo.cls(CONVERTER, "ModuleNameConverter")
    f = conv.methods.get("convert")
    if f is None:
        raise AnalysisError("ModuleNameConverter.convert not found")
    view = inline_view(repo, f, T, allow=_allow_r2)
    fn = Fn(repo, view)
    co = Collections(fn)
    off = 0 if f.is_staticmethod else 1
    modules_p, arch_p = view.param_names[off], view.param_names[off + 1]
    base = f"{f.relpath}::{f.qualname}::"
    rets = [s for s in own_nodes(view.node) if isinstance(s, ast.Return) and s.value is not None]
    parts = _tuple_parts(fn, rets[0].value) if len(rets) == 1 else None
    if parts is None or len(parts) != 2:
        res.undecide("C11.R2", base + "result", "expected a single `return <filters>, <mapping>`", where(view, rets[0] if rets else view.node))
        return
    ret = rets[0]
    d = co.normalise(co.describe(parts[0]))
    if d.unknown:
        res.undecide("C11.R2", base + "result", "the list of converted filters is not recognised: " + "; ".join(d.unknown[:2]), where(view, ret))
        return
    # ---- every element of the result is either the name filter of a matched (regex, module) pair or an unchanged non-regex filter
    k1, k2, bad = [], [], []
    for c in d.contribs:
        cls_ = _ctor_class(fn, c.elt) if c.elt is not None else ""
        if cls_.endswith(".ModuleNameFilter"):
            k1.append(c)
        elif isinstance(c.elt, ast.Name) and len(c.binders) == 1 and c.binders[0].root and dotted(c.binders[0].source) == modules_p and c.elt.id in c.binders[0].names:
            k2.append(c)
        else:
            bad.append(f"the result also holds `{c.text()[:110]}`")
    for r_ in d.removals:
        bad.append(f"elements are taken out of the result again (`{show(r_.node, 70)}`)")
    n1 = 0
    scan_loops: list[ast.AST] = []
    for c in k1:
        m = matched_pair(fn, c, modules_p, arch_p)
        key = repo.key(view, stmt_of(c.node)) + " [pattern x module]" if c.node is not None and parent(c.node) is not None else base + "name filter of a match"
        ok = m.ok
        why = m.why
        if ok:
            arg = _ctor_arg(fn, c.elt, "name")
            if not (isinstance(arg, ast.Name) and arg.id == m.subject):
                ok, why = False, f"the filter built for a match is `{show(c.elt)}`, not the name filter of the matched module `{m.subject}`"
            for b in c.binders:
                if isinstance(b.loop, (ast.For, ast.AsyncFor)) and b.loop not in scan_loops:
                    scan_loops.append(b.loop)
        n1 += 1
        res.add("C11.R2", key, ok, "a name filter is added exactly for the pairs (regex filter, module) with re.match(pattern, module name)" if ok else f"`{show(c.node, 70)}`: {why}: a regex no longer stands for exactly the modules re.match(pattern, name) selects", where(view, c.node if c.node is not None else ret), kind="dominance")
    early = [x for lp in scan_loops for x in ast.walk(lp) if isinstance(x, (ast.Break, ast.Return))]
    res.add("C11.R2", base + "all modules scanned", bool(k1) and not early, "every module of the architecture is tested against every pattern" if k1 and not early else ("no name filter is ever added for a matching module" if not k1 else f"the scan can be left early (`{header(early[0])}`): a regex no longer stands for all modules it matches"), where(view, early[0] if early else view.node), kind="structural")
    ok2 = bool(k2)
    why2 = "the non-regex filters are not part of the result" if not k2 else ""
    for c in k2:
        lits = flatten(c.conds)
        v = c.binders[0].names[0]
        if not (len(lits) >= 1 and all(_is_regex_flag(l, v) and not pol for l, pol in lits)):
            extra = [f"{'' if pol else 'not '}{show(l)}" for l, pol in lits if not (_is_regex_flag(l, v) and not pol)]
            ok2, why2 = False, (f"filters are passed on under `{' and '.join(extra)}`" if extra else "filters are passed on whether or not they are regex filters")
    if bad:
        ok2, why2 = False, bad[0]
    res.add("C11.R2", base + "result = converted + others", ok2, "result is the converted filters plus the non-regex filters unchanged" if ok2 else f"{why2}: the conversion result is not `name filters of all matches + other filters unchanged`", where(view, ret), kind="structural")
    # ---- a regex that matches nothing raises before anything is returned
    raises = [s for s in own_nodes(view.node) if isinstance(s, ast.Raise) and s.exc is not None and _raised_class(fn, s.exc).endswith(".ImpossibleMatch")]
    ok, why = _no_match_raises(repo, view, fn, co, raises, ret, scan_loops, modules_p, arch_p)
    if ok is None:
        res.undecide("C11.R2", base + "no-match raises", why, where(view, raises[0] if raises else view.node))
    else:
        res.add("C11.R2", base + "no-match raises", ok, "a regex that matched nothing raises ImpossibleMatch before any result is returned" if ok else f"{why}: a regex matching nothing does not (only) raise ImpossibleMatch before the conversion result is returned", where(view, raises[0] if raises else view.node), kind="dominance")


def _raised_class(fn: Fn, exc: ast.AST) -> str:
    if isinstance(exc, ast.Call):
        return _ctor_class(fn, exc)
    t = fn.type_of(exc)
    for m in (t[1] if t[0] == "union" else [t]):
        if m[0] == "type":
            return m[1]
    return ""


def _pattern_image(c, modules_p: str, extra_ok=None) -> tuple[bool, list]:
    """Contribution `{f.identifier | f in modules, f is regex}`; returns (is it, remaining literals)."""
    if len(c.binders) != 1 or not c.binders[0].root or dotted(c.binders[0].source) != modules_p or len(c.binders[0].names) != 1:
        return False, []
    v = c.binders[0].names[0]
    if not _is_identifier_of(c.elt, v):
        return False, []
    rest, flag = [], False
    for lit, pol in flatten(c.conds):
        if _is_regex_flag(lit, v) and pol:
            flag = True
        else:
            rest.append((lit, pol))
    return flag, rest


def _no_match_raises(repo: Repo, view: FuncInfo, fn: Fn, co: Collections, raises: list, ret: ast.AST, scan_loops: list, modules_p: str, arch_p: str):
    if not raises:
        return False, "ImpossibleMatch is never raised"
    if len(raises) > 1:
        return None, "several `raise ImpossibleMatch` statements"
    r = raises[0]
    if any(lp in list(ancestors(r)) for lp in scan_loops):
        return None, "ImpossibleMatch is raised inside the scan"
    lits = flatten(fn.conds_all(r))
    if len(lits) != 1 or not lits[0][1]:
        return False, f"ImpossibleMatch is raised under `{' and '.join(('' if p else 'not ') + show(l) for l, p in lits) or 'no condition'}`, not exactly when the set of unmatched patterns is non-empty"
    u = lits[0][0]
    if isinstance(u, ast.Compare) and len(u.ops) == 1 and isinstance(u.ops[0], ast.Gt) and isinstance(u.left, ast.Call) and isinstance(u.left.func, ast.Name) and u.left.func.id == "len" and isinstance(u.comparators[0], ast.Constant) and u.comparators[0].value == 0:
        u = u.left.args[0]
    if not isinstance(u, ast.Name):
        return None, f"the condition `{show(u)}` of the raise is not the truthiness of a collection"
    cfg = cfg_of(view)
    guard_if = _if_of(r)
    if not cfg.dominates(guard_if, ret):
        return False, "the result can be returned without the unmatched-pattern test having been made"
    for lp in scan_loops:
        if not cfg.dominates(lp, guard_if):
            return False, "the unmatched-pattern test can be made before the scan"
    du = co.normalise(co.describe(u))
    if du.unknown:
        return None, f"`{u.id}` is not recognised: {du.unknown[0]}"
    if not du.contribs:
        return False, f"`{u.id}` never holds a pattern"
    # form A: all patterns, each taken out when (and only when) it matched
    images = [_pattern_image(c, modules_p) for c in du.contribs]
    if all(ok for ok, _ in images):
        rests = [rest for _, rest in images]
        if all(not rest for rest in rests):
            rem = du.removals
            if not rem:
                return False, f"`{u.id}` holds every pattern and none is ever taken out"
            for x in rem:
                if x.how == "difference":
                    got = _matched_keys(fn, co, x.value, modules_p, arch_p)
                    if got is not True:
                        return got
                    continue
                if x.how not in ("remove", "discard"):
                    return None, f"`{show(x.node, 60)}` on the unmatched set is not recognised"
                m = matched_pair(fn, x, modules_p, arch_p, membership_of=u.id)
                if not m.ok:
                    return False, f"a pattern is taken out of the unmatched set `{u.id}` by `{show(x.node, 60)}`, but {m.why}"
                if not _is_identifier_of(x.elt, m.pattern):
                    return False, f"`{show(x.node, 60)}` takes `{show(x.elt)}` out of the unmatched set, not the pattern that matched"
            return True, ""
        # form B: patterns without an entry in a container keyed by matched patterns
        if len(du.contribs) == 1 and len(rests[0]) == 1 and not du.removals:
            lit, pol = rests[0][0]
            v = du.contribs[0].binders[0].names[0]
            if not pol and isinstance(lit, ast.Compare) and isinstance(lit.ops[0], ast.In) and _is_identifier_of(lit.left, v):
                got = _matched_keys(fn, co, lit.comparators[0], modules_p, arch_p)
                return (True, "") if got is True else got
        return None, f"the unmatched set `{u.id}` is `{du.contribs[0].text()[:100]}` - not recognised"
    return None, f"the unmatched set `{u.id}` is `{du.contribs[0].text()[:100]}` - not recognised"


def _matched_keys(fn: Fn, co: Collections, m: ast.AST, modules_p: str, arch_p: str):
    """True if the container `m` gets an entry / element `f.identifier` exactly for the matched pairs."""
    ctx, orig = fn.ctx_of(m)
    while isinstance(orig, ast.Call) and ((isinstance(orig.func, ast.Name) and orig.func.id in ("set", "list", "frozenset", "tuple") and len(orig.args) == 1) or (isinstance(orig.func, ast.Attribute) and orig.func.attr == "keys")):
        orig = orig.args[0] if isinstance(orig.func, ast.Name) else orig.func.value
    if ctx is not fn.fi or parent(orig) is None:
        return None, f"`{show(m)}` is not recognised"
    dm = co.normalise(co.describe(orig))
    if dm.unknown or dm.removals:
        return None, f"`{show(m)}` is not recognised"
    if not dm.contribs:
        return False, f"`{show(m)}` never gets an entry"
    for c in dm.contribs:
        mm = matched_pair(fn, c, modules_p, arch_p)
        if not mm.ok:
            return False, f"`{show(c.node, 60)}` records a pattern as matched, but {mm.why}"
        if not _is_identifier_of(c.elt, mm.pattern):
            return False, f"`{show(c.node, 60)}` records `{show(c.elt)}`, not the pattern that matched"
    return True


def _if_of(stmt: ast.AST) -> ast.AST:
    p = parent(stmt)
    while isinstance(p, ast.If):
        stmt = p
        p = parent(p)
    return stmt


# --------------------------------------------------------------------------------------------------------------- C11.R3

PARTIAL = "pytestarch.utils.partial_match_to_regex_converter"


def _ctor_class(fn: Fn, call: ast.AST) -> str:
    """Fully qualified name of the repo class a call expression constructs ('' if it is not a constructor call)."""
    if not isinstance(call, ast.Call):
        return ""
    t = fn.type_of(call.func)
    for m in (t[1] if t[0] == "union" else [t]):
        if m[0] == "type":
            return m[1]
    return ""


def _ctor_arg(fn: Fn, call: ast.Call, field_name: str) -> ast.AST | None:
    """The argument a dataclass-style constructor call gives to `field_name` (keyword, or positional by field order)."""
    for k in call.keywords:
        if k.arg == field_name:
            return k.value
    ci = fn.repo.classes.get(_ctor_class(fn, call))
    if ci is None:
        return None
    init = fn.repo.lookup_method(ci, "__init__")
    if init is not None:
        names = init.param_names[1:]
    else:
        names = [a for c in reversed(fn.repo.mro(ci)) for a in c.ann_attrs]
    if field_name in names and names.index(field_name) < len(call.args):
        return call.args[names.index(field_name)]
    return None


def _self_sinks(view: FuncInfo) -> list[tuple[ast.AST, ast.AST]]:
    """(statement, stored value) for every store into state reachable from `self`."""
    out = []
    for n in own_nodes(view.node):
        if isinstance(n, ast.Assign):
            for t in n.targets:
                if isinstance(t, (ast.Attribute, ast.Subscript)) and any(isinstance(x, ast.Name) and x.id == "self" for x in ast.walk(t)):
                    out.append((n, n.value))
        elif isinstance(n, ast.Call):
            if isinstance(n.func, ast.Name) and n.func.id == "setattr" and len(n.args) == 3 and any(isinstance(x, ast.Name) and x.id == "self" for x in ast.walk(n.args[0])):
                out.append((n, n.args[2]))
            elif isinstance(n.func, ast.Attribute) and n.func.attr in ("extend", "append", "update", "add") and n.args and any(isinstance(x, ast.Name) and x.id == "self" for x in ast.walk(n.func.value)):
                out.append((n, n.args[0]))
    return out


def run_r3(repo: Repo, res: Result) -> None:
    T = types_of(repo)
    rule = repo.cls(RULE, "Rule")
    m = rule.methods.get("have_name_containing")
    if m is None:
        res.observe("Rule.have_name_containing no longer exists (deprecated form removed): C11.R3 not applicable")
        return
    view = inline_view(repo, m, T)
    fn = Fn(repo, view)
    co = Collections(fn)
    param = view.param_names[1]
    key = f"{m.relpath}::{m.qualname}::partial name -> regex filter"
    relevant: list[tuple[ast.AST, list]] = []
    unknown: list[str] = []
    for stmt, value in _self_sinks(view):
        d = co.normalise(co.describe(value))
        mine = [c for c in d.contribs if any(b.root and dotted(b.source) == param for b in c.binders) or (not c.binders and c.elt is not None and param in names_loaded(c.elt))]
        if mine:
            relevant.append((stmt, d.contribs))
            unknown += d.unknown
            for r_ in d.removals:
                unknown.append(f"elements are removed (`{norm(r_.node, 60)}`)")
    if not relevant:
        res.undecide("C11.R3", key, f"no store of filters built from `{param}` into the rule's state was recognised", where(view, view.node))
        return
    if unknown:
        res.undecide("C11.R3", key, "the list of filters is not recognised: " + "; ".join(unknown[:2]), where(view, view.node))
        return
    bad: list[str] = []
    dropped: list[str] = []
    for stmt, contribs in relevant:
        for c in contribs:
            if len(c.binders) > 1 or (c.binders and not (c.binders[0].root and dotted(c.binders[0].source) == param)):
                bad.append(f"`{norm(stmt, 70)}` stores filters that are not built from the elements of `{param}` alone")
                continue
            if c.binders and len(c.binders[0].names) != 1:
                bad.append(f"`{norm(stmt, 70)}`: elements of `{param}` are unpacked")
                continue
            var = c.binders[0].names[0] if c.binders else param
            for e, pol in c.conds:
                if not c.binders and isinstance(e, ast.Call) and isinstance(e.func, ast.Name) and e.func.id == "isinstance":
                    continue
                dropped.append(f"a filter is only created if `{'' if pol else 'not '}{show(e)}`")
            elt = c.elt
            ok = _ctor_class(fn, elt).endswith(".ModuleNameRegexFilter")
            if ok:
                arg = _ctor_arg(fn, elt, "name")
                callee = fn.callee(arg) if isinstance(arg, ast.Call) else None
                ok = callee is not None and callee.module.name == PARTIAL and callee.name == "convert_partial_match_to_regex" and len(arg.args) + len(arg.keywords) == 1 and dotted([*arg.args, *[k.value for k in arg.keywords]][0]) == var
            if not ok:
                bad.append(f"an element `{var}` of `{param}` becomes `{show(elt)}`, not ModuleNameRegexFilter(name=convert_partial_match_to_regex({var}))")
    res.add("C11.R3", key, not bad, "each partial name becomes ModuleNameRegexFilter(convert_partial_match_to_regex(name))" if not bad else bad[0] + ": the partial-name form is not the regex filter of its translation", where(view, view.node), kind="flow")
    # every given name yields a filter, and the list reaches the rule's configuration on every path
    from core.guards import f_or

    first = next((c for _, cs in relevant for c in cs if c.node is not None and parent(c.node) is not None), None)
    ctx = guard_formula(view, stmt_of(first.node)) if first is not None else None
    stored = f_or([guard_formula(view, stmt) for stmt, _ in relevant])
    if ctx is not None and not implies(ctx, stored):
        dropped.append("the list of filters is not stored on every path")
    res.add("C11.R3", f"{m.relpath}::{m.qualname}::one filter per name", not dropped, "every given name yields exactly one filter, which is stored in the rule" if not dropped else dropped[0] + ": not every given name yields a filter", where(view, view.node), kind="structural")


# --------------------------------------------------------------------------------------------------------------- C11.R4


def _allow_r4(caller: FuncInfo, callee: FuncInfo) -> bool:
    # the searches themselves stay calls: they are what the rule looks for
    return callee.module.name != SEARCHES


def _queries(repo: Repo) -> list[FuncInfo]:
    """Non-abstract implementations of the three public graph queries of EvaluableArchitecture."""
    base = repo.cls(EVAL_ARCH, "EvaluableArchitecture")
    out: list[FuncInfo] = []
    for name in (EXPLICIT_QUERY, *OTHER_QUERIES):
        impls = [m for m in repo.implementations(base, name) if not _is_stub(m)]
        if not impls:
            raise AnalysisError(f"no implementation of the public query EvaluableArchitecture.{name} found")
        out += impls
    return out


def _is_stub(m: FuncInfo) -> bool:
    """Abstract method / protocol member: nothing but a docstring, `pass`, `...` or `raise NotImplementedError`."""
    if m.is_abstract:
        return True
    for s in m.node.body:
        if isinstance(s, ast.Pass) or (isinstance(s, ast.Expr) and isinstance(s.value, ast.Constant)):
            continue
        if isinstance(s, ast.Raise) and s.exc is not None and "NotImplementedError" in norm(s.exc):
            continue
        return False
    return True


def _strip_copies(e: ast.AST) -> ast.AST:
    while isinstance(e, ast.Call) and isinstance(e.func, ast.Name) and e.func.id in ("list", "tuple", "sorted", "set", "frozenset") and len(e.args) == 1:
        e = e.args[0]
    return e


def _value_candidates(fn: Fn, v: ast.AST) -> list[ast.AST]:
    """The expressions a stored value may stand for: a local with several definitions yields one candidate per definition."""
    ctx, orig = fn.ctx_of(v)
    if isinstance(v, ast.Name) and ctx is fn.fi and isinstance(orig, ast.Name) and parent(orig) is not None:
        defs = fn.reaching(orig.id, orig)
        if len(defs) > 1 and all(d.kind == "assign" and d.value is not None for d in defs):
            return [fn.expand(d.value) for d in defs]
    return [v]


def _carried(fn: Fn, co: Collections, loop: ast.For, acc: set[str]) -> set[str]:
    """State that survives from one iteration of `loop` to a later one: re-bound names read before they are bound again,
    containers changed in place in the body and read there, and any read of the result container itself."""
    targets = {n.id for n in ast.walk(loop.target) if isinstance(n, ast.Name)}
    inside = {id(n) for st in loop.body for n in ast.walk(st)}
    changed = assigned_names(loop.body)
    for name, evs in co.events().items():
        if any(id(ev[2]) in inside for ev in evs):
            changed.add(name)
    exposed = upward_exposed(loop.body, targets)
    out = (exposed & changed) - targets - acc
    # the result container may only be written (under its own key), never read
    for st in loop.body:
        for n in ast.walk(st):
            if isinstance(n, ast.Name) and n.id in acc and isinstance(n.ctx, ast.Load):
                p = parent(n)
                if isinstance(p, ast.Subscript) and isinstance(p.ctx, ast.Store) and p.value is n:
                    continue
                if isinstance(p, ast.Attribute) and p.attr in ("setdefault", "update") and isinstance(parent(p), ast.Call):
                    continue
                out.add(n.id)
    return out


def run_r4(repo: Repo, res: Result) -> None:
    T = types_of(repo)
    n = 0
    for m in _queries(repo):
        view = inline_view(repo, m, T, allow=_allow_r4)
        fn = Fn(repo, view)
        co = Collections(fn)
        params = [p for p in view.param_names[1:]]
        rets = [s for s in own_nodes(view.node) if isinstance(s, ast.Return) and s.value is not None]
        if not rets:
            raise AnalysisError(f"{m.fq}: returns nothing")
        contribs, removals, unknown = [], [], []
        accs: set[str] = set()
        for r in rets:
            if isinstance(r.value, ast.Name):
                accs.add(r.value.id)
            d = co.normalise(co.describe(r.value))
            contribs += d.contribs
            removals += d.removals
            unknown += d.unknown
        anchor = rets[0]
        loops = []
        for c in contribs:
            for b in c.binders:
                if isinstance(b.loop, (ast.For, ast.AsyncFor)) and b.loop not in loops:
                    loops.append(b.loop)
        key_node = loops[0] if loops else (contribs[0].node if contribs and contribs[0].node is not None else anchor)
        base_key = repo.key(view, key_node)
        if unknown or not contribs:
            res.undecide("C11.R4", base_key, "the construction of the query result is not recognised: " + ("; ".join(unknown[:2]) or "no entry is ever stored"), where(view, key_node))
            continue
        # ---- all keys: one entry per element of the given module collections, nothing filtered
        bad: list[str] = []
        key_params: list[str] = []
        for c in contribs:
            for b in c.binders:
                src = dotted(b.source)
                if not b.root or src not in params:
                    bad.append(f"the entries range over `{norm(b.source, 60)}`, which is not one of the given module collections")
                elif src not in key_params:
                    key_params.append(src)
            if not c.binders:
                bad.append(f"`{norm(c.node, 60)}` stores a single fixed entry")
            for e, pol in c.source_conds:
                bad.append(f"the keys are filtered by `{'' if pol else 'not '}{norm(e, 90)}`")
        for r_ in removals:
            bad.append(f"entries are removed again (`{norm(r_.node, 60)}`)")
        n += 1
        res.add(
            "C11.R4",
            base_key + " [all keys]",
            not bad,
            f"one entry per element of {key_params} (duplicates removed only)" if not bad else bad[0] + ": a subject/object of the batch gets no judgement of its own",
            where(view, key_node),
            kind="structural",
        )
        # ---- independent searches: the value of a key is a search over the graph, the key and whole given collections only
        bad = []
        for c in contribs:
            bnames = {x for b in c.binders for x in b.names}
            if c.value is None:
                bad.append(f"`{norm(c.node, 60)}` does not store a search result under a key")
                continue
            for cand in _value_candidates(fn, c.value):
                call = _strip_copies(cand)
                searches_in = [x for x in ast.walk(cand) if isinstance(x, ast.Call) and (lambda cs: bool(cs) and all(f.module.name == SEARCHES for f in cs))(fn.callees(x)[0])]
                if not searches_in:
                    bad.append(f"the value `{norm(cand, 80)}` stored for a key is not computed by a graph search for that key (it is derived from other state)")
                    continue
                if call is not searches_in[0] or len(searches_in) != 1:
                    others = sorted({x.id for x in ast.walk(cand) if isinstance(x, ast.Name) and x.id in fn.mutated} - bnames)
                    bad.append(f"the search result is post-processed (`{norm(cand, 80)}`)" + (f" using `{', '.join(others)}`" if others else ""))
                    continue
                for a in [*call.args, *[k.value for k in call.keywords]]:
                    if isinstance(a, ast.Name) and a.id in bnames:
                        continue
                    if isinstance(a, ast.Attribute) and dotted(a).startswith("self.") and _is_graph(fn, a):
                        continue
                    ctx, orig = fn.ctx_of(a)
                    whole = False
                    if ctx is fn.fi and parent(orig) is not None:
                        da = co.normalise(co.describe(orig))
                        whole = not da.unknown and not da.removals and len(da.contribs) == 1 and not da.contribs[0].conds and len(da.contribs[0].binders) == 1 and da.contribs[0].binders[0].root and dotted(da.contribs[0].binders[0].source) in params and isinstance(da.contribs[0].elt, ast.Name) and da.contribs[0].elt.id in da.contribs[0].binders[0].names
                    if not whole:
                        bad.append(f"the search also receives `{norm(a, 60)}`")
        n += 1
        res.add(
            "C11.R4",
            base_key + " [independent searches]",
            not bad,
            "each search receives only the graph, its own key and the whole opposite set" if not bad else bad[0] + ": state is shared between the searches of one batch, so a batched rule is no longer the conjunction of the single rules",
            where(view, key_node),
            kind="flow",
        )
        # ---- no state carried from one key to the next
        carried: set[str] = set()
        for lp in loops:
            carried |= _carried(fn, co, lp, accs)
        n += 1
        res.add("C11.R4", base_key + " [no loop-carried state]", not carried, "no variable carries a value from one key to the next" if not carried else f"variable(s) {sorted(carried)} carry values between the iterations for different keys", where(view, key_node), kind="flow")
        # ---- result per key
        bad = []
        for c in contribs:
            bnames = {x for b in c.binders for x in b.names}
            missing = sorted(bnames - names_loaded(c.elt)) if c.elt is not None else sorted(bnames)
            if missing:
                bad.append(f"the key `{norm(c.elt, 60) if c.elt is not None else '?'}` does not identify `{', '.join(missing)}`")
            for e, pol in c.own_conds:
                bad.append(f"the entry is stored only if `{'' if pol else 'not '}{norm(e, 80)}`")
        n += 1
        res.add("C11.R4", base_key + " [result per key]", not bad, "the result is stored under the key of the iteration, unconditionally" if not bad else bad[0] + ": the result of a search is not stored under its own key for every key", where(view, key_node), kind="structural")
    res.floor("C11.R4", 12, n)


def _is_graph(fn: Fn, a: ast.AST) -> bool:
    t = fn.type_of(a)
    for mm in (t[1] if t[0] == "union" else [t]):
        if mm[0] == "cls":
            ci = fn.repo.classes.get(mm[1])
            if ci is not None and any(c.name == "AbstractGraph" for c in fn.repo.mro(ci)):
                return True
    return False


def run(repo: Repo) -> Result:
    res = Result("C11")
    res.explanation = (
        "Relational argument over the code: a compact rule (regex / partial name / batch) and its expansion drive the same pipeline with the "
        "same arguments. (R1) the regex conversion unconditionally dominates every query and everything downstream reads the converted "
        "requirement; (R2) a regex contributes exactly the name filters of all modules for which re.match(pattern, name) succeeds, accumulators "
        "change only under that test, and an unmatched regex raises before a result exists; (R3) partial names become the regex filter of their "
        "translation; (R4) the three queries run one independent search per key over the full (de-duplicated) key set and store it under that "
        "key, so a batch is the conjunction of the single rules. Together with purity (C15) identical inputs give identical verdicts."
    )
    res.not_decided = "regexes matching a module and its sub modules (documented caveat); equality of verdicts is argued from identical pipelines, not observed."
    res.trusted_base = ["re.match semantics", "C15 (evaluation is a function of its arguments)", "engine CFG/guards"]
    run_r1(repo, res)
    run_r2(repo, res)
    run_r3(repo, res)
    run_r4(repo, res)
    return res
