"""C11 - regex, partial-name and batched specifications equal their expansions (relational, by construction).

  C11.R1  the regex -> names conversion dominates every graph query; queries, detectors and message generators read the converted
          requirement, never the raw one; both sides are converted
  C11.R2  a regex contributes exactly {ModuleNameFilter(m) : m in arch.modules, re.match(pattern, m)}; ImpossibleMatch precedes a verdict
  C11.R3  the deprecated partial-name form is ModuleNameRegexFilter(convert_partial_match_to_regex(name)) per element
  C11.R4  batch = conjunction: per (subject, object) pair resp. per subject computations are independent (no shared state, no dropped key)
"""

from __future__ import annotations

import ast

from core.guards import atom, atoms_of, f_not, implies
from core.loader import AnalysisError, FuncInfo, Repo, ancestors, calls_in, header, norm, own_nodes, parent
from core.report import Result

from .common import cfg_of, conds, dotted, guard_formula, truth, is_attr_call, loop_carried, loops_around, stmt_of, types_of, where
from .tables import EVAL_GRAPH, MATCHER, RULE, SEARCHES

CONVERTER = "pytestarch.eval_structure.module_name_converter"


def run_r1(repo: Repo, res: Result) -> None:
    T = types_of(repo)
    matcher = repo.cls(MATCHER, "RuleMatcher")
    match = matcher.methods.get("match")
    if match is None:
        raise AnalysisError("RuleMatcher.match not found")
    conv_calls = [c for c in calls_in(match.node) if is_attr_call(c, "_updated_module_requirements")]
    find_calls = [c for c in calls_in(match.node) if is_attr_call(c, "_find_rule_violations")]
    ok = len(conv_calls) == 1 and len(find_calls) == 1 and cfg_of(match).dominates(stmt_of(conv_calls[0]), stmt_of(find_calls[0])) and not conds(match, conv_calls[0])
    res.add("C11.R1", f"{match.relpath}::{match.qualname}::conversion dominates evaluation", ok, "regexes are converted to module names before any graph query, unconditionally" if ok else "the regex conversion does not unconditionally precede the evaluation of the rule (a stale or missing conversion is evaluated)", where(match, match.node), kind="dominance")
    upd = matcher.methods.get("_updated_module_requirements")
    if upd is None:
        raise AnalysisError("RuleMatcher._updated_module_requirements not found")
    convs = [c for c in calls_in(upd.node) if is_attr_call(c, "convert")]
    sides = sorted(norm(c.args[0]).split(".")[-1] for c in convs if c.args)
    ok = sides == ["importees_as_specified_by_user", "importers_as_specified_by_user"] and all(not conds(upd, c) for c in convs) and all(len(c.args) == 2 and dotted(c.args[1]) == upd.param_names[1] for c in convs)
    res.add("C11.R1", f"{upd.relpath}::{upd.qualname}::both sides converted", ok, "importers and importees are both converted against the evaluable being checked" if ok else f"conversion covers {sides} (conditions: {[norm(e) for c in convs for e, _ in conds(upd, c)]}): a side keeps its regex or is converted against another architecture", where(upd, upd.node), kind="structural")
    early = [s for s in own_nodes(upd.node) if isinstance(s, ast.Return)]
    res.add("C11.R1", f"{upd.relpath}::{upd.qualname}::no early return", not early, "conversion runs to completion on every call" if not early else f"`{header(early[0])}` skips the conversion (e.g. when a previous evaluation already converted)", where(upd, upd.node), kind="structural")
    # raw requirement must not be read outside the conversion
    n = 0
    for cls in [matcher, *repo.subclasses(matcher)]:
        for m in cls.methods.values():
            if m.name in ("__init__",) or m is upd:
                continue
            for node in own_nodes(m.node):
                if isinstance(node, ast.Attribute) and node.attr == "_module_requirement" and isinstance(node.ctx, ast.Load):
                    n += 1
                    res.add("C11.R1", repo.key(m, stmt_of(node)) + " [raw requirement]", False, f"{m.qualname} reads the un-converted requirement `{norm(parent(node))}`: regex filters reach a graph query / detector / message generator", where(m, node), kind="flow")
                if isinstance(node, ast.Attribute) and node.attr == "_updated_module_requirement" and isinstance(node.ctx, ast.Load):
                    n += 1
                    res.add("C11.R1", repo.key(m, stmt_of(node)) + f" [{norm(parent(node), 80)}]", True, "reads the converted requirement", where(m, node), kind="flow")
    res.floor("C11.R1", 6, n)


def run_r2(repo: Repo, res: Result) -> None:
    conv = repo.cls(CONVERTER, "ModuleNameConverter")
    f = conv.methods.get("convert")
    if f is None:
        raise AnalysisError("ModuleNameConverter.convert not found")
    arch = f.param_names[2]
    loops = [l for l in own_nodes(f.node) if isinstance(l, ast.For) and norm(l.iter) == f"{arch}.modules"]
    ok = len(loops) == 1 and not conds(f, loops[0]) and not any(isinstance(x, (ast.Break, ast.Return)) for x in ast.walk(loops[0]))
    res.add("C11.R2", f"{f.relpath}::{f.qualname}::all modules scanned", ok, "every module of the architecture is tested against every pattern" if ok else "the scan over `arch.modules` is conditional or can be left early: a regex no longer stands for all modules it matches", where(f, f.node), kind="structural")
    if not loops:
        return
    outer = loops[0]
    mvar = dotted(outer.target)
    match_calls = [c for c in ast.walk(outer) if isinstance(c, ast.Call) and isinstance(c.func, ast.Attribute) and "match" in c.func.attr]
    if len(match_calls) != 1:
        raise AnalysisError(f"{f.fq}: pattern test inside the module scan not recognised")
    mc = match_calls[0]
    inner = [l for l in loops_around(mc, f.node) if isinstance(l, ast.For) and l is not outer]
    if len(inner) != 1:
        raise AnalysisError(f"{f.fq}: loop over the patterns not recognised")
    pvar = dotted(inner[0].target)
    ok = [dotted(a) for a in mc.args] == [pvar, mvar] and not any(isinstance(x, (ast.Break, ast.Continue)) for x in ast.walk(outer))
    res.add("C11.R2", repo.key(f, stmt_of(mc)) + " [pattern x module]", ok, "test is (pattern, module name) for every pair" if ok else f"the pattern test is `{norm(mc)}` or the pair loop can skip pairs", where(f, mc), kind="structural")
    # the patterns iterated are the identifiers of all regex filters
    psrc = dotted(inner[0].iter)
    assigns = [s for s in own_nodes(f.node) if isinstance(s, (ast.Assign, ast.AugAssign)) and any(dotted(t) == psrc for t in (s.targets if isinstance(s, ast.Assign) else [s.target]))]
    ok = len(assigns) == 1 and "identifier" in norm(assigns[0].value) and not any(isinstance(g, ast.comprehension) and g.ifs for g in ast.walk(assigns[0].value))
    res.add("C11.R2", f"{f.relpath}::{f.qualname}::patterns = all regex filters", ok, "every regex filter takes part in the scan" if ok else f"`{psrc}` is (re)assigned {len(assigns)} times / filtered: some regex filters are resolved outside the pattern test", where(f, inner[0]), kind="structural")
    # accumulators: only changed under the match test
    H = truth(f, mc)
    rets = [s for s in own_nodes(f.node) if isinstance(s, ast.Return) and s.value is not None]
    if len(rets) != 1 or not isinstance(rets[0].value, ast.Tuple):
        raise AnalysisError(f"{f.fq}: expected a single `return converted, mapping`")
    ret_names = {n.id for n in ast.walk(rets[0].value) if isinstance(n, ast.Name)}
    acc = set()
    for s in own_nodes(f.node):
        if isinstance(s, ast.Assign) and isinstance(s.targets[0], ast.Name) and s.targets[0].id in ret_names:
            acc |= {n.id for n in ast.walk(s.value) if isinstance(n, ast.Name)} | {s.targets[0].id}
    raise_stmts = [s for s in own_nodes(f.node) if isinstance(s, ast.Raise)]
    never = None
    for r in raise_stmts:
        cs_ = conds(f, r)
        if len(cs_) == 1 and cs_[0][1] and isinstance(cs_[0][0], ast.Name):
            never = cs_[0][0].id
    n = 0
    for c in calls_in(f.node):
        if isinstance(c.func, ast.Attribute) and c.func.attr in ("add", "append", "update", "extend", "remove", "discard", "pop", "clear"):
            base = c.func.value
            while isinstance(base, ast.Subscript):
                base = base.value
            b = dotted(base)
            if b in acc or b == never:
                if b not in ("converted_module_filters", never) and b not in ret_names and not any(b == x for x in acc):
                    continue
                n += 1
                g = guard_formula(f, c)
                ok = implies(g, H)
                res.add("C11.R2", repo.key(f, stmt_of(c)), ok, "changed only for a (pattern, module) pair that matches" if ok else f"`{norm(c, 80)}` is executed without the pattern test having matched: a regex resolves to modules by another criterion than `re.match(pattern, name)`", where(f, c), kind="dominance")
    res.floor("C11.R2.acc", 3, n)
    # ModuleNameFilter built from the matched module
    ctor = [c for c in ast.walk(outer) if isinstance(c, ast.Call) and dotted(c.func) == "ModuleNameFilter"]
    ok = len(ctor) == 1 and ((ctor[0].keywords and dotted(ctor[0].keywords[0].value) == mvar) or (ctor[0].args and dotted(ctor[0].args[0]) == mvar))
    res.add("C11.R2", f"{f.relpath}::{f.qualname}::name filter of the matched module", ok, "a matching module m contributes ModuleNameFilter(name=m)" if ok else "the filter built for a match is not the name filter of the matched module", where(f, ctor[0] if ctor else f.node), kind="structural")
    # never-matched raises before returning
    ok = never is not None and len(raise_stmts) == 1 and cfg_of(f).dominates(_if_of(raise_stmts[0]), rets[0]) and "ImpossibleMatch" in norm(raise_stmts[0])
    res.add("C11.R2", f"{f.relpath}::{f.qualname}::no-match raises", ok, "a regex that matched nothing raises ImpossibleMatch before any result is returned" if ok else "a regex matching nothing does not raise before the conversion result is returned", where(f, f.node), kind="dominance")
    if never is not None:
        init = [s for s in own_nodes(f.node) if isinstance(s, ast.Assign) and dotted(s.targets[0]) == never]
        ok = len(init) == 1 and "identifier" in norm(init[0].value) and not any(isinstance(g, ast.comprehension) and g.ifs for g in ast.walk(init[0].value))
        res.add("C11.R2", f"{f.relpath}::{f.qualname}::never-matched starts with all patterns", ok, "the unmatched set starts with every regex filter" if ok else "the unmatched set does not start with all regex filters", where(f, f.node), kind="structural")
    # result = converted + unchanged others
    txt = norm(rets[0].value.elts[0]) if isinstance(rets[0].value.elts[0], ast.Name) else ""
    src = [s for s in own_nodes(f.node) if isinstance(s, ast.Assign) and dotted(s.targets[0]) == txt]
    ok = len(src) == 1 and isinstance(src[0].value, ast.BinOp) and "other_modules" in norm(src[0].value) and "converted_module_filters" in norm(src[0].value)
    res.add("C11.R2", f"{f.relpath}::{f.qualname}::result = converted + others", ok, "result is the converted filters plus the non-regex filters unchanged" if ok else "the conversion result is not `converted + other filters`", where(f, rets[0]), kind="structural")
    # the test itself
    nm = conv.methods.get("_name_matches_pattern")
    if nm is None:
        raise AnalysisError("ModuleNameConverter._name_matches_pattern not found")
    res_calls = [repo.resolve_name(nm.module, c.func) for c in calls_in(nm.node)]
    ok = "re.match" in res_calls and "re.fullmatch" not in res_calls and "re.search" not in res_calls
    flags = [c for c in calls_in(nm.node) if repo.resolve_name(nm.module, c.func) in ("re.match", "re.compile") and (len(c.args) > 2 or (repo.resolve_name(nm.module, c.func) == "re.compile" and len(c.args) > 1) or c.keywords)]
    res.add("C11.R2", f"{nm.relpath}::{nm.qualname}::re.match", ok and not flags, "a module matches when re.match(pattern, name) succeeds (start-anchored, no flags)" if ok and not flags else f"the pattern test uses {[r for r in res_calls if r and r.startswith('re.')]}{' with flags' if flags else ''} instead of re.match(pattern, name)", where(nm, nm.node), kind="structural")


def _if_of(stmt: ast.AST) -> ast.AST:
    p = parent(stmt)
    return p if isinstance(p, ast.If) else stmt


def run_r3(repo: Repo, res: Result) -> None:
    rule = repo.cls(RULE, "Rule")
    m = rule.methods.get("have_name_containing")
    if m is None:
        res.observe("Rule.have_name_containing no longer exists (deprecated form removed): C11.R3 not applicable")
        return
    lambdas = [n for n in own_nodes(m.node) if isinstance(n, ast.Lambda)]
    ok = False
    for lam in lambdas:
        b = lam.body
        if isinstance(b, ast.Call) and dotted(b.func) == "ModuleNameRegexFilter":
            arg = b.keywords[0].value if b.keywords else (b.args[0] if b.args else None)
            if isinstance(arg, ast.Call) and dotted(arg.func) == "convert_partial_match_to_regex" and arg.args and dotted(arg.args[0]) == lam.args.args[0].arg:
                ok = True
    setm = [c for c in calls_in(m.node) if is_attr_call(c, "_set_modules")]
    ok = ok and len(setm) == 1 and dotted(setm[0].args[0]) == m.param_names[1]
    res.add("C11.R3", f"{m.relpath}::{m.qualname}::partial name -> regex filter", ok, "each partial name becomes ModuleNameRegexFilter(convert_partial_match_to_regex(name))" if ok else "the partial-name form is not the regex filter of its translation", where(m, m.node), kind="flow")
    sm = rule.methods.get("_set_modules")
    comp = [n for n in own_nodes(sm.node) if isinstance(n, ast.ListComp)]
    ok = len(comp) == 1 and not comp[0].generators[0].ifs and dotted(comp[0].generators[0].iter) == sm.param_names[1] and isinstance(comp[0].elt, ast.Call) and dotted(comp[0].elt.func) == sm.param_names[2]
    res.add("C11.R3", f"{sm.relpath}::{sm.qualname}::one filter per name", ok, "every given name yields exactly one filter" if ok else "not every given name yields a filter", where(sm, sm.node), kind="structural")


ITER_COPIES = ("set", "frozenset", "list", "tuple", "sorted")


def run_r4(repo: Repo, res: Result) -> None:
    eg = repo.cls(EVAL_GRAPH, "EvaluableArchitectureGraph")
    searches = {f.name for f in repo.module(SEARCHES).all_funcs}
    n = 0
    for name in ("get_dependencies", "any_dependencies_from_dependents_to_modules_other_than_dependent_upons", "any_other_dependencies_on_dependent_upons_than_from_dependents"):
        m = eg.methods.get(name)
        if m is None:
            raise AnalysisError(f"EvaluableArchitectureGraph.{name} not found")
        params = m.param_names[1:3]
        calls = [c for c in calls_in(m.node) if isinstance(c.func, ast.Name) and c.func.id in searches]
        if len(calls) != 1:
            raise AnalysisError(f"{m.fq}: expected exactly one search call")
        call = calls[0]
        lps = [l for l in loops_around(call, m.node) if isinstance(l, ast.For)]
        if len(lps) != 1:
            raise AnalysisError(f"{m.fq}: search call is not inside exactly one loop")
        lp = lps[0]
        # which locals are plain copies of the parameters (set(param) etc.)
        copies: dict[str, str] = {p: p for p in params}
        filtered: dict[str, ast.AST] = {}
        for s in own_nodes(m.node):
            if isinstance(s, ast.Assign) and isinstance(s.targets[0], ast.Name):
                v = s.value
                t = s.targets[0].id
                if isinstance(v, ast.Call) and isinstance(v.func, ast.Name) and v.func.id in ITER_COPIES and len(v.args) == 1 and dotted(v.args[0]) in copies and not v.keywords and t not in filtered:
                    if t in copies and copies[t] != copies[dotted(v.args[0])]:
                        filtered[t] = s
                    copies[t] = copies[dotted(v.args[0])]
                elif t in copies or any(dotted(x) in copies for x in ast.walk(v) if isinstance(x, ast.Name)) and t.endswith("_set"):
                    filtered[t] = s
        loop_vars = [x.id for x in ast.walk(lp.target) if isinstance(x, ast.Name)]
        it = lp.iter
        iter_srcs = [dotted(a) for a in it.args] if isinstance(it, ast.Call) and dotted(it.func) == "product" else [dotted(it)]
        n += 1
        bad = [s for s in iter_srcs if s not in copies or s in filtered]
        res.add(
            "C11.R4",
            repo.key(m, lp) + " [all keys]",
            not bad,
            f"one search per element of {[copies.get(s, s) for s in iter_srcs]} (duplicates removed only)" if not bad else f"the loop ranges over `{bad[0]}`, which is not the full set of the given modules (`{header(filtered[bad[0]]) if bad[0] in filtered else norm(it)}`): a subject/object of the batch gets no judgement of its own",
            where(m, lp),
            kind="structural",
        )
        # arguments of the search: graph, loop variables, whole sets - nothing else
        allowed = {"self._graph", *loop_vars, *[c for c in copies if c not in filtered]}
        extra = [norm(a) for a in [*call.args, *[k.value for k in call.keywords]] if dotted(a) not in allowed]
        n += 1
        res.add(
            "C11.R4",
            repo.key(m, stmt_of(call)) + " [independent searches]",
            not extra,
            "each search receives only the graph, its own key and the whole opposite set" if not extra else f"the search also receives `{', '.join(extra)}`: state is shared between the searches of one batch, so a batched rule is no longer the conjunction of the single rules",
            where(m, call),
            kind="flow",
        )
        carried = loop_carried(lp)
        n += 1
        res.add("C11.R4", repo.key(m, lp) + " [no loop-carried state]", not carried, "no variable carries a value from one key to the next" if not carried else f"variable(s) {sorted(carried)} carry values between iterations", where(m, lp), kind="flow")
        # result keyed by the loop key(s)
        stores = [s for s in ast.walk(lp) if isinstance(s, ast.Assign) and isinstance(s.targets[0], ast.Subscript)]
        ok = len(stores) == 1 and all(v in norm(stores[0].targets[0].slice) for v in loop_vars) and not conds(m, stores[0])[len(conds(m, lp)):]
        n += 1
        res.add("C11.R4", repo.key(m, lp) + " [result per key]", ok, "the result is stored under the key of the iteration, unconditionally" if ok else "the result of a search is not stored under its own key for every iteration", where(m, lp), kind="structural")
    res.floor("C11.R4", 12, n)


def run(repo: Repo) -> Result:
    res = Result("C11")
    res.explanation = (
        "Relational argument over the code: a compact rule (regex / partial name / batch) and its expansion drive the same pipeline with the "
        "same arguments. (R1) the regex conversion unconditionally dominates every query and everything downstream reads the converted "
        "requirement; (R2) a regex contributes exactly the name filters of all modules for which re.match(pattern, name) succeeds, accumulators "
        "change only under that test, and an unmatched regex raises before a result exists; (R3) partial names become the regex filter of their "
        "translation; (R4) the three queries run one independent search per key over the full (de-duplicated) key set and store it under that "
        "key, so a batch is the conjunction of the single rules. Together with purity (C15) identical inputs give identical verdicts."
    )
    res.not_decided = "regexes matching a module and its sub modules (documented caveat); equality of verdicts is argued from identical pipelines, not observed."
    res.trusted_base = ["re.match semantics", "C15 (evaluation is a function of its arguments)", "engine CFG/guards"]
    run_r1(repo, res)
    run_r2(repo, res)
    run_r3(repo, res)
    run_r4(repo, res)
    return res
