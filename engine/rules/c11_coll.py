"""Machinery of the C11 rules (part 2): *collection descriptions*.

A collection built in a function (comprehension, map/filter, loop with append/add/extend/update/+=/|=, subscript stores,
setdefault, copies such as set(x)/sorted(x)/list(x), concatenations) is described as a union of *contributions*

        { elt(x1..xn)  |  x1 in S1, ..., xn in Sn,  conds }                       (for dicts: key -> value)

After `normalise` every source S is a *root* (a parameter, an attribute chain such as `arch.modules`, a call result): locally
built sources are composed away, `product(A, B)` / `enumerate(S)` are split.  Removal events (remove / discard / pop / clear /
-=) are kept separately.  Whatever cannot be described is reported in `unknown` - the rules turn that into `undecided`.

Loop idioms, comprehensions and helper extraction all lead to the same description, so the rules compare descriptions.
"""

from __future__ import annotations

import ast
import itertools
from dataclasses import dataclass, field

from core.guards import Formula, conds_formula
from core.loader import ancestors, norm, own_nodes, parent

from .c11_lib import COMPS, Fn, copy_node, substitute
from .common import conds as conds_at
from .common import copy_prop, stmt_of

COPY_CALLS = {"list", "set", "frozenset", "tuple", "sorted", "reversed", "iter"}
EMPTY_CALLS = {"list", "set", "frozenset", "tuple", "dict", "defaultdict", "OrderedDict", "deque", "Counter"}
ADD_ONE = {"append": 0, "add": 0, "appendleft": 0, "insert": 1}
ADD_MANY = {"extend", "update", "extendleft"}
REMOVE = {"remove", "discard", "pop", "clear", "difference_update", "intersection_update", "symmetric_difference_update", "popitem", "popleft"}

_fresh = itertools.count(1)


@dataclass
class Binder:
    target: ast.expr  # Name (after normalisation) or Tuple
    source: ast.expr  # expression iterated
    loop: ast.AST | None = None  # For statement / comprehension it came from (possibly inside a generator helper)
    root: bool = False
    site: ast.AST | None = None  # the call in the analysed function through which a helper's loop is run
    via: tuple = ()  # ids of the loops whose elements this binder stands for after sources were composed

    @property
    def names(self) -> list[str]:
        return [n.id for n in ast.walk(self.target) if isinstance(n, ast.Name)]


@dataclass
class Contribution:
    elt: ast.expr | None  # element; for mappings the key
    value: ast.expr | None = None  # mapping value (None for plain collections)
    binders: list[Binder] = field(default_factory=list)
    conds: list[tuple[ast.expr, bool]] = field(default_factory=list)  # conditions inside the outermost binder
    context: list[tuple[ast.expr, bool]] = field(default_factory=list)  # conditions around the whole construction
    node: ast.AST | None = None  # event / comprehension / literal
    kind: str = "add"  # add | remove
    how: str = ""  # append, add, comp, subscript-store, subscript-load (d[k].append), setdefault, literal, root, ...
    acc: str = ""  # accumulator the event changes (events only)
    nlocal: int = -1  # how many of the (trailing) conds guard the event itself; the leading ones filter composed sources
    ren: dict = field(default_factory=dict)  # loop variables of the function that were renamed while sources were composed

    def __post_init__(self) -> None:
        if self.nlocal < 0:
            self.nlocal = len(self.conds)

    @property
    def own_conds(self) -> list:
        return self.conds[len(self.conds) - self.nlocal:] if self.nlocal else []

    @property
    def source_conds(self) -> list:
        return self.conds[: len(self.conds) - self.nlocal]

    def text(self) -> str:
        b = ", ".join(f"{norm(x.target)} in {norm(x.source, 60)}" for x in self.binders)
        c = " and ".join(("" if pol else "not ") + norm(e, 60) for e, pol in self.conds)
        e = norm(self.elt, 80) if self.elt is not None else "*"
        if self.value is not None:
            e += ": " + norm(self.value, 60)
        return "{" + e + (" | " + b if b else "") + (" if " + c if c else "") + "}"


@dataclass
class Desc:
    contribs: list[Contribution] = field(default_factory=list)
    removals: list[Contribution] = field(default_factory=list)
    unknown: list[str] = field(default_factory=list)
    mispaired: list[str] = field(default_factory=list)  # zip(...) of streams that provably do not walk the same sequence in the same order

    def extend(self, other: "Desc") -> None:
        self.contribs += other.contribs
        self.removals += other.removals
        self.unknown += other.unknown
        self.mispaired += other.mispaired


def _is_empty_value(v: ast.AST) -> bool:
    if isinstance(v, (ast.List, ast.Set, ast.Tuple)) and not v.elts:
        return True
    if isinstance(v, ast.Dict) and not v.keys:
        return True
    if isinstance(v, ast.Call) and not v.args and not [k for k in v.keywords if k.arg is None]:
        f = v.func
        n = f.id if isinstance(f, ast.Name) else f.attr if isinstance(f, ast.Attribute) else ""
        return n in EMPTY_CALLS
    if isinstance(v, ast.Call) and isinstance(v.func, (ast.Name, ast.Attribute)):
        n = v.func.id if isinstance(v.func, ast.Name) else v.func.attr
        if n == "defaultdict" and len(v.args) == 1:
            return True
    return False


def _call_name(c: ast.Call) -> str:
    return c.func.id if isinstance(c.func, ast.Name) else ""


def acc_key(e: ast.AST) -> str | None:
    """Key of an accumulator: a local name, or a field of a local record object (`conversion.name_filters`)."""
    if isinstance(e, ast.Name):
        return e.id
    if isinstance(e, ast.Attribute) and isinstance(e.value, ast.Name) and e.value.id not in ("self", "cls"):
        return f"{e.value.id}.{e.attr}"
    return None


def splice_starred(e: ast.AST) -> ast.AST:
    """`f(*(a, b))` -> `f(a, b)` (after a name was replaced by the tuple it stands for)."""
    for c in ast.walk(e):
        if isinstance(c, ast.Call) and any(isinstance(x, ast.Starred) and isinstance(x.value, (ast.Tuple, ast.List)) for x in c.args):
            args = []
            for x in c.args:
                if isinstance(x, ast.Starred) and isinstance(x.value, (ast.Tuple, ast.List)):
                    args += list(x.value.elts)
                else:
                    args.append(x)
            c.args = args
    return e


def flatten(conds: list) -> list[tuple[ast.AST, bool]]:
    """Conjunction of conditions as a list of literals: `a and b` / `not (a or b)` / `not x` / `bool(x)` are taken apart."""
    out: list[tuple[ast.AST, bool]] = []
    work = list(conds)
    while work:
        e, pol = work.pop(0)
        if isinstance(e, ast.UnaryOp) and isinstance(e.op, ast.Not):
            work.insert(0, (e.operand, not pol))
        elif isinstance(e, ast.BoolOp) and ((isinstance(e.op, ast.And) and pol) or (isinstance(e.op, ast.Or) and not pol)):
            work = [(v, pol) for v in e.values] + work
        elif isinstance(e, ast.Call) and isinstance(e.func, ast.Name) and e.func.id == "bool" and len(e.args) == 1:
            work.insert(0, (e.args[0], pol))
        elif isinstance(e, ast.Compare) and len(e.ops) == 1 and isinstance(e.ops[0], (ast.IsNot, ast.NotIn, ast.NotEq)):
            op = {ast.IsNot: ast.Is, ast.NotIn: ast.In, ast.NotEq: ast.Eq}[type(e.ops[0])]()
            ne = ast.Compare(left=e.left, ops=[op], comparators=e.comparators)
            out.append((ne, not pol))
        elif isinstance(e, ast.Constant) and bool(e.value) is pol:
            continue
        else:
            out.append((e, pol))
    return out


class Collections:
    def __init__(self, fn: Fn) -> None:
        self.fn = fn
        self.fi = fn.fi
        self._events: dict[str, list[tuple]] | None = None
        self._subst = None

    # ------------------------------------------------------------------ guards
    def local_conds(self, node: ast.AST, outer: ast.AST | None) -> tuple[list, list]:
        """(conditions of `node` that are not already conditions of `outer`, conditions of `outer`)."""
        inner = self.fn.conds_all(node)
        if outer is None:
            return [], inner
        base = self.fn.conds_all(outer)
        ids = {(id(e), p) for e, p in base}
        return [(e, p) for e, p in inner if (id(e), p) not in ids], base

    def formula(self, conds: list[tuple[ast.expr, bool]]) -> Formula:
        if self._subst is None:
            self._subst = copy_prop(self.fi)
        return conds_formula(conds, self._subst)

    def x(self, e):
        """Expanded copy of a tree node (locals replaced by their definitions); detached expressions are returned unchanged."""
        if e is None or not isinstance(e, ast.AST) or parent(e) is None:
            return e
        return self.fn.expand(e)

    def xc(self, conds: list) -> list:
        return [(self.x(e), p) for e, p in conds]

    # ------------------------------------------------------------------ events on accumulators
    def _alias_targets(self) -> dict[str, list[tuple[str, list]]]:
        """t -> [(aliased accumulator, extra conditions)] for `t = a if c else b` / `t = a` with a single definition of t."""
        out: dict[str, list[tuple[str, list]]] = {}
        counts: dict[str, int] = {}
        for n in ast.walk(self.fi.node):
            if isinstance(n, ast.Name) and isinstance(n.ctx, ast.Store):
                counts[n.id] = counts.get(n.id, 0) + 1
        for n in ast.walk(self.fi.node):
            if isinstance(n, ast.Assign) and len(n.targets) == 1 and isinstance(n.targets[0], ast.Name) and counts.get(n.targets[0].id) == 1:
                t = n.targets[0].id

                def walk(v, cs):
                    if isinstance(v, ast.Name):
                        return [(v.id, cs)]
                    if isinstance(v, ast.IfExp):
                        a, b = walk(v.body, cs + [(v.test, True)]), walk(v.orelse, cs + [(v.test, False)])
                        return a + b if a is not None and b is not None else None
                    return None

                got = walk(n.value, [])
                if got and isinstance(n.value, ast.IfExp):
                    out[t] = got
        return out

    def events(self) -> dict[str, list[tuple]]:
        """accumulator name -> [(kind, how, node, key/elt expr, value expr, extra conds)] for every in-place change in the function."""
        if self._events is not None:
            return self._events
        ev: dict[str, list[tuple]] = {}
        aliases = self._alias_targets()

        def add(name: str, rec: tuple) -> None:
            if name in aliases:
                for real, cs in aliases[name]:
                    ev.setdefault(real, []).append(rec[:5] + (rec[5] + cs,))
            else:
                ev.setdefault(name, []).append(rec)

        for n in ast.walk(self.fi.node):
            if isinstance(n, ast.Call) and isinstance(n.func, ast.Attribute):
                m = n.func.attr
                recv = n.func.value
                if (m in ADD_ONE or m in ADD_MANY or m in REMOVE) and isinstance(recv, ast.IfExp):
                    # (a if c else b).append(x): an event on a under c and on b under not c
                    def arms(v, cs):
                        if isinstance(v, ast.Name):
                            return [(v.id, cs)]
                        if isinstance(v, ast.IfExp):
                            x_, y_ = arms(v.body, cs + [(v.test, True)]), arms(v.orelse, cs + [(v.test, False)])
                            return x_ + y_ if x_ is not None and y_ is not None else None
                        return None

                    for real, cs in arms(recv, []) or []:
                        if m in ADD_ONE and len(n.args) > ADD_ONE[m]:
                            ev.setdefault(real, []).append(("add", m, n, n.args[ADD_ONE[m]], None, cs))
                        elif m in ADD_MANY and n.args:
                            ev.setdefault(real, []).append(("addmany", m, n, n.args[0], None, cs))
                        elif m in REMOVE:
                            ev.setdefault(real, []).append(("remove", m, n, n.args[0] if n.args else None, None, cs))
                    continue
                if m in ADD_ONE or m in ADD_MANY or m in REMOVE or m == "setdefault":
                    k_ = acc_key(recv)
                    if k_ is not None:
                        if m in ADD_ONE and len(n.args) > ADD_ONE[m]:
                            add(k_, ("add", m, n, n.args[ADD_ONE[m]], None, []))
                        elif m in ADD_MANY and n.args:
                            add(k_, ("addmany", m, n, n.args[0], None, []))
                        elif m == "setdefault" and n.args:
                            # value-less registration of a key unless the result is mutated (handled below)
                            p = parent(n)
                            if not (isinstance(p, ast.Attribute) and isinstance(parent(p), ast.Call)):
                                add(k_, ("add", "setdefault", n, n.args[0], n.args[1] if len(n.args) > 1 else ast.Constant(value=None), []))
                        elif m == "difference_update" and n.args:
                            add(k_, ("removemany", m, n, n.args[0], None, []))
                        elif m in REMOVE:
                            add(k_, ("remove", m, n, n.args[0] if n.args else None, None, []))
                    elif isinstance(recv, ast.Subscript) and acc_key(recv.value) is not None and (m in ADD_ONE or m in ADD_MANY):
                        arg = n.args[ADD_ONE[m]] if m in ADD_ONE and len(n.args) > ADD_ONE[m] else (n.args[0] if n.args else None)
                        add(acc_key(recv.value), ("add", "subscript-load", n, recv.slice, arg, []))
                    elif isinstance(recv, ast.Subscript) and acc_key(recv.value) is not None and m in REMOVE:
                        add(acc_key(recv.value), ("remove", "subscript-" + m, n, recv.slice, None, []))
                    elif isinstance(recv, ast.Call) and isinstance(recv.func, ast.Attribute) and recv.func.attr == "setdefault" and acc_key(recv.func.value) is not None and recv.args and (m in ADD_ONE or m in ADD_MANY):
                        arg = n.args[ADD_ONE[m]] if m in ADD_ONE and len(n.args) > ADD_ONE[m] else (n.args[0] if n.args else None)
                        add(acc_key(recv.func.value), ("add", "setdefault", n, recv.args[0], arg, []))
            elif isinstance(n, ast.Assign):
                for t in n.targets:
                    if isinstance(t, ast.Subscript) and acc_key(t.value) is not None:
                        add(acc_key(t.value), ("add", "subscript-store", n, t.slice, n.value, []))
            elif isinstance(n, ast.AugAssign):
                t = n.target
                if isinstance(t, (ast.Name, ast.Attribute)) and acc_key(t) is not None:
                    if isinstance(n.op, (ast.Add, ast.BitOr)):
                        add(acc_key(t), ("addmany", "augassign", n, n.value, None, []))
                    elif isinstance(n.op, ast.Sub):
                        add(acc_key(t), ("removemany", "augassign", n, n.value, None, []))
                    else:
                        add(acc_key(t), ("remove", "augassign", n, n.value, None, []))
                elif isinstance(t, ast.Subscript) and acc_key(t.value) is not None:
                    add(acc_key(t.value), ("add", "subscript-aug", n, t.slice, n.value, []))
            elif isinstance(n, ast.Delete):
                for t in n.targets:
                    if isinstance(t, ast.Subscript) and acc_key(t.value) is not None:
                        add(acc_key(t.value), ("remove", "del", n, t.slice, None, []))
        self._events = ev
        return ev

    # ------------------------------------------------------------------ description
    def describe(self, e: ast.AST, depth: int = 10) -> Desc:
        """Description of the collection the expression `e` (a node of the function) evaluates to."""
        d = self._describe(e, depth, set())
        return d

    def _root(self, e: ast.AST) -> Desc:
        v = f"e{next(_fresh)}"
        t = ast.Name(id=v, ctx=ast.Load())
        return Desc([Contribution(elt=t, binders=[Binder(ast.Name(id=v, ctx=ast.Store()), e, None, True)], node=e, how="root")])

    def _loops_between(self, node: ast.AST, def_stmts: list[ast.AST]) -> list[ast.AST]:
        """For / While statements around `node` that do not also enclose one of `def_stmts` (outermost first)."""
        enclosing_defs = set()
        for s in def_stmts:
            for a in ancestors(s):
                enclosing_defs.add(id(a))
        out = []
        for a in ancestors(node):
            if a is self.fi.node:
                break
            if isinstance(a, (ast.For, ast.AsyncFor, ast.While)) and id(a) not in enclosing_defs:
                out.append(a)
        return list(reversed(out))

    def _event_contribs(self, name: str, init_stmts: list[ast.AST], depth: int, busy: set) -> Desc:
        out = Desc()
        for kind, how, node, key, value, extra in self.events().get(name, []):
            loops = self._loops_between(node, init_stmts)
            if any(isinstance(l, ast.While) for l in loops):
                out.unknown.append(f"`{norm(node, 60)}` happens inside a while loop")
                continue
            binders = [Binder(l.target, l.iter, l) for l in loops]
            outer = loops[0] if loops else None
            local, ctx = self.local_conds(node, outer)
            if outer is None:
                # conditions between the initialisation and the event are local (they decide whether the element is added)
                base_ids = set()
                for s in init_stmts:
                    base_ids |= {(id(e), p) for e, p in self.fn.conds_all(s)}
                allc = self.fn.conds_all(node)
                local = [(e, p) for e, p in allc if (id(e), p) not in base_ids]
                ctx = [(e, p) for e, p in allc if (id(e), p) in base_ids]
            local = local + list(extra)
            local = self.xc(local)
            if kind == "remove":
                out.removals.append(Contribution(elt=self.x(key), binders=binders, conds=local, context=ctx, node=node, kind="remove", how=how, acc=name))
            elif kind == "add":
                out.contribs.append(Contribution(elt=self.x(key), value=self.x(value) if how in ("subscript-store", "subscript-load", "setdefault", "subscript-aug") else None, binders=binders, conds=local, context=ctx, node=node, how=how, acc=name))
            elif kind == "removemany":
                sub = self._describe(key, depth - 1, busy)
                for c in sub.contribs:
                    out.removals.append(Contribution(c.elt, None, binders + c.binders, local + c.conds, ctx, node, "remove", "remove", acc=name))
                out.unknown += sub.unknown
                if sub.removals:
                    out.unknown.append(f"`{norm(node, 60)}` removes a collection that is itself reduced")
            else:  # addmany: the elements of `key`
                sub = self._describe(key, depth - 1, busy)
                for c in sub.contribs:
                    out.contribs.append(Contribution(c.elt, c.value, binders + c.binders, local + c.conds, ctx, node, "add", how + ":" + c.how, acc=name))
                out.removals += sub.removals
                out.unknown += sub.unknown
        return out

    def _describe(self, e: ast.AST, depth: int, busy: set) -> Desc:
        fn = self.fn
        if depth <= 0:
            return Desc(unknown=[f"`{norm(e, 60)}` nested too deeply"])
        if isinstance(e, ast.Name):
            defs = fn.reaching(e.id, e)
            # an augmented assignment (acc += xs, acc -= xs) is an event on the value that reaches it, not a new value
            seen_aug: set[int] = set()
            while any(d.kind == "aug" for d in defs):
                nxt = []
                for d in defs:
                    if d.kind == "aug":
                        if id(d.stmt) not in seen_aug:
                            seen_aug.add(id(d.stmt))
                            nxt += fn.reaching_stmt(e.id, d.stmt)
                    else:
                        nxt.append(d)
                uniq = {}
                for d in nxt:
                    uniq.setdefault(d.key(), d)
                defs = list(uniq.values())
            out = Desc()
            init_stmts = [d.stmt for d in defs if d.stmt is not None and d.kind in ("assign",)]
            for d in defs:
                if d.kind == "param" or d.kind in ("for", "comp", "unpack", "with", "lambda", "free", "except", "other"):
                    out.extend(self._root(e))
                elif d.kind == "aug":
                    out.unknown.append(f"`{e.id}` is re-bound by an augmented assignment")
                elif d.kind == "assign":
                    key = ("def", id(d.stmt), e.id)
                    if key in busy:
                        continue
                    v = d.value
                    if _is_empty_value(v):
                        continue
                    if self.infeasible(d.stmt):
                        continue
                    # self-referential re-binding  acc = acc + more
                    if isinstance(v, ast.BinOp) and isinstance(v.op, (ast.Add, ast.BitOr)) and any(isinstance(x, ast.Name) and x.id == e.id for x in (v.left, v.right)):
                        other = v.right if isinstance(v.left, ast.Name) and v.left.id == e.id else v.left
                        prev = v.left if other is v.right else v.right
                        out.extend(self._describe(prev, depth - 1, busy | {key}))
                        sub = self._describe(other, depth - 1, busy | {key})
                        loops = [l for l in self._loops_between(d.stmt, []) if isinstance(l, (ast.For, ast.AsyncFor))]
                        # loops that enclose the re-binding but not the first definition act as binders
                        first = [x for x in fn.reaching(e.id, prev) if x.kind == "assign" and x.stmt is not d.stmt]
                        loops = self._loops_between(d.stmt, [x.stmt for x in first]) if first else []
                        local, ctx = self.local_conds(d.stmt, loops[0] if loops else None)
                        for c in sub.contribs:
                            out.contribs.append(Contribution(c.elt, c.value, [Binder(l.target, l.iter, l) for l in loops] + c.binders, (local if loops else []) + c.conds, ctx, d.stmt, "add", "rebind:" + c.how))
                        out.unknown += sub.unknown
                        continue
                    sub = self._describe(v, depth - 1, busy | {key})
                    ctx = self.fn.conds_all(d.stmt)
                    for c in sub.contribs:
                        if not c.context:
                            c.context = ctx
                    out.extend(sub)
            if e.id in fn.mutated or e.id in self.events():
                key = ("ev", e.id)
                if key not in busy:
                    out.extend(self._event_contribs(e.id, init_stmts, depth, busy | {key}))
            return out
        if isinstance(e, COMPS):
            binders = [Binder(g.target, g.iter, e) for g in e.generators]
            cs = self.xc([(c, True) for g in e.generators for c in g.ifs])
            if isinstance(e, ast.DictComp):
                return Desc([Contribution(self.x(e.key), self.x(e.value), binders, cs, node=e, how="comp")])
            return Desc([Contribution(self.x(e.elt), None, binders, cs, node=e, how="comp")])
        if isinstance(e, (ast.List, ast.Tuple, ast.Set)):
            out = Desc()
            for x in e.elts:
                if isinstance(x, ast.Starred):
                    out.extend(self._describe(x.value, depth - 1, busy))
                else:
                    out.contribs.append(Contribution(self.x(x), node=e, how="literal"))
            return out
        if isinstance(e, ast.Dict):
            out = Desc()
            for k, v in zip(e.keys, e.values):
                if k is None:
                    out.extend(self._describe(v, depth - 1, busy))
                else:
                    out.contribs.append(Contribution(self.x(k), self.x(v), node=e, how="literal"))
            return out
        if isinstance(e, ast.BinOp) and isinstance(e.op, (ast.Add, ast.BitOr)):
            out = self._describe(e.left, depth - 1, busy)
            out.extend(self._describe(e.right, depth - 1, busy))
            return out
        if isinstance(e, ast.BinOp) and isinstance(e.op, ast.Sub):
            out = self._describe(e.left, depth - 1, busy)
            out.removals.append(Contribution(elt=None, node=e, kind="remove", how="difference", value=e.right))
            return out
        if isinstance(e, ast.IfExp):
            a = self._describe(e.body, depth - 1, busy)
            b = self._describe(e.orelse, depth - 1, busy)
            for c in a.contribs:
                c.conds = [(self.x(e.test), True)] + c.conds
                c.nlocal += 1
            for c in b.contribs:
                c.conds = [(self.x(e.test), False)] + c.conds
                c.nlocal += 1
            a.extend(b)
            return a
        if isinstance(e, ast.Subscript) and isinstance(e.slice, ast.Constant) and isinstance(e.value, ast.Name):
            got = self._bucket(e, depth, busy)
            if got is not None:
                return got
        if isinstance(e, ast.Subscript) and isinstance(e.slice, ast.Slice) and e.slice.lower is None and e.slice.upper is None and e.slice.step is None:
            return self._describe(e.value, depth - 1, busy)
        if isinstance(e, ast.Call):
            if _call_name(e) == "zip" and len(e.args) >= 2 and not e.keywords and not any(isinstance(a_, ast.Starred) for a_ in e.args):
                # the tuples a zip yields: one fresh name per stream, bound by the zip itself (taken apart when normalised)
                names_ = [f"z{next(_fresh)}" for _ in e.args]
                tgt_ = ast.Tuple(elts=[ast.Name(id=n_, ctx=ast.Store()) for n_ in names_], ctx=ast.Store())
                return Desc([Contribution(ast.Tuple(elts=[ast.Name(id=n_, ctx=ast.Load()) for n_ in names_], ctx=ast.Load()), None, [Binder(tgt_, e, e)], [], node=e, how="zip")])
            ms = self._multiset_source(e)
            if ms is not None and ms[0] == "keys":
                return self._describe(ms[1], depth - 1, busy) if parent(ms[1]) is not None else self._describe_copy(ms[1])  # the distinct elements
            n = _call_name(e)
            if _is_empty_value(e):
                return Desc()
            if n in COPY_CALLS and len(e.args) == 1 and not isinstance(e.args[0], ast.Starred):
                return self._describe(e.args[0], depth - 1, busy)
            if n == "cast" and len(e.args) == 2:
                return self._describe(e.args[1], depth - 1, busy)
            if isinstance(e.func, ast.Attribute) and e.func.attr == "fromkeys" and isinstance(e.func.value, ast.Name) and e.func.value.id in ("dict", "OrderedDict") and len(e.args) == 1:
                return self._describe(e.args[0], depth - 1, busy)  # order-preserving removal of duplicates
            if isinstance(e.func, ast.Attribute) and e.func.attr == "fromkeys" and isinstance(e.func.value, ast.Name) and e.func.value.id in ("dict", "OrderedDict", "defaultdict") and len(e.args) == 2 and isinstance(e.args[1], ast.Constant):
                sub = self._describe(e.args[0], depth - 1, busy)
                for c in sub.contribs:
                    if c.value is None:
                        c.value = e.args[1]
                return sub
            if n == "dict" and len(e.args) == 1 and not e.keywords:
                sub = self._describe(e.args[0], depth - 1, busy)
                out = Desc(unknown=sub.unknown, removals=sub.removals)
                for c in sub.contribs:
                    if c.value is not None:
                        out.contribs.append(c)
                        continue
                    pair = c.elt
                    if isinstance(pair, (ast.Tuple, ast.List)) and len(pair.elts) == 2:
                        out.contribs.append(Contribution(pair.elts[0], pair.elts[1], c.binders, c.conds, c.context, c.node, "add", "dict:" + c.how))
                    elif c.how == "root":
                        out.contribs.append(c)
                    else:
                        out.unknown.append(f"`dict(...)` over elements `{norm(c.elt, 60)}` that are not (key, value) pairs")
                return out
            if n == "map" and len(e.args) == 2:
                v = f"e{next(_fresh)}"
                elt = self.apply(e.args[0], [ast.Name(id=v, ctx=ast.Load())])
                if elt is not None:
                    return Desc([Contribution(elt, None, [Binder(ast.Name(id=v, ctx=ast.Store()), e.args[1], e)], [], node=e, how="map")])
                return Desc(unknown=[f"`{norm(e, 60)}`: mapped callable not recognised"])
            if (n == "starmap" or fn.lib_name(e.func) == "itertools.starmap") and len(e.args) == 2:
                src = e.args[1]
                if isinstance(src, ast.Name) and parent(src) is not None:
                    x_ = fn.expand(src)
                    src = x_ if isinstance(x_, ast.Call) else src
                while isinstance(src, ast.Call) and _call_name(src) in ("list", "tuple", "iter") and len(src.args) == 1 and not src.keywords:
                    src = src.args[0]  # list(product(...)) kept in a local
                if isinstance(src, ast.Call) and (_call_name(src) == "product" or fn.lib_name(src.func) == "itertools.product") and src.args and not src.keywords:
                    names = [f"e{next(_fresh)}" for _ in src.args]
                    elt = self.apply(e.args[0], [ast.Name(id=n_, ctx=ast.Load()) for n_ in names])
                    if elt is not None:
                        return Desc([Contribution(elt, None, [Binder(ast.Name(id=n_, ctx=ast.Store()), s_, e) for n_, s_ in zip(names, src.args)], [], node=e, how="starmap")])
                return Desc(unknown=[f"`{norm(e, 60)}`: starmap over something else than product(...)"])
            if n == "filter" and len(e.args) == 2:
                v = f"e{next(_fresh)}"
                ref = ast.Name(id=v, ctx=ast.Load())
                test = ref if (isinstance(e.args[0], ast.Constant) and e.args[0].value is None) else self.apply(e.args[0], [ref])
                if test is not None:
                    return Desc([Contribution(ref, None, [Binder(ast.Name(id=v, ctx=ast.Store()), e.args[1], e)], [(test, True)], node=e, how="filter")])
                return Desc(unknown=[f"`{norm(e, 60)}`: filter predicate not recognised"])
            if n == "chain" or fn.lib_name(e.func) in ("itertools.chain",):
                out = Desc()
                for a in e.args:
                    out.extend(self._describe(a.value if isinstance(a, ast.Starred) else a, depth - 1, busy))
                return out
            if isinstance(e.func, ast.Attribute) and e.func.attr in ("copy",) and not e.args:
                return self._describe(e.func.value, depth - 1, busy)
            if isinstance(e.func, ast.Attribute) and e.func.attr in ("union",):
                out = self._describe(e.func.value, depth - 1, busy)
                for a in e.args:
                    out.extend(self._describe(a, depth - 1, busy))
                return out
            if isinstance(e.func, ast.Attribute) and e.func.attr in ("difference",) and e.args:
                out = self._describe(e.func.value, depth - 1, busy)
                out.removals.append(Contribution(elt=None, node=e, kind="remove", how="difference", value=e.args[0]))
                return out
            if isinstance(e.func, ast.Attribute) and e.func.attr in ("intersection",):
                out = self._describe(e.func.value, depth - 1, busy)
                out.removals.append(Contribution(elt=None, node=e, kind="remove", how="intersection", value=e.args[0] if e.args else None))
                return out
            # generator helper: its `yield`s are the elements
            g = self._describe_generator(e, depth)
            if g is not None:
                return g
            # straight-line helper returning a collection expression
            if parent(e) is not None:
                s = fn.summarise(e, stmt_of(e), 6, set())
                if s is not None and isinstance(s, (*COMPS, ast.List, ast.Tuple, ast.Set, ast.Dict, ast.IfExp, ast.BinOp, ast.Name)):
                    return self._describe_copy(s)
        if isinstance(e, ast.Attribute):
            rec = self._record_field(e, depth, busy)
            if rec is not None:
                return rec
            r = self.resolve_attr(e)
            if r is not None:
                return self._describe_copy(r)
        return self._root(e)

    def _bucket(self, e: ast.Subscript, depth: int, busy: set) -> Desc | None:
        """`buckets[c]` where `buckets` is a fixed set of initially empty containers chosen by an index expression when filled
        (`buckets = ([], [])` / `{True: [], False: []}`;  `buckets[1 if x.flag else 0].append(x)`, `buckets[x.flag].append(x)`):
        the elements added under an index that equals the constant `c`."""
        fn = self.fn
        name = e.value.id
        defs = fn.reaching(name, e.value)
        if len(defs) != 1 or defs[0].kind != "assign" or defs[0].value is None:
            return None
        v = defs[0].value
        if isinstance(v, (ast.Tuple, ast.List)) and v.elts and all(_is_empty_value(x) for x in v.elts):
            slots = list(range(len(v.elts)))
        elif isinstance(v, ast.Dict) and v.keys and all(isinstance(k, ast.Constant) for k in v.keys) and all(_is_empty_value(x) for x in v.values):
            slots = [k.value for k in v.keys]
        else:
            return None
        c = e.slice.value
        if isinstance(v, (ast.Tuple, ast.List)) and isinstance(c, int) and c < 0:
            c += len(slots)
        if not any(c == k for k in slots):
            return None
        evs = self.events().get(name, [])
        if not evs or any(not (ev[0] == "add" and ev[1] == "subscript-load") for ev in evs):
            return None
        two = len(slots) == 2 and all(any(k == b for k in slots) for b in (0, 1))  # indexable by a bool
        raw = self._event_contribs(name, [defs[0].stmt], depth, busy | {("ev", name)})
        if raw.unknown or raw.removals:
            return None
        out = Desc()
        for ci in raw.contribs:
            key = ci.elt
            while isinstance(key, ast.Call) and isinstance(key.func, ast.Name) and key.func.id in ("int", "bool") and len(key.args) == 1 and two:
                key = key.args[0]
            extra: list | None
            if isinstance(key, ast.Constant):
                extra = [] if key.value == c else None
            elif isinstance(key, ast.IfExp) and isinstance(key.body, ast.Constant) and isinstance(key.orelse, ast.Constant):
                a, b = key.body.value == c, key.orelse.value == c
                extra = [] if a and b else [(key.test, True)] if a else [(key.test, False)] if b else None
            elif two and key is not None:
                t = fn.type_of(key)
                ms = list(t[1]) if t[0] == "union" else [t]
                if isinstance(key, (ast.Compare, ast.BoolOp)) or (isinstance(key, ast.UnaryOp) and isinstance(key.op, ast.Not)) or (ms and all(m[0] == "b" and m[1] == "bool" for m in ms)):
                    extra = [(key, bool(c))]
                else:
                    return None
            else:
                return None
            if extra is None:
                continue
            node = ci.node
            many = isinstance(node, ast.Call) and isinstance(node.func, ast.Attribute) and node.func.attr in ADD_MANY
            if many:
                sub = self._describe_copy(ci.value) if ci.value is not None and parent(ci.value) is None else self._describe(ci.value, depth - 1, busy)
                if sub.unknown or sub.removals:
                    return None
                for x in sub.contribs:
                    out.contribs.append(Contribution(x.elt, x.value, ci.binders + x.binders, ci.conds + extra + x.conds, ci.context, node, "add", "bucket:" + x.how, acc=name))
            else:
                out.contribs.append(Contribution(ci.value, None, ci.binders, ci.conds + extra, ci.context, node, "add", "bucket", acc=name))
        return out

    def _record_field(self, e: ast.Attribute, depth: int, busy: set) -> Desc | None:
        """`obj.field` where obj is a local record object whose field is changed in place (`obj.field.add(x)`): what the
        constructor put there plus the events on the field."""
        k_ = acc_key(e)
        if k_ is None or k_ not in self.events() or ("ev", k_) in busy:
            return None
        base = e.value
        tb = self.tree(base) if parent(base) is None else base
        if tb is None:
            return None
        defs = self.fn.reaching(tb.id, tb)
        if len(defs) != 1 or defs[0].kind != "assign" or defs[0].value is None:
            return None
        made = self.fn._ex(defs[0].value, defs[0].stmt, 6, set())
        if not isinstance(made, ast.Call):
            return None
        init = self.fn.ctor_field(made, e.attr)
        if init is None:
            return None
        out = Desc() if _is_empty_value(init) else self._describe_copy(self.fn.simplify(init))
        out.extend(self._event_contribs(k_, [defs[0].stmt], depth, busy | {("ev", k_)}))
        return out

    def _describe_generator(self, call: ast.Call, depth: int) -> Desc | None:
        """`helper(args)` where helper is a private / local generator function: one contribution per `yield`, expressed over
        the caller's arguments."""
        fn = self.fn
        callee = fn.callee(call)
        if callee is None or isinstance(callee.node, ast.Lambda) or depth <= 1:
            return None
        ys = [n for n in own_nodes(callee.node) if isinstance(n, (ast.Yield, ast.YieldFrom))]
        if not ys:
            return None
        private = callee.name.startswith("_") and not callee.name.startswith("__")
        if not (private or callee.outer is not None or callee.module is self.fi.module):
            return None
        a = callee.node.args
        if a.vararg or a.kwarg or any(isinstance(x, ast.Starred) for x in call.args) or any(k.arg is None for k in call.keywords):
            return None
        pos = [p.arg for p in [*a.posonlyargs, *a.args]]
        params = pos + [p.arg for p in a.kwonlyargs]
        bind: dict[str, ast.expr] = {}
        if callee.cls is not None and callee.outer is None and not callee.is_staticmethod and pos:
            first = pos.pop(0)
            bind[first] = call.func.value if isinstance(call.func, ast.Attribute) and not callee.is_classmethod else ast.Name(id=callee.cls.name, ctx=ast.Load())
        if len(call.args) > len(pos):
            return None
        for p_, x in zip(pos, call.args):
            bind[p_] = x
        for k in call.keywords:
            if k.arg not in params:
                return None
            bind[k.arg] = k.value
        pos_all = [*a.posonlyargs, *a.args]
        for p_, d_ in zip(pos_all[len(pos_all) - len(a.defaults):], a.defaults):
            bind.setdefault(p_.arg, d_)
        if any(p_ not in bind for p_ in params):
            return None
        sub_fn = Fn(fn.repo, callee)
        sub = Collections(sub_fn)
        inner = Desc()
        for y in ys:
            loops = sub._loops_between(y, [])
            if any(isinstance(l, ast.While) for l in loops):
                return None
            local, ctx = sub.local_conds(y, loops[0] if loops else None)
            if not loops:
                local, ctx = sub_fn.conds_all(y), []
            if isinstance(y, ast.YieldFrom):
                d0 = sub._describe(y.value, depth - 1, set())
                for c in d0.contribs:
                    inner.contribs.append(Contribution(c.elt, c.value, [Binder(l.target, l.iter, l) for l in loops] + c.binders, sub.xc(local) + c.conds, ctx, y, "add", "yield:" + c.how))
                inner.unknown += d0.unknown
                inner.removals += d0.removals
            elif y.value is not None:
                inner.contribs.append(Contribution(sub.x(y.value), None, [Binder(l.target, l.iter, l) for l in loops], sub.xc(local), ctx, y, "add", "yield"))
        inner = sub.normalise(inner)
        if inner.removals:
            return None
        out = Desc(unknown=list(inner.unknown))
        for c in inner.contribs:
            # fresh names for the helper's binders; parameters become the caller's argument expressions
            ren: dict[str, ast.expr] = {}
            binders = []
            for b in c.binders:
                t = copy_node(b.target, callee)
                for nm in ast.walk(t):
                    if isinstance(nm, ast.Name):
                        fresh = f"{nm.id.split('__')[0]}__b{next(_fresh)}"
                        ren[nm.id] = ast.Name(id=fresh, ctx=ast.Load())
                        nm.id = fresh
                src = b.source
                if isinstance(src, ast.Name) and src.id in bind and src.id not in ren:
                    src2 = bind[src.id]  # the caller's own expression: composed further by the caller
                else:
                    src2 = substitute(copy_node(src, callee), {**{k: copy_node(v, self.fi) for k, v in bind.items()}, **ren})
                binders.append(Binder(t, src2, b.loop if b.loop is not None else call, False, call))
            env = {**{k: (copy_node(v, self.fi) if parent(v) is not None or not hasattr(v, "_orig") else v) for k, v in bind.items()}, **ren}

            def sb(x):
                return substitute(copy_node(x, callee), env) if x is not None else None

            out.contribs.append(Contribution(sb(c.elt), sb(c.value), binders, [(sb(x), p_) for x, p_ in c.conds], [], call, "add", "generator"))
        return out

    def resolve_attr(self, e: ast.Attribute) -> ast.AST | None:
        """`obj.field` where obj is a local record object (built by a constructor / factory of a small class): the expression the
        field was given; None if it cannot be looked through."""
        base = e.value
        xb = None
        if isinstance(base, ast.Name):
            tb = self.tree(base) or (base if hasattr(base, "_at") else None)
            if tb is not None and tb.id not in self.fn.mutated:
                xb = self.fn.expand(tb)
                if isinstance(xb, ast.Name):
                    xb = None
        elif isinstance(base, ast.Call):
            xb = base
        if xb is None:
            return None
        new = ast.Attribute(value=xb, attr=e.attr, ctx=ast.Load())
        r = self.fn.simplify(new)
        if isinstance(r, ast.Attribute) and r.attr == e.attr and r.value is xb:
            return None
        return r

    def _describe_copy(self, e: ast.AST) -> Desc:
        """Description of a detached (expanded / summarised) collection expression."""
        t = self.tree(e)
        if t is not None:
            return self._describe(t, 8, set())
        if isinstance(e, ast.Name) and hasattr(e, "_at"):
            return self._describe(e, 8, set())  # free variable of a nested function, seen from its definition
        if isinstance(e, ast.Attribute):
            rec = self._record_field(e, 8, set())
            if rec is not None:
                return rec
            r = self.resolve_attr(e)
            if r is not None:
                return self._describe_copy(r)
        if isinstance(e, COMPS):
            ctx, orig = self.fn.ctx_of(e)
            loop = orig if ctx is self.fi and isinstance(orig, COMPS) else e  # identity of the comprehension it was copied from
            binders = [Binder(g.target, g.iter, loop) for g in e.generators]
            cs = [(c, True) for g in e.generators for c in g.ifs]
            if isinstance(e, ast.DictComp):
                return Desc([Contribution(e.key, e.value, binders, cs, node=e, how="comp")])
            return Desc([Contribution(e.elt, None, binders, cs, node=e, how="comp")])
        if isinstance(e, (ast.List, ast.Tuple, ast.Set)):
            out = Desc()
            for x in e.elts:
                if isinstance(x, ast.Starred):
                    out.extend(self._describe_copy(x.value))
                else:
                    out.contribs.append(Contribution(x, node=e, how="literal"))
            return out
        if isinstance(e, ast.BinOp) and isinstance(e.op, (ast.Add, ast.BitOr)):
            out = self._describe_copy(e.left)
            out.extend(self._describe_copy(e.right))
            return out
        if isinstance(e, ast.IfExp):
            a = self._describe_copy(e.body)
            b = self._describe_copy(e.orelse)
            for c in a.contribs:
                c.conds = [(e.test, True)] + c.conds
                c.nlocal += 1
            for c in b.contribs:
                c.conds = [(e.test, False)] + c.conds
                c.nlocal += 1
            a.extend(b)
            return a
        if isinstance(e, ast.Call) and _call_name(e) in COPY_CALLS and len(e.args) == 1:
            return self._describe_copy(e.args[0])
        if isinstance(e, ast.Call) and _is_empty_value(e):
            return Desc()
        if isinstance(e, ast.Call) and _call_name(e) in ("map", "filter") and len(e.args) == 2 and not e.keywords:
            # map / filter whose callable mentions an outer loop variable (the expression is a substituted copy)
            v = f"e{next(_fresh)}"
            ref = ast.Name(id=v, ctx=ast.Load())
            if _call_name(e) == "map":
                elt = self.apply(e.args[0], [ref])
                if elt is not None:
                    return Desc([Contribution(elt, None, [Binder(ast.Name(id=v, ctx=ast.Store()), e.args[1], e)], [], node=e, how="map")])
                return Desc(unknown=[f"`{norm(e, 60)}`: mapped callable not recognised"])
            test = ref if (isinstance(e.args[0], ast.Constant) and e.args[0].value is None) else self.apply(e.args[0], [ref])
            if test is not None:
                return Desc([Contribution(ref, None, [Binder(ast.Name(id=v, ctx=ast.Store()), e.args[1], e)], [(test, True)], node=e, how="filter")])
            return Desc(unknown=[f"`{norm(e, 60)}`: filter predicate not recognised"])
        return self._root(e)

    # ------------------------------------------------------------------ applying callables
    def apply(self, f: ast.AST, args: list[ast.expr]) -> ast.expr | None:
        """`f(*args)` as an expression: lambdas, local names bound once to a lambda / function / class, straight-line helpers."""
        fn = self.fn
        if isinstance(f, ast.Lambda):
            ps = [a.arg for a in [*f.args.posonlyargs, *f.args.args]]
            if len(ps) < len(args) or f.args.vararg or f.args.kwarg:
                return None
            env = dict(zip(ps, args))
            for p, d in zip(ps[len(ps) - len(f.args.defaults):], f.args.defaults):
                env.setdefault(p, copy_node(d, fn.ctx_of(f)[0]))
            if any(p not in env for p in ps):
                return None
            out = substitute(copy_node(f.body, fn.ctx_of(f)[0]), env)
            if parent(f) is None:
                # a lambda inside a substituted copy (its body mentions an outer loop variable): helpers it calls stand for what
                # they return, as they do in conditions of the function's own tree
                try:
                    out = fn.expand(out)
                except Exception:  # noqa: BLE001
                    pass
            return out
        if isinstance(f, ast.Name) and parent(f) is not None:
            defs = fn.reaching(f.id, f)
            if len(defs) == 1 and defs[0].kind == "assign" and defs[0].value is not None and isinstance(defs[0].value, (ast.Lambda, ast.Name, ast.Attribute)):
                return self.apply(defs[0].value, args)
        if isinstance(f, (ast.Name, ast.Attribute)):
            call = ast.Call(func=f, args=list(args), keywords=[])
            call._orig = (fn.ctx_of(f)[0], ast.Call(func=fn.ctx_of(f)[1], args=[], keywords=[]))  # type: ignore[attr-defined]
            if isinstance(f, ast.Name) and fn.nested_def(f.id) is not None:
                s = fn.summarise(call, None, 6, set())
                return s if s is not None else call
            t = fn.type_of(f)
            for m in (t[1] if t[0] == "union" else [t]):
                if m[0] == "fn" and not isinstance(m[1].node, ast.Lambda):
                    s = fn.summarise(call, None, 6, set())
                    return s if s is not None else call
                if m[0] == "fn" and isinstance(m[1].node, ast.Lambda):
                    return self.apply(m[1].node, args)
                if m[0] == "type":
                    return call
            return call
        return None

    def _summarise_fn(self, callee, args: list[ast.expr]) -> ast.expr | None:
        from .c11_lib import strip_docstring

        body = strip_docstring(callee.node.body)
        if len(body) != 1 or not isinstance(body[0], ast.Return) or body[0].value is None:
            return None
        a = callee.node.args
        ps = [p.arg for p in [*a.posonlyargs, *a.args]]
        if callee.cls is not None and callee.outer is None and not callee.is_staticmethod:
            ps = ps[1:]
        if len(ps) != len(args) or a.vararg or a.kwarg or a.kwonlyargs:
            return None
        return substitute(copy_node(body[0].value, callee), dict(zip(ps, args)))

    def infeasible(self, stmt: ast.AST) -> bool:
        """The statement sits under `isinstance(x, str)` although x is visibly a list / comprehension (or vice versa)."""
        for e, pol in flatten(self.fn.conds_all(stmt)):
            if isinstance(e, ast.Call) and isinstance(e.func, ast.Name) and e.func.id == "isinstance" and len(e.args) == 2 and isinstance(e.args[1], ast.Name) and e.args[1].id == "str":
                x = self.x(e.args[0])
                is_coll = isinstance(x, (*COMPS, ast.List, ast.Tuple, ast.Set, ast.Dict))
                is_str = isinstance(x, (ast.JoinedStr,)) or (isinstance(x, ast.Constant) and isinstance(x.value, str))
                if (pol and is_coll) or (not pol and is_str):
                    return True
        return False

    def tree(self, e: ast.AST) -> ast.AST | None:
        """The node of the function's own tree that `e` is (or is an unchanged copy of a Name / copy-call of); None if detached."""
        if parent(e) is not None:
            return e
        ctx, orig = self.fn.ctx_of(e)
        if ctx is self.fi and parent(orig) is not None:
            if isinstance(e, ast.Name) and isinstance(orig, ast.Name) and e.id == orig.id:
                return orig
            if isinstance(e, ast.Call) and isinstance(orig, ast.Call) and ast.unparse(e) == ast.unparse(orig) and not getattr(e, "_alias", ""):
                # unchanged text: the copy denotes the same value if nothing inside was substituted by a different expression
                return orig
        return None

    # ------------------------------------------------------------------ existential conditions
    def exists_intro(self, d: Desc) -> Desc:
        """`if <local collection>:` (truthiness of {e | binders, conds}) inside a contribution becomes these binders and
        conditions: "added if some element exists" and "added for every element" describe the same set."""
        out = Desc(removals=[], unknown=list(d.unknown))
        for src, dst in ((d.contribs, out.contribs), (d.removals, out.removals)):
            for c in src:
                dst += self._exists(c, out)
        return out

    def _exists(self, c: Contribution, out: Desc) -> list[Contribution]:
        lits = flatten(c.conds)
        for i, (lit, pol) in enumerate(lits):
            if not pol:
                continue
            sub = None
            if isinstance(lit, (*COMPS, ast.Name)):
                sub = self._describe_copy(lit)
            if sub is None or sub.unknown or sub.removals or not sub.contribs or any(x.how == "root" for x in sub.contribs):
                continue
            rest = lits[:i] + lits[i + 1:]
            have = {id(b.loop) for b in c.binders if b.loop is not None} | {v for b in c.binders for v in b.via}
            if all(x.binders and all(id(b.loop) in have for b in x.binders) for x in sub.contribs):
                # the contribution already ranges over the elements of this very collection: non-emptiness is implied
                return self._exists(Contribution(c.elt, c.value, c.binders, rest, c.context, c.node, c.kind, c.how, c.acc, -1, dict(c.ren)), out)
            res = []
            env = {k: ast.Name(id=v, ctx=ast.Load()) for k, v in c.ren.items()}

            def rn(e_):
                # the literal was written where the function's own loop variables were in scope; this contribution knows
                # some of them under the names they got when sources were composed
                if e_ is None or not env or not any(isinstance(n_, ast.Name) and n_.id in env for n_ in ast.walk(e_)):
                    return e_
                return substitute(copy_node(e_, self.fi), env)

            for x in sub.contribs:
                xb = [Binder(b.target, rn(b.source) if not (parent(b.source) is not None) or any(isinstance(n_, ast.Name) and n_.id in env for n_ in ast.walk(b.source)) else b.source, b.loop, b.root, b.site) for b in x.binders]
                nc = Contribution(c.elt, c.value, c.binders + xb, rest + [(rn(e_), p_) for e_, p_ in x.conds], c.context, c.node, c.kind, c.how, c.acc, -1, dict(c.ren))
                res += self._exists(nc, out)
            return res
        return [c]

    # ------------------------------------------------------------------ normalisation
    def normalise(self, d: Desc, depth: int = 8) -> Desc:
        """Composes locally built sources away: afterwards every binder ranges over a root (also for removal events)."""
        out = Desc(unknown=list(d.unknown), mispaired=list(d.mispaired))
        self._normalise_into(list(d.contribs), out, out.contribs, depth)
        rem = Desc()
        self._normalise_into([r for r in d.removals if r.binders], rem, rem.contribs, depth)
        out.removals = [r for r in d.removals if not r.binders] + rem.contribs + out.removals + rem.removals
        out.unknown += rem.unknown
        out.mispaired += rem.mispaired
        return out

    def _normalise_into(self, work: list, out: Desc, sink: list, depth: int) -> None:
        guard = 0
        while work:
            guard += 1
            if guard > 400:
                out.unknown.append("normalisation did not terminate")
                break
            c = work.pop(0)
            idx = next((i for i, b in enumerate(c.binders) if not b.root), None)
            if idx is None:
                sink.append(c)
                continue
            b = c.binders[idx]
            src = b.source
            # a local that is bound once to product(...) / enumerate(...) / a copy call stands for that call
            if isinstance(src, ast.Name) and (parent(src) is not None or hasattr(src, "_at")):
                ds = self.fn.reaching(src.id, src)
                dv = ds[0].value if len(ds) == 1 and ds[0].kind == "assign" else None
                while isinstance(dv, ast.Call) and _call_name(dv) in COPY_CALLS and len(dv.args) == 1:
                    dv = dv.args[0]  # list(product(...)), tuple(zip(...))
                if isinstance(dv, ast.Call) and src.id not in self.fn.mutated and (_call_name(dv) in ("product", "enumerate", "zip") or self.fn.lib_name(dv.func) == "itertools.product"):
                    src = dv
                    b = Binder(b.target, src, b.loop, b.root, b.site, b.via)
                    c.binders[idx] = b
            # distinct elements with their multiplicity: Counter(X) / dict.fromkeys(X) iterated directly, by .keys() or by
            # .items() - every element of X is visited (once); the count is an opaque positive number
            ca = self._multiset_source(src)
            if ca is not None:
                what, inner = ca
                if what == "items" and isinstance(b.target, (ast.Tuple, ast.List)) and len(b.target.elts) == 2:
                    c.binders[idx] = Binder(b.target.elts[0], inner, b.loop, False, b.site, b.via)
                    work.insert(0, c)
                    continue
                if what == "keys":
                    c.binders[idx] = Binder(b.target, inner, b.loop, False, b.site, b.via)
                    work.insert(0, c)
                    continue
            # wrappers around the source
            if isinstance(src, ast.Call) and _call_name(src) in COPY_CALLS and len(src.args) == 1:
                c.binders[idx] = Binder(b.target, src.args[0], b.loop, False, b.site, b.via)
                work.insert(0, c)
                continue
            if isinstance(src, ast.Call) and (_call_name(src) == "product" or self.fn.lib_name(src.func) == "itertools.product") and isinstance(b.target, (ast.Tuple, ast.List)) and len(b.target.elts) == len(src.args) and not src.keywords:
                c.binders[idx: idx + 1] = [Binder(t, s, b.loop, False, b.site, b.via) for t, s in zip(b.target.elts, src.args)]
                work.insert(0, c)
                continue
            if isinstance(src, ast.Call) and (_call_name(src) == "product" or self.fn.lib_name(src.func) == "itertools.product") and isinstance(b.target, ast.Name) and src.args and not src.keywords and not any(isinstance(x, ast.Starred) for x in src.args):
                # for pair in product(A, B):  pair stands for (a, b)
                names = [f"{b.target.id}_{k}__b{next(_fresh)}" for k in range(len(src.args))]
                tup = ast.Tuple(elts=[ast.Name(id=n_, ctx=ast.Load()) for n_ in names], ctx=ast.Load())
                env = {b.target.id: tup}

                def sbp(x):
                    return self.fn.simplify(splice_starred(substitute(copy_node(x, self.fi), env))) if x is not None else None

                nb = [Binder(ast.Name(id=n_, ctx=ast.Store()), s_, b.loop, False, b.site) for n_, s_ in zip(names, src.args)]
                later = [Binder(bb.target, sbp(bb.source) if any(isinstance(x, ast.Name) and x.id in env for x in ast.walk(bb.source)) else bb.source, bb.loop, bb.root, bb.site) for bb in c.binders[idx + 1:]]
                nc = Contribution(sbp(c.elt), sbp(c.value), c.binders[:idx] + nb + later, [(sbp(x), p_) for x, p_ in c.conds], c.context, c.node, c.kind, c.how, c.acc, c.nlocal, dict(c.ren))
                work.insert(0, nc)
                continue
            if isinstance(src, ast.Call) and _call_name(src) == "zip" and isinstance(b.target, (ast.Tuple, ast.List)) and len(b.target.elts) == len(src.args) >= 2 and not src.keywords and all(isinstance(t_, ast.Name) or (isinstance(t_, (ast.Tuple, ast.List)) and all(isinstance(x_, ast.Name) for x_ in t_.elts)) for t_ in b.target.elts):
                # streams over the same sources, consumed in lockstep:  zip((f(k) for k in K), (g(k) for k in K))  ==  ((f(k), g(k)) for k in K)
                # positional pairing needs more than equal element sets: every stream must walk the very same sequence in the
                # same order (the same unchanged local / expression, through order-preserving wrappers only)
                bases = [self._stream_base(a_) for a_ in src.args]
                if any(x_[0] == "reordered" for x_ in bases) and len({x_[1] for x_ in bases}) == 1:
                    ro = next(x_ for x_ in bases if x_[0] == "reordered")
                    out.mispaired.append(f"`{norm(src, 70)}` pairs elements by position, but one side walks `{ro[2]}`, which is re-ordered or filtered, and the other `{ro[1]}` as it is")
                    continue
                if len({(x_[0], x_[1]) for x_ in bases}) != 1 or bases[0][0] != "same":
                    out.unknown.append(f"`{norm(src, 60)}`: the zipped streams are not recognised as walking the same sequence in the same order")
                    continue
                subs = [self.normalise(self._stream_desc(a_), depth - 1) for a_ in src.args]
                ok_ = all(len(d_.contribs) == 1 and not d_.unknown and not d_.removals and not d_.contribs[0].conds and d_.contribs[0].value is None for d_ in subs)
                if ok_:
                    first = subs[0].contribs[0]
                    for d_ in subs[1:]:
                        c2 = d_.contribs[0]
                        if len(c2.binders) != len(first.binders) or any(not (b1.root and b2.root and norm(b1.source) == norm(b2.source) and len(b1.names) == len(b2.names) >= 1) for b1, b2 in zip(first.binders, c2.binders)):
                            ok_ = False
                if ok_:
                    env = {}
                    for t_, d_ in zip(b.target.elts, subs):
                        c2 = d_.contribs[0]
                        ren2 = {n2: ast.Name(id=n1, ctx=ast.Load()) for b1, b2 in zip(first.binders, c2.binders) for n1, n2 in zip(b1.names, b2.names)}
                        val_ = substitute(copy_node(c2.elt, self.fi), ren2)
                        if isinstance(t_, ast.Name):
                            env[t_.id] = val_
                        elif isinstance(val_, (ast.Tuple, ast.List)) and len(val_.elts) == len(t_.elts):
                            for x_, v_ in zip(t_.elts, val_.elts):
                                env[x_.id] = v_
                        else:
                            for k_, x_ in enumerate(t_.elts):
                                env[x_.id] = ast.Subscript(value=val_, slice=ast.Constant(value=k_), ctx=ast.Load())

                    def sbz(x):
                        return self.fn.simplify(splice_starred(substitute(copy_node(x, self.fi), env))) if x is not None else None

                    nb = [Binder(bb.target, bb.source, b.loop, True, b.site, bb.via + b.via) for bb in first.binders]
                    later = [Binder(bb.target, sbz(bb.source) if any(isinstance(x, ast.Name) and x.id in env for x in ast.walk(bb.source)) else bb.source, bb.loop, bb.root, bb.site, bb.via) for bb in c.binders[idx + 1:]]
                    work.insert(0, Contribution(sbz(c.elt), sbz(c.value), c.binders[:idx] + nb + later, [(sbz(x), p_) for x, p_ in c.conds], c.context, c.node, c.kind, c.how, c.acc, c.nlocal, dict(c.ren)))
                    continue
                out.unknown.append(f"`{norm(src, 60)}`: the zipped streams are not recognised as running over the same elements in lockstep")
                continue
            if isinstance(src, ast.Call) and _call_name(src) == "enumerate" and isinstance(b.target, (ast.Tuple, ast.List)) and len(b.target.elts) == 2 and src.args:
                c.binders[idx] = Binder(b.target.elts[1], src.args[0], b.loop, False, b.site, b.via)
                work.insert(0, c)
                continue
            sub = self._describe_copy(src)
            if c.ren:
                # the source was built where the function's own loop variables were in scope; this contribution already knows
                # some of them under fresh names
                for ci in sub.contribs:
                    own = {n_ for ib in ci.binders for n_ in ib.names}
                    env_r = {k: ast.Name(id=v, ctx=ast.Load()) for k, v in c.ren.items() if k not in own}
                    if not env_r or ci.how == "root":
                        continue

                    def rn(e_, env_r=env_r):
                        if e_ is None or not any(isinstance(n_, ast.Name) and n_.id in env_r for n_ in ast.walk(e_)):
                            return e_
                        return substitute(copy_node(e_, self.fi), env_r)

                    ci.elt, ci.value = rn(ci.elt), rn(ci.value)
                    ci.conds = [(rn(e_), p_) for e_, p_ in ci.conds]
                    for ib in ci.binders:
                        if any(isinstance(n_, ast.Name) and n_.id in env_r for n_ in ast.walk(ib.source)):
                            ib.source = rn(ib.source)
            if sub.unknown or sub.removals:
                out.unknown += sub.unknown
                out.removals += sub.removals
            if len(sub.contribs) == 1 and sub.contribs[0].how == "root":
                # the source is a root itself
                c.binders[idx] = Binder(b.target, sub.contribs[0].binders[0].source, b.loop, True, b.site, b.via)
                work.insert(0, c)
                continue
            for ci in sub.contribs:
                if ci.how == "root":
                    rb = ci.binders[0]
                    nc = Contribution(c.elt, c.value, c.binders[:idx] + [Binder(b.target, rb.source, b.loop, True, b.site, b.via)] + c.binders[idx + 1:], list(c.conds), c.context, c.node, c.kind, c.how, c.acc, c.nlocal, dict(c.ren))
                    work.insert(0, nc)
                    continue
                env = self._match_target(b.target, ci)
                if env is None:
                    out.unknown.append(f"cannot bind `{norm(b.target)}` to the elements `{norm(ci.elt, 60) if ci.elt is not None else '?'}` of `{norm(src, 60)}`")
                    continue
                # alpha-rename the inner binders so that they cannot capture names of the outer contribution
                ren: dict[str, ast.expr] = {}
                inner_binders = []
                for ib in ci.binders:
                    tnew = copy_node(ib.target, self.fi)
                    for nm in ast.walk(tnew):
                        if isinstance(nm, ast.Name):
                            fresh = f"{nm.id.split('__')[0]}__b{next(_fresh)}"
                            ren[nm.id] = ast.Name(id=fresh, ctx=ast.Load())
                            nm.id = fresh
                    inner_binders.append(Binder(tnew, ib.source, ib.loop, ib.root, ib.site or b.site, ib.via + b.via + ((id(b.loop),) if b.loop is not None else ())))
                # sources of later inner binders may mention earlier inner binder names
                for k, ib in enumerate(inner_binders):
                    if k and any(isinstance(x, ast.Name) and x.id in ren for x in ast.walk(ib.source)):
                        ib.source = substitute(copy_node(ib.source, self.fi), ren)
                env = {k: substitute(copy_node(v, self.fi), ren) for k, v in env.items()}
                inner_conds = [(substitute(copy_node(x, self.fi), ren), p) for x, p in ci.conds]

                def sb(x):
                    return self.fn.simplify(splice_starred(substitute(copy_node(x, self.fi), env))) if x is not None else None

                nc_ren = {**c.ren, **ci.ren, **{k: v.id for k, v in ren.items()}}
                nc = Contribution(
                    sb(c.elt),
                    sb(c.value),
                    c.binders[:idx] + inner_binders + [Binder(bb.target, sb(bb.source) if not bb.root else bb.source, bb.loop, bb.root, bb.site, bb.via) for bb in c.binders[idx + 1:]],
                    inner_conds + [(sb(x), p) for x, p in c.conds],
                    list(c.context) + [x for x in ci.context if not any(x[0] is y[0] and x[1] == y[1] for y in c.context)],
                    c.node,
                    c.kind,
                    c.how,
                    c.acc,
                    c.nlocal,
                    nc_ren,
                )
                work.insert(0, nc)

    def _stream_base(self, a: ast.AST, hops: int = 0) -> tuple:
        """("same", key) - the sequence object a zipped stream walks, through order-preserving wrappers (map / starmap / a
        comprehension without `if` / list / tuple / iter); ("reordered", key, text) - walked through sorted / reversed / set /
        filter / a comprehension with `if`; ("other", text)."""
        fn = self.fn
        if isinstance(a, ast.Name):
            if a.id in fn.mutated:
                return ("other", a.id + " (changed in place)")
            ds = fn.reaching(a.id, a) if (parent(a) is not None or hasattr(a, "_at")) else []
            if len(ds) == 1 and ds[0].kind == "assign" and hops < 3:
                v = ds[0].value
                if isinstance(v, (ast.GeneratorExp, ast.ListComp)) or (isinstance(v, ast.Call) and (_call_name(v) in ("map", "filter", "sorted", "reversed", "starmap") or fn.lib_name(v.func) in ("itertools.starmap",))):
                    return self._stream_base(v, hops + 1)  # a lazily / eagerly derived stream kept in a local
            return ("same", a.id)
        if isinstance(a, ast.Call) and not a.keywords:
            n = _call_name(a)
            if n in ("map",) and len(a.args) == 2:
                return self._stream_base(a.args[1], hops)
            if (n == "starmap" or fn.lib_name(a.func) == "itertools.starmap") and len(a.args) == 2:
                return self._stream_base(a.args[1], hops)
            if n in ("list", "tuple", "iter") and len(a.args) == 1:
                return self._stream_base(a.args[0], hops)
            if n in ("sorted", "reversed", "set", "frozenset") and len(a.args) >= 1 or (n == "filter" and len(a.args) == 2):
                inner = self._stream_base(a.args[-1] if n == "filter" else a.args[0], hops)
                return ("reordered", inner[1], norm(a, 50)) if inner[0] in ("same", "reordered") else inner
        if isinstance(a, ast.Call) and _call_name(a) == "sorted" and a.args:
            inner = self._stream_base(a.args[0], hops)
            return ("reordered", inner[1], norm(a, 50)) if inner[0] in ("same", "reordered") else inner
        if isinstance(a, (ast.GeneratorExp, ast.ListComp)) and len(a.generators) == 1:
            inner = self._stream_base(a.generators[0].iter, hops)
            if a.generators[0].ifs and inner[0] in ("same", "reordered"):
                return ("reordered", inner[1], norm(a, 50))
            return inner
        return ("other", norm(a, 50))

    def _stream_desc(self, a: ast.AST) -> Desc:
        """Description of one zipped stream; a (local bound once to a) product(...) of collections is spelled out as one binder
        per factor, so that it lines up with `starmap(f, <the same product>)`."""
        fn = self.fn
        x = a
        if isinstance(x, ast.Name) and (parent(x) is not None or hasattr(x, "_at")) and x.id not in fn.mutated:
            ds = fn.reaching(x.id, x)
            if len(ds) == 1 and ds[0].kind == "assign" and ds[0].value is not None:
                x = ds[0].value
        while isinstance(x, ast.Call) and _call_name(x) in ("list", "tuple", "iter") and len(x.args) == 1:
            x = x.args[0]
        if isinstance(x, ast.Call) and (_call_name(x) == "product" or fn.lib_name(x.func) == "itertools.product") and x.args and not x.keywords and not any(isinstance(y, ast.Starred) for y in x.args):
            names = [f"e{next(_fresh)}" for _ in x.args]
            return Desc([Contribution(ast.Tuple(elts=[ast.Name(id=n_, ctx=ast.Load()) for n_ in names], ctx=ast.Load()), None, [Binder(ast.Name(id=n_, ctx=ast.Store()), s_, x) for n_, s_ in zip(names, x.args)], [], node=x, how="product")])
        return self._describe_copy(a)

    def _multiset_source(self, src: ast.AST) -> tuple[str, ast.AST] | None:
        """("keys" | "items", X) if `src` iterates the distinct elements of X: Counter(X), dict.fromkeys(X), their .keys() /
        .items(), or a local bound once to one of these and never changed."""
        fn = self.fn

        def made_from(x: ast.AST, hops: int = 0) -> ast.AST | None:
            if isinstance(x, ast.Name) and hops < 3 and (parent(x) is not None or hasattr(x, "_at")):
                ds = fn.reaching(x.id, x)
                if len(ds) == 1 and ds[0].kind == "assign" and ds[0].value is not None and x.id not in fn.mutated and x.id not in self.events():
                    return made_from(ds[0].value, hops + 1)
                return None
            if isinstance(x, ast.Call) and len(x.args) == 1 and not x.keywords and (_call_name(x) == "Counter" or fn.lib_name(x.func) == "collections.Counter"):
                return x.args[0]
            if isinstance(x, ast.Call) and isinstance(x.func, ast.Attribute) and x.func.attr == "fromkeys" and isinstance(x.func.value, ast.Name) and x.func.value.id in ("dict", "OrderedDict") and len(x.args) == 1 and not x.keywords:  # with a value it is a table, not a set of keys
                return x.args[0]
            return None

        if isinstance(src, ast.Call) and isinstance(src.func, ast.Attribute) and src.func.attr in ("items", "keys") and not src.args:
            inner = made_from(src.func.value)
            return (src.func.attr, inner) if inner is not None else None
        if isinstance(src, ast.Call) and not isinstance(src.func, ast.Attribute) or (isinstance(src, ast.Call) and isinstance(src.func, ast.Attribute) and src.func.attr == "fromkeys"):
            inner = made_from(src)
            return ("keys", inner) if inner is not None else None
        return None

    def _match_target(self, target: ast.AST, ci: Contribution) -> dict[str, ast.expr] | None:
        # for a, b in <named tuples built as T(x, y)>
        if isinstance(target, (ast.Tuple, ast.List)) and isinstance(ci.elt, ast.Call) and ci.value is None:
            cls_ = self.fn._class_of_ctor(ci.elt)
            if cls_ is not None and self.fn.repo.lookup_method(cls_, "__init__") is None and any(b.endswith("NamedTuple") for b in cls_.bases):
                names = [a for c in reversed(self.fn.repo.mro(cls_)) for a in c.ann_attrs]
                if len(names) == len(target.elts) and all(isinstance(t, ast.Name) for t in target.elts):
                    vals = [self.fn.ctor_field(ci.elt, n_) for n_ in names]
                    if all(v is not None for v in vals):
                        return {t.id: v for t, v in zip(target.elts, vals)}
        if isinstance(target, ast.Name):
            if ci.value is not None:
                return {target.id: ci.elt}  # iterating a mapping yields its keys
            return {target.id: ci.elt} if ci.elt is not None else None
        if isinstance(target, (ast.Tuple, ast.List)) and isinstance(ci.elt, (ast.Tuple, ast.List)) and len(target.elts) == len(ci.elt.elts):
            env: dict[str, ast.expr] = {}
            for t, v in zip(target.elts, ci.elt.elts):
                if not isinstance(t, ast.Name):
                    return None
                env[t.id] = v
            return env
        return None
