"""Machinery of the C11 rules (part 1): def-use on a function (usually an inlined view), expansion of locals and of small
helpers into expressions, class-specialised views.

    fn = Fn(repo, view)
    fn.reaching(name, node)     reaching definitions of a name at a node (scope aware: comprehensions, lambdas, parameters,
                                free variables of nested functions; `a, b = map(f, (x, y))` is two definitions)
    fn.expand(expr)             copy of `expr` with single-definition locals substituted, calls of small helpers replaced by their
                                return expression (private / nested / same-module helpers, methods of small private value classes;
                                straight-line bodies and if/return chains; lambdas and functools.partial applied), and projections
                                simplified (`(a, b)[0]`, `T(x, y).field`, properties of small private classes)
    fn.conds_all(node)          control conditions of a node (kept when the tested object changes later)
    fn.callee(call)             unique repo function a call resolves to (through copies, nested defs of a view)
    class_view(repo, m, C)      inlined view of method m as run on an instance of the concrete class C (self / super() calls are
                                resolved by C's MRO, so template methods are inlined with the implementation that really runs)

Copies made here carry `_orig = (FuncInfo, original node)` so that types / callees can be resolved where the code was written.
Nothing of the analysed repository is imported or executed.
"""

from __future__ import annotations

import ast
from dataclasses import dataclass

from core.cfg import ENTRY, always_exits
from core.loader import FuncInfo, Repo, ancestors, own_nodes, parent

from .common import cfg_of, stmt_of, types_of

COMPS = (ast.ListComp, ast.SetComp, ast.GeneratorExp, ast.DictComp)
MUTATORS = {
    "append", "extend", "add", "update", "remove", "pop", "clear", "sort", "insert", "discard", "popitem", "setdefault", "reverse",
    "difference_update", "intersection_update", "symmetric_difference_update", "appendleft", "popleft",
}


@dataclass
class Def:
    name: str
    kind: str  # assign | unpack | aug | for | with | except | other | param | comp | lambda | free
    stmt: ast.AST | None = None
    value: ast.expr | None = None  # assign: the bound expression; for/comp/unpack: the iterated / unpacked expression
    path: tuple = ()  # index path inside a tuple target (for / comp / unpack)
    node: ast.AST | None = None  # comprehension / lambda that binds the name

    def key(self):
        return (self.kind, id(self.stmt), id(self.node), self.path)


def copy_node(e, ctx: FuncInfo):
    """Field-wise copy (never follows parent links); every copied node remembers where it came from."""
    if isinstance(e, list):
        return [copy_node(x, ctx) for x in e]
    if not isinstance(e, ast.AST):
        return e
    new = type(e)()
    for f in e._fields:
        if hasattr(e, f):
            setattr(new, f, copy_node(getattr(e, f), ctx))
    for a in ("lineno", "col_offset", "end_lineno", "end_col_offset"):
        if hasattr(e, a):
            setattr(new, a, getattr(e, a))
    new._orig = getattr(e, "_orig", (ctx, e))  # type: ignore[attr-defined]
    return new


def substitute(e, env: dict[str, ast.expr]):
    """Copy of the (already copied) tree `e` with Name loads replaced by the expressions of `env` (scopes respected)."""
    if not env:
        return e

    class Tr(ast.NodeTransformer):
        def __init__(self) -> None:
            self.env = dict(env)

        def visit_Name(self, n: ast.Name):  # noqa: N802
            if isinstance(n.ctx, ast.Load) and n.id in self.env:
                return self.env[n.id]
            return n

        def visit_Lambda(self, n: ast.Lambda):  # noqa: N802
            own = {a.arg for a in [*n.args.posonlyargs, *n.args.args, *n.args.kwonlyargs]}
            saved = self.env
            self.env = {k: v for k, v in saved.items() if k not in own}
            n.body = self.visit(n.body)
            self.env = saved
            return n

        def _comp(self, n):
            bound: set[str] = set()
            saved = self.env
            for g in n.generators:
                g.iter = self.visit(g.iter)
                bound |= {x.id for x in ast.walk(g.target) if isinstance(x, ast.Name)}
                self.env = {k: v for k, v in saved.items() if k not in bound}
                g.ifs = [self.visit(c) for c in g.ifs]
            if isinstance(n, ast.DictComp):
                n.key = self.visit(n.key)
                n.value = self.visit(n.value)
            else:
                n.elt = self.visit(n.elt)
            self.env = saved
            return n

        visit_ListComp = visit_SetComp = visit_GeneratorExp = visit_DictComp = _comp

    return Tr().visit(e)


def names_loaded(e: ast.AST) -> set[str]:
    return {n.id for n in ast.walk(e) if isinstance(n, ast.Name) and isinstance(n.ctx, ast.Load)}


def strip_docstring(body: list[ast.stmt]) -> list[ast.stmt]:
    return [s for s in body if not (isinstance(s, ast.Expr) and isinstance(s.value, ast.Constant) and isinstance(s.value.value, str))]


class Fn:
    def __init__(self, repo: Repo, fi: FuncInfo) -> None:
        self.repo = repo
        self.fi = fi
        self.T = types_of(repo)
        self.cfg = cfg_of(fi)
        self._sdefs: dict[int, dict[str, Def]] = {}
        self._reach: dict[tuple[str, int], list[Def]] = {}
        self._mutated: set[str] | None = None
        self.params = set(fi.param_names)
        self.vocabulary: set[str] = set()  # fq names of helpers that are never replaced by their bodies

    # ------------------------------------------------------------------ definitions made by one statement
    def _bind(self, out: dict[str, Def], target: ast.AST, value: ast.expr | None, stmt: ast.AST, kind: str, path: tuple = ()) -> None:
        if isinstance(target, ast.Name):
            k = kind
            if kind == "assign" and path:
                k = "unpack"
            out[target.id] = Def(target.id, k, stmt, value, path)
        elif isinstance(target, ast.Starred):
            self._bind(out, target.value, value, stmt, "unpack" if kind == "assign" else kind, path + ("*",))
        elif isinstance(target, (ast.Tuple, ast.List)):
            # a, b = map(f, (x, y))   ==   a = f(x); b = f(y)
            if kind == "assign" and isinstance(value, ast.Call) and isinstance(value.func, ast.Name) and value.func.id == "map" and len(value.args) == 2 and isinstance(value.args[1], (ast.Tuple, ast.List)) and len(value.args[1].elts) == len(target.elts) and not value.keywords:
                value = ast.Tuple(elts=[ast.copy_location(ast.Call(func=value.args[0], args=[x], keywords=[]), value) for x in value.args[1].elts], ctx=ast.Load())
            for i, el in enumerate(target.elts):
                if kind == "assign" and isinstance(value, (ast.Tuple, ast.List)) and len(value.elts) == len(target.elts) and not any(isinstance(x, ast.Starred) for x in [*value.elts, *target.elts]):
                    self._bind(out, el, value.elts[i], stmt, "assign", ())
                else:
                    self._bind(out, el, value, stmt, kind, path + (i,))

    def stmt_defs(self, s: ast.AST) -> dict[str, Def]:
        if id(s) in self._sdefs:
            return self._sdefs[id(s)]
        out: dict[str, Def] = {}
        if isinstance(s, ast.Assign):
            for t in s.targets:
                self._bind(out, t, s.value, s, "assign")
        elif isinstance(s, ast.AnnAssign):
            if s.value is not None:
                self._bind(out, s.target, s.value, s, "assign")
        elif isinstance(s, ast.AugAssign):
            if isinstance(s.target, ast.Name):
                out[s.target.id] = Def(s.target.id, "aug", s, s.value)
        elif isinstance(s, (ast.For, ast.AsyncFor)):
            self._bind(out, s.target, s.iter, s, "for")
        elif isinstance(s, (ast.With, ast.AsyncWith)):
            for it in s.items:
                if it.optional_vars is not None:
                    self._bind(out, it.optional_vars, it.context_expr, s, "with")
        elif isinstance(s, ast.ExceptHandler):
            if s.name:
                out[s.name] = Def(s.name, "except", s)
        elif isinstance(s, (ast.Import, ast.ImportFrom)):
            for a in s.names:
                n = (a.asname or a.name).split(".")[0]
                out[n] = Def(n, "other", s)
        elif isinstance(s, (ast.FunctionDef, ast.AsyncFunctionDef, ast.ClassDef)):
            out[s.name] = Def(s.name, "other", s)
        elif isinstance(s, ast.Delete):
            for t in s.targets:
                if isinstance(t, ast.Name):
                    out[t.id] = Def(t.id, "other", s)
        # walrus anywhere in the statement's own expressions
        if isinstance(s, ast.stmt) and not isinstance(s, (ast.FunctionDef, ast.AsyncFunctionDef, ast.ClassDef)):
            for fld in ("value", "test", "iter", "exc"):
                v = getattr(s, fld, None)
                if isinstance(v, ast.AST):
                    for n in ast.walk(v):
                        if isinstance(n, ast.NamedExpr) and isinstance(n.target, ast.Name):
                            out.setdefault(n.target.id, Def(n.target.id, "other", s, n.value))
        self._sdefs[id(s)] = out
        return out

    # ------------------------------------------------------------------ reaching definitions
    def _scope_def(self, name: str, node: ast.AST) -> Def | None:
        child = node
        for a in ancestors(node):
            if a is self.fi.node:
                break
            if isinstance(a, ast.Lambda):
                if name in {x.arg for x in [*a.args.posonlyargs, *a.args.args, *a.args.kwonlyargs]} and child is a.body:
                    return Def(name, "lambda", None, None, (), a)
            elif isinstance(a, COMPS):
                gens = a.generators
                if isinstance(child, ast.comprehension):
                    k = gens.index(child)
                    # which field of generator k holds the node?
                    in_iter = any(n is node for n in ast.walk(child.iter)) if node is not child else False
                    visible = gens[:k] if in_iter else gens[: k + 1]
                else:
                    visible = gens
                for g in reversed(visible):
                    d: dict[str, Def] = {}
                    self._bind(d, g.target, g.iter, None, "comp")
                    if name in d:
                        d[name].node = a
                        d[name].stmt = g  # type: ignore[assignment]
                        return d[name]
            elif isinstance(a, (ast.FunctionDef, ast.AsyncFunctionDef)):
                break
            child = a
        return None

    def reaching_stmt(self, name: str, s: ast.AST | None) -> list[Def]:
        """Definitions of `name` that may reach the entry of statement `s`."""
        key = (name, id(s))
        if key in self._reach:
            return self._reach[key]
        out: list[Def] = []
        g = self.cfg.g
        if s is None or s not in g:
            out = [Def(name, "param" if name in self.params else "free")]
            self._reach[key] = out
            return out
        seen: set[int] = set()
        stack = list(g.predecessors(s))
        entry = False
        while stack:
            p = stack.pop()
            if id(p) in seen:
                continue
            seen.add(id(p))
            if p is ENTRY or isinstance(p, str):
                if p is ENTRY:
                    entry = True
                continue
            d = self.stmt_defs(p).get(name)
            if d is not None:
                out.append(d)
                continue
            stack.extend(g.predecessors(p))
        if entry:
            out.append(Def(name, "param" if name in self.params else "free"))
        self._reach[key] = out
        return out

    def reaching(self, name: str, node: ast.AST) -> list[Def]:
        at = getattr(node, "_at", None)
        if at is not None:  # a free variable of a nested function, seen from where that function is defined
            return self.reaching_stmt(name, at)
        d = self._scope_def(name, node)
        if d is not None:
            return [d]
        return self.reaching_stmt(name, stmt_of(node))

    # ------------------------------------------------------------------ mutation facts
    @property
    def mutated(self) -> set[str]:
        """Local names whose object is changed in place somewhere in the function (accumulators)."""
        if self._mutated is None:
            out: set[str] = set()
            for n in ast.walk(self.fi.node):
                if isinstance(n, ast.Call) and isinstance(n.func, ast.Attribute) and n.func.attr in MUTATORS:
                    b = n.func.value
                    while isinstance(b, (ast.Subscript, ast.Call, ast.Attribute)):
                        b = b.value if isinstance(b, (ast.Subscript, ast.Attribute)) else (b.func.value if isinstance(b.func, ast.Attribute) else None)
                    if isinstance(b, ast.Name):
                        out.add(b.id)
                    elif isinstance(b, ast.IfExp):
                        out |= set(alias_names(b))
                elif isinstance(n, (ast.Assign, ast.AugAssign, ast.Delete)):
                    ts = n.targets if isinstance(n, (ast.Assign, ast.Delete)) else [n.target]
                    for t in ts:
                        b = t
                        sub = False
                        while isinstance(b, (ast.Subscript, ast.Attribute)):
                            sub = sub or isinstance(b, ast.Subscript)
                            b = b.value
                        if isinstance(b, ast.Name) and (sub or isinstance(n, ast.AugAssign)):
                            out.add(b.id)
            # aliases of mutated names (t = a if c else b; t.append(x)) make the aliased names mutated as well
            changed = True
            while changed:
                changed = False
                for n in ast.walk(self.fi.node):
                    if isinstance(n, ast.Assign) and len(n.targets) == 1 and isinstance(n.targets[0], ast.Name) and n.targets[0].id in out:
                        for x in alias_names(n.value):
                            if x not in out:
                                out.add(x)
                                changed = True
            self._mutated = out
        return self._mutated

    # ------------------------------------------------------------------ identity of values / conditions that survive re-binding
    def name_canon(self, name: str, defs: list[Def], use_stmt, depth: int = 6) -> str:
        """Identity of the value a name holds: follows plain copies (`x = y`, `x = cast(T, y)`) to the definition that made it."""
        if len(defs) == 1 and defs[0].kind == "assign" and defs[0].value is not None and name not in self.mutated and depth > 0:
            v = defs[0].value
            while isinstance(v, ast.Call) and isinstance(v.func, ast.Name) and v.func.id == "cast" and len(v.args) == 2:
                v = v.args[1]
            if isinstance(v, ast.Name):
                return self.name_canon(v.id, self.reaching(v.id, v), defs[0].stmt, depth - 1)
        return "|".join(sorted(str(d.key()) for d in defs))

    def conds_all(self, node: ast.AST) -> list[tuple[ast.expr, bool]]:
        """*Control* conditions of `node`: every test (with polarity) whose outcome decides whether `node` is executed - enclosing
        branches, earlier early exits of the same blocks, comprehension `if`s, conditional expressions.  Unlike the path conditions
        of core.cfg (facts, dropped once something they mention is re-bound or changed in place) these are kept: `if e in acc:
        continue; acc.add(e); other.discard(p)` - the discard still depends on the test although `acc` has changed since."""
        from core.cfg import expr_conditions

        if not hasattr(self, "_nokill"):
            self._nokill = path_conditions_nokill(self.fi.node)
        s = stmt_of(node)
        return list(self._nokill.get(id(s), [])) + expr_conditions(node)

    # ------------------------------------------------------------------ call resolution through copies
    def ctx_of(self, node: ast.AST) -> tuple[FuncInfo, ast.AST]:
        return getattr(node, "_orig", (self.fi, node))

    def nested_def(self, name: str) -> FuncInfo | None:
        """FuncInfo of a function defined inside the analysed function (the resolver does not see nested defs of a view)."""
        for n in own_nodes(self.fi.node):
            if isinstance(n, (ast.FunctionDef, ast.AsyncFunctionDef)) and n.name == name:
                return getattr(n, "_func", None)
        return None

    def callee(self, call: ast.Call) -> FuncInfo | None:
        ctx, orig = self.ctx_of(call)
        if not isinstance(orig, ast.Call):
            return None
        if isinstance(call.func, ast.Name) and ctx is self.fi:
            nd = self.nested_def(call.func.id)
            if nd is not None:
                return nd
        try:
            cs, how = self.T.callees(ctx, orig, byname_fallback=False)
        except Exception:  # noqa: BLE001
            return None
        cs = [c for c in cs if not c.is_abstract]
        if len(cs) == 1 and how == "repo":
            return cs[0]
        if not cs and how in ("callable-param", "unresolved", "unknown") and isinstance(call.func, (ast.Attribute, ast.Name)) and hasattr(call.func, "_orig"):
            # the call was written through a parameter / local (`make(n)`), and the callable has since been substituted
            # (`_Factory().filter_for(n)`): resolve by what the substituted callable is
            t = self.type_of(call.func)
            fns = [m[1] for m in (t[1] if t[0] == "union" else [t]) if m[0] == "fn"]
            if len(fns) == 1 and not fns[0].is_abstract and not isinstance(fns[0].node, ast.Lambda):
                return fns[0]
        return None

    def callees(self, call: ast.Call) -> tuple[list[FuncInfo], str]:
        ctx, orig = self.ctx_of(call)
        try:
            return self.T.callees(ctx, orig, byname_fallback=False)
        except Exception:  # noqa: BLE001
            return [], "unresolved"

    def type_of(self, e: ast.AST):
        ctx, orig = self.ctx_of(e)
        try:
            return self.T.expr(ctx, orig)
        except Exception:  # noqa: BLE001
            return ("unknown",)

    def lib_name(self, func: ast.AST) -> str:
        """Fully qualified dotted name (`re.match`) a Name / Attribute chain refers to where it was written, else ''."""
        ctx, orig = self.ctx_of(func)
        if isinstance(orig, (ast.Name, ast.Attribute)):
            for c in (ctx, self.fi):
                src = getattr(orig, "_src", None)
                mods = [c.module] + ([src[0].module] if src is not None else [])
                for m in mods:
                    fq = self.repo.resolve_name(m, orig)
                    if fq:
                        return fq
        return ""

    # ------------------------------------------------------------------ expansion
    def _valid_at(self, d: Def, use_stmt: ast.AST | None) -> bool:
        """The names a definition's value mentions still denote the same values at the point of use."""
        if d.value is None:
            return False
        for n in names_loaded(d.value):
            a = {x.key() for x in self.reaching_stmt(n, d.stmt)}
            b = {x.key() for x in self.reaching_stmt(n, use_stmt)}
            if a != b:
                # the definition itself may be the only difference (x = f(x)): then the value is not reproducible at the use
                return False
        return True

    def expand(self, e: ast.AST, depth: int = 8, keep: set[str] | None = None) -> ast.AST:
        """Copy of `e` (a node of this function) in which locals with one plain, still valid definition and calls of straight-line
        helpers are replaced by what they stand for. Accumulators (objects changed in place) are never substituted."""
        keep = keep or set()
        out = self._ex(e, stmt_of(e), depth, keep)
        al = getattr(out, "_alias", "")
        out = self.simplify(out)
        if al and not hasattr(out, "_alias"):
            try:
                out._alias = al  # type: ignore[attr-defined]
            except Exception:  # noqa: BLE001
                pass
        return out

    def _ex(self, e, use_stmt, depth: int, keep: set[str]):
        if isinstance(e, list):
            return [self._ex(x, use_stmt, depth, keep) for x in e]
        if not isinstance(e, ast.AST):
            return e
        if isinstance(e, ast.Name) and isinstance(e.ctx, ast.Load) and depth > 0 and e.id not in keep and (parent(e) is not None or hasattr(e, "_at")):
            if hasattr(e, "_at"):
                use_stmt = e._at
            defs = self.reaching(e.id, e)
            if len(defs) == 1 and defs[0].kind == "assign" and defs[0].value is not None and e.id not in self.mutated and self._valid_at(defs[0], use_stmt):
                v = defs[0].value
                if not (isinstance(v, (ast.List, ast.Set, ast.Dict)) and not getattr(v, "elts", getattr(v, "keys", None))):
                    r = self._ex(v, use_stmt, depth - 1, keep)
                    r._alias = e.id  # type: ignore[attr-defined]
                    return r
            return copy_node(e, self.fi)
        if isinstance(e, ast.Call):
            # typing.cast is transparent
            if isinstance(e.func, ast.Name) and e.func.id == "cast" and len(e.args) == 2:
                return self._ex(e.args[1], use_stmt, depth, keep)
            s = self.summarise(e, use_stmt, depth, keep) if depth > 0 else None
            if s is not None:
                return s
        new = type(e)()
        for f in e._fields:
            if hasattr(e, f):
                setattr(new, f, self._ex(getattr(e, f), use_stmt, depth, keep))
        for a in ("lineno", "col_offset", "end_lineno", "end_col_offset"):
            if hasattr(e, a):
                setattr(new, a, getattr(e, a))
        new._orig = getattr(e, "_orig", (self.fi, e))  # type: ignore[attr-defined]
        if isinstance(new, ast.Call) and isinstance(new.func, ast.Lambda):
            r = beta(new.func, new.args, new.keywords)
            if r is not None:
                return r
        if isinstance(new, ast.Call) and isinstance(e, ast.Call) and isinstance(e.func, ast.Name) and isinstance(new.func, ast.Attribute) and depth > 0:
            # a local that holds a bound method (`make = _Factory().filter_for; make(x)`): the call through the method
            r = self.summarise(new, use_stmt, depth - 1, keep)
            if r is not None:
                return r
        if isinstance(new, ast.Call) and isinstance(new.func, ast.Call) and new.func.args and self.lib_name(new.func.func) in ("functools.partial", "partial"):
            # partial(f, a, k=v)(b)  ==  f(a, b, k=v)
            pc = new.func
            call = ast.Call(func=pc.args[0], args=[*pc.args[1:], *new.args], keywords=[*pc.keywords, *new.keywords])
            ast.copy_location(call, new)
            if depth > 0:
                if isinstance(call.func, ast.Lambda):
                    r = beta(call.func, call.args, call.keywords)
                    if r is not None:
                        return r
                r = self.summarise(call, use_stmt, depth - 1, keep)
                if r is not None:
                    return r
            return call
        return new

    # ------------------------------------------------------------------ projections
    def _class_of_ctor(self, call: ast.AST):
        if not isinstance(call, ast.Call):
            return None
        t = self.type_of(call.func)
        for m in (t[1] if t[0] == "union" else [t]):
            if m[0] == "type":
                return self.repo.classes.get(m[1])
        return None

    def ctor_field(self, call: ast.Call, attr: str):
        """The expression a constructor call gives to the instance attribute `attr` (dataclass / NamedTuple field, or a field an
        explicit __init__ assigns once from its parameters); None if unknown."""
        ci = self._class_of_ctor(call)
        if ci is None or any(isinstance(x, ast.Starred) for x in call.args) or any(k.arg is None for k in call.keywords):
            return None
        init = self.repo.lookup_method(ci, "__init__")
        if init is None:
            names = [a for c in reversed(self.repo.mro(ci)) for a in c.ann_attrs]
            if attr not in names:
                return None
            for k in call.keywords:
                if k.arg == attr:
                    return k.value
            i = names.index(attr)
            if i < len(call.args):
                return call.args[i]
            for c in self.repo.mro(ci):
                if attr in c.class_attrs:
                    d = c.class_attrs[attr]
                    if isinstance(d, ast.Call) and isinstance(d.func, ast.Name) and d.func.id == "field":
                        for k in d.keywords:
                            if k.arg == "default":
                                return copy_node(k.value, self.fi)
                            if k.arg == "default_factory":
                                if isinstance(k.value, ast.Lambda):
                                    return copy_node(k.value.body, self.fi)
                                return ast.Call(func=copy_node(k.value, self.fi), args=[], keywords=[])
                        return None
                    return copy_node(d, self.fi)
            return None
        a = init.node.args
        if a.vararg or a.kwarg:
            return None
        pos = [p.arg for p in [*a.posonlyargs, *a.args]][1:]
        bind: dict[str, ast.expr] = {}
        if len(call.args) > len(pos):
            return None
        for p, x in zip(pos, call.args):
            bind[p] = x
        for k in call.keywords:
            bind[k.arg] = k.value
        pos_all = [*a.posonlyargs, *a.args]
        for p, d in zip(pos_all[len(pos_all) - len(a.defaults):], a.defaults):
            bind.setdefault(p.arg, copy_node(d, init))
        for p, d in zip(a.kwonlyargs, a.kw_defaults):
            if d is not None:
                bind.setdefault(p.arg, copy_node(d, init))
        stores = []
        selfname = init.param_names[0]
        for n in own_nodes(init.node):
            if isinstance(n, (ast.Assign, ast.AnnAssign)):
                ts = n.targets if isinstance(n, ast.Assign) else [n.target]
                for t_ in ts:
                    if isinstance(t_, ast.Attribute) and isinstance(t_.value, ast.Name) and t_.value.id == selfname and t_.attr == attr:
                        stores.append(n)
        if len(stores) != 1 or stores[0].value is None or stores[0] not in init.node.body:
            return None
        v = stores[0].value
        if any(isinstance(x, ast.Name) and x.id == selfname for x in ast.walk(v)):
            return None
        if any(isinstance(x, ast.Name) and isinstance(x.ctx, ast.Load) and x.id in [p.arg for p in init.params] and x.id not in bind for x in ast.walk(v)):
            return None
        return substitute(copy_node(v, init), bind)

    def _small_class(self, ci) -> bool:
        """Value classes whose properties / methods are looked through: private classes and classes of the analysed module that are
        not part of the public vocabulary (module filters, requirements, evaluables keep their accessors as atoms)."""
        if ci is None:
            return False
        if ci.name.startswith("_"):
            return True
        return False

    def simplify(self, e: ast.AST, depth: int = 6) -> ast.AST:
        """`(a, b)[0]` -> a;  `C(x, y).field` -> x;  `obj.prop` -> the property's expression (small private classes)."""
        fn = self

        class Tr(ast.NodeTransformer):
            def visit_Lambda(self, n):  # noqa: N802
                return n

            def visit_Subscript(self, n: ast.Subscript):  # noqa: N802
                self.generic_visit(n)
                if isinstance(n.value, (ast.Tuple, ast.List)) and isinstance(n.slice, ast.Constant) and isinstance(n.slice.value, int) and not any(isinstance(x, ast.Starred) for x in n.value.elts) and -len(n.value.elts) <= n.slice.value < len(n.value.elts):
                    return n.value.elts[n.slice.value]
                return n

            def visit_Attribute(self, n: ast.Attribute):  # noqa: N802
                self.generic_visit(n)
                if not isinstance(n.ctx, ast.Load) or depth <= 0:
                    return n
                if isinstance(n.value, ast.Call):
                    v = fn.ctor_field(n.value, n.attr)
                    if v is not None:
                        return fn.simplify(v, depth - 1)
                    ci = fn._class_of_ctor(n.value)
                else:
                    ci = None
                    t = fn.type_of(n.value)
                    ms = list(t[1]) if t[0] == "union" else [t]
                    if len(ms) == 1 and ms[0][0] == "cls":
                        ci = fn.repo.classes.get(ms[0][1])
                if ci is not None and fn._small_class(ci):
                    impls = [m for m in fn.repo.implementations(ci, n.attr)]
                    if len(impls) == 1 and (impls[0].is_property or "cached_property" in impls[0].decorators):
                        body = strip_docstring(impls[0].node.body)
                        if len(body) == 1 and isinstance(body[0], ast.Return) and body[0].value is not None:
                            r = substitute(copy_node(body[0].value, impls[0]), {impls[0].param_names[0]: n.value})
                            return fn.simplify(r, depth - 1)
                return n

        return Tr().visit(e)

    def summarise(self, call: ast.Call, use_stmt, depth: int, keep: set[str]):
        """`helper(args)` -> the helper's return expression when its body is straight-line (single-assignment locals, one
        final return) and the helper is private / nested / module-level."""
        callee = self.callee(call)
        if callee is None or isinstance(callee.node, ast.Lambda) or callee.is_property:
            return None
        # private helpers, nested functions, and functions / static methods of the module under analysis; public functions of
        # other modules (convert_partial_match_to_regex, filter_to_module, the graph searches) are vocabulary and stay calls
        private = callee.name.startswith("_") and not callee.name.startswith("__")
        local = callee.module is self.fi.module and (callee.cls is None or callee.is_staticmethod)
        small = callee.cls is not None and self._small_class(callee.cls) and not (callee.name.startswith("__") and callee.name.endswith("__"))
        if not (private or callee.outer is not None or local or small) or callee.fq in self.vocabulary:
            return None
        body = strip_docstring(callee.node.body)
        if not body:
            return None
        a = callee.node.args
        if a.vararg or a.kwarg:
            return None
        for n in own_nodes(callee.node):
            if isinstance(n, (ast.For, ast.AsyncFor, ast.While, ast.Try, ast.With, ast.AsyncWith, ast.Yield, ast.YieldFrom, ast.Await, ast.Global, ast.Nonlocal, ast.FunctionDef, ast.AsyncFunctionDef, ast.ClassDef, ast.AugAssign, ast.Delete, ast.Match)):
                return None
            # locals must not be changed in place
            if isinstance(n, ast.Call) and isinstance(n.func, ast.Attribute) and n.func.attr in MUTATORS:
                return None
            if isinstance(n, ast.Assign) and not (len(n.targets) == 1 and (isinstance(n.targets[0], ast.Name) or (isinstance(n.targets[0], ast.Tuple) and all(isinstance(x, ast.Name) for x in n.targets[0].elts)))):
                return None
        params = [p.arg for p in [*a.posonlyargs, *a.args, *a.kwonlyargs]]
        pos = [p.arg for p in [*a.posonlyargs, *a.args]]
        bind: dict[str, ast.expr] = {}
        if callee.cls is not None and callee.outer is None and not callee.is_staticmethod and pos:
            first = pos.pop(0)
            if callee.is_classmethod:
                bind[first] = copy_node(ast.Name(id=callee.cls.name, ctx=ast.Load()), callee)
            elif isinstance(call.func, ast.Attribute):
                bind[first] = self._ex(call.func.value, use_stmt, depth - 1, keep)
            else:
                return None
        if any(isinstance(x, ast.Starred) for x in call.args) or any(k.arg is None for k in call.keywords) or len(call.args) > len(pos):
            return None
        for p, x in zip(pos, call.args):
            bind[p] = self._ex(x, use_stmt, depth - 1, keep)
        for k in call.keywords:
            if k.arg not in params or k.arg in bind:
                return None
            bind[k.arg] = self._ex(k.value, use_stmt, depth - 1, keep)
        pos_all = [*a.posonlyargs, *a.args]
        for p, d in zip(pos_all[len(pos_all) - len(a.defaults):], a.defaults):
            bind.setdefault(p.arg, copy_node(d, callee))
        for p, d in zip(a.kwonlyargs, a.kw_defaults):
            if d is not None:
                bind.setdefault(p.arg, copy_node(d, callee))
        if any(p not in bind for p in params):
            return None
        # free variables of a nested function denote the enclosing function's locals at the place of its definition
        closure_at = None
        if callee.outer is not None:
            base = getattr(self.fi, "base", self.fi)
            if callee.outer is base or callee.outer is self.fi:
                closure_at = next((n for n in own_nodes(self.fi.node) if isinstance(n, (ast.FunctionDef, ast.AsyncFunctionDef)) and n.name == callee.name), None)

        def cp(e):
            c = copy_node(e, callee)
            if closure_at is not None:
                bound = set(params) | {n.id for n in ast.walk(callee.node) if isinstance(n, ast.Name) and isinstance(n.ctx, ast.Store)}
                for n in ast.walk(c):
                    if isinstance(n, ast.Name) and isinstance(n.ctx, ast.Load) and n.id not in bound:
                        n._at = closure_at  # type: ignore[attr-defined]
                        n._orig = (self.fi, n)  # type: ignore[attr-defined]
            return c

        def ret_expr(stmts: list, env: dict, fuel: int):
            env = dict(env)
            if fuel <= 0:
                return None
            for i, st in enumerate(stmts):
                if isinstance(st, ast.Pass):
                    continue
                if isinstance(st, ast.Assign) and isinstance(st.targets[0], ast.Tuple):
                    v = substitute(cp(st.value), env)
                    for k_, t_ in enumerate(st.targets[0].elts):  # a, b = pair
                        if isinstance(v, (ast.Tuple, ast.List)) and len(v.elts) == len(st.targets[0].elts):
                            env[t_.id] = v.elts[k_]
                        else:
                            env[t_.id] = ast.Subscript(value=v, slice=ast.Constant(value=k_), ctx=ast.Load())
                elif isinstance(st, ast.Assign):
                    env[st.targets[0].id] = substitute(cp(st.value), env)
                elif isinstance(st, ast.AnnAssign) and isinstance(st.target, ast.Name):
                    if st.value is not None:
                        env[st.target.id] = substitute(cp(st.value), env)
                elif isinstance(st, ast.Return):
                    return substitute(cp(st.value), env) if st.value is not None else None
                elif isinstance(st, ast.If):
                    rest = stmts[i + 1:]
                    x = ret_expr(st.body if always_exits(st.body) else st.body + rest, env, fuel - 1)
                    y = ret_expr(st.orelse if (st.orelse and always_exits(st.orelse)) else st.orelse + rest, env, fuel - 1)
                    test = fold_const(substitute(cp(st.test), env))
                    if isinstance(test, ast.Constant):
                        return x if test.value else y
                    if x is None or y is None:
                        return None
                    return ast.copy_location(ast.IfExp(test=test, body=x, orelse=y), st)
                else:
                    return None
            return None

        if any(p in {n.id for n in ast.walk(callee.node) if isinstance(n, ast.Name) and isinstance(n.ctx, ast.Store)} for p in params):
            return None
        out = ret_expr(body, bind, 6)
        if out is None:
            return None
        out = fold_const(out)
        if depth > 1 and any(isinstance(x, ast.Call) for x in ast.walk(out)):
            out = self._ex(out, use_stmt, depth - 1, keep)  # helpers that only delegate to other helpers
        out._summary_of = callee.fq  # type: ignore[attr-defined]
        return out


def class_view(repo: Repo, fi: FuncInfo, concrete, allow=None, max_depth: int = 4, inline_ctor=None) -> FuncInfo:
    """Inlined view (core/inline_stmt.py) of method `fi` *as executed on an instance of class `concrete`*: calls on `self` / `cls` /
    `super()` are resolved by the method resolution order of `concrete` instead of by class-hierarchy analysis, so template methods
    (abstract in the base class, overridden or extended in subclasses) are inlined with the implementation that really runs."""
    from core.inline_stmt import Inliner

    cache = repo.__dict__.setdefault("_c11_class_views", {})
    key = (fi.fq, concrete.fq, id(allow), max_depth, id(inline_ctor))
    if key in cache:
        return cache[key]
    T = types_of(repo)
    mro = repo.mro(concrete)

    class ClassInliner(Inliner):
        def _resolve(self, ctx, call):  # noqa: ANN001
            src = getattr(call, "_src", None)
            c_ctx, orig = src if src is not None else (ctx, call)
            if isinstance(orig, ast.Call) and isinstance(orig.func, ast.Attribute) and c_ctx.cls is not None and c_ctx.cls in mro and c_ctx.outer is None:
                recv = orig.func.value
                target = None
                if isinstance(recv, ast.Name) and c_ctx.params and recv.id == c_ctx.params[0].arg and not c_ctx.is_staticmethod:
                    target = repo.lookup_method(concrete, orig.func.attr)
                elif isinstance(recv, ast.Call) and isinstance(recv.func, ast.Name) and recv.func.id == "super":
                    for c in mro[mro.index(c_ctx.cls) + 1:]:
                        if orig.func.attr in c.methods:
                            target = c.methods[orig.func.attr]
                            break
                if target is not None:
                    return None if (target.is_abstract or target.is_property) else target
            return super()._resolve(ctx, call)

        def _expand_super(self, ctx, call, callee, taken, origin, stack):  # noqa: ANN001
            # super().m(...) runs m on the very same object: bind the callee's `self` to the caller's, not to the proxy
            f = call.func
            if isinstance(f, ast.Attribute) and isinstance(f.value, ast.Call) and isinstance(f.value.func, ast.Name) and f.value.func.id == "super" and ctx.params and not callee.is_staticmethod:
                recv = ast.copy_location(ast.Name(id=ctx.params[0].arg, ctx=ast.Load()), f.value)
                nf = ast.copy_location(ast.Attribute(value=recv, attr=f.attr, ctx=ast.Load()), f)
                call2 = ast.copy_location(ast.Call(func=nf, args=call.args, keywords=call.keywords), call)
                if hasattr(call, "_src"):
                    call2._src = call._src  # type: ignore[attr-defined]
                call = call2
            return Inliner._expand(self, ctx, call, callee, taken, origin, stack)

        # ---- arguments: a helper call that is itself an argument (of another helper call, of a constructor, of a raise) is part
        # of the pipeline as well: `self._message(self._find(evaluable))`, `raise AssertionError(self._message(...))`,
        # `self._detector(mapping).judge(a, b)`.  It is given a name in front of the statement (everything evaluated before it
        # is named too, in evaluation order, so that nothing moves across a state change) and then inlined like `x = helper()`.
        # ---- `try: ...; return e  except X: raise ...` wrappers: the value leaves the function only through the `return` that
        # ends the try body, so the helper is inlined with `result = e` inside the try and `return result` after it
        @staticmethod
        def _try_return_shape(callee) -> bool:  # noqa: ANN001
            body = strip_docstring(callee.node.body)
            if not body or not isinstance(body[-1], ast.Try):
                return False
            t = body[-1]
            if t.orelse or not t.body or not isinstance(t.body[-1], ast.Return) or t.body[-1].value is None:
                return False
            others = [x for st in [*body[:-1], *t.body[:-1], *t.finalbody, *[y for h in t.handlers for y in h.body]] for x in ast.walk(st) if isinstance(x, ast.Return)]
            if others:
                return False
            return all(h.body and isinstance(h.body[-1], ast.Raise) for h in t.handlers)

        @staticmethod
        def _try_else_shape(callee) -> bool:  # noqa: ANN001
            """`<pre>; try: <no return> except X: ...; return a  <post>; return b` - what follows the try runs only if nothing
            was caught: it becomes the `else` block, and every exit assigns the result"""
            body = strip_docstring(callee.node.body)
            tries = [i for i, st in enumerate(body) if isinstance(st, ast.Try)]
            if len(tries) != 1 or not isinstance(body[-1], ast.Return) or body[-1].value is None:
                return False
            t = body[tries[0]]
            if t.orelse or t.finalbody or not t.handlers or tries[0] == len(body) - 1:
                return False
            if any(isinstance(x, ast.Return) for st in [*body[:tries[0]], *t.body, *body[tries[0] + 1:-1]] for x in ast.walk(st)):
                return False
            for h in t.handlers:
                if not h.body or not isinstance(h.body[-1], (ast.Return, ast.Raise)) or (isinstance(h.body[-1], ast.Return) and h.body[-1].value is None):
                    return False
                if any(isinstance(x, ast.Return) for st in h.body[:-1] for x in ast.walk(st)):
                    return False
            return True

        def _eligible(self, caller, callee, form):  # noqa: ANN001
            if Inliner._eligible(self, caller, callee, form):
                return True
            if form in ("expr", "assign") and not isinstance(callee.node, ast.Lambda) and (self._try_return_shape(callee) or self._try_else_shape(callee)):
                return Inliner._eligible(self, caller, callee, "return")
            return False

        def _expand(self, ctx, call, callee, taken, origin, stack):  # noqa: ANN001, F811
            got = self._expand_super(ctx, call, callee, taken, origin, stack)
            if got is None:
                return None
            prefix, body = got
            if body and isinstance(body[-1], ast.Try) and body[-1].body and isinstance(body[-1].body[-1], ast.Return) and self._try_return_shape(callee):
                t = body[-1]
                ret = t.body[-1]
                new = Inliner._fresh("result", callee.name, taken)
                taken.add(new)
                st = ast.copy_location(ast.Assign(targets=[ast.copy_location(ast.Name(id=new, ctx=ast.Store()), ret)], value=ret.value), ret)
                if hasattr(ret, "_src"):
                    st._src = ret._src  # type: ignore[attr-defined]
                t.body[-1] = st
                body.append(ast.copy_location(ast.Return(value=ast.copy_location(ast.Name(id=new, ctx=ast.Load()), ret)), ret))
            elif body and isinstance(body[-1], ast.Return) and self._try_else_shape(callee):
                ti = next(i for i, st in enumerate(body) if isinstance(st, ast.Try))
                t = body[ti]
                new = Inliner._fresh("result", callee.name, taken)
                taken.add(new)

                def to_assign(ret):  # noqa: ANN001
                    st = ast.copy_location(ast.Assign(targets=[ast.copy_location(ast.Name(id=new, ctx=ast.Store()), ret)], value=ret.value), ret)
                    if hasattr(ret, "_src"):
                        st._src = ret._src  # type: ignore[attr-defined]
                    return st

                last = body[-1]
                t.orelse = body[ti + 1:-1] + [to_assign(last)]
                for h in t.handlers:
                    if isinstance(h.body[-1], ast.Return):
                        h.body[-1] = to_assign(h.body[-1])
                body = body[:ti + 1] + [ast.copy_location(ast.Return(value=ast.copy_location(ast.Name(id=new, ctx=ast.Load()), last)), last)]
            if prefix:
                prefix = self._block(ctx, prefix, taken, origin, stack)  # parameter bindings `p = helper(...)`
            return prefix, body

        def _target(self, ctx, e, stack):  # noqa: ANN001
            """helper call with a multi-statement body that the statement forms would inline"""
            if not isinstance(e, ast.Call) or len(stack) > self.max_depth:
                return None
            callee = self._resolve(ctx, e)
            if callee is None or callee.fq in stack or isinstance(callee.node, ast.Lambda):
                return None
            body = strip_docstring(callee.node.body)
            if len(body) == 1 and isinstance(body[0], ast.Return):
                return None  # replaced in place by the expression inliner
            return callee if self._eligible(ctx, callee, "assign") else None

        def _hoist(self, ctx, s, taken, stack):  # noqa: ANN001
            if isinstance(s, (ast.Expr, ast.Assign, ast.AnnAssign, ast.Return)):
                fld, top_done = "value", True  # the statement forms handle a call that is the whole value
            elif isinstance(s, ast.AugAssign):
                fld, top_done = "value", False
            elif isinstance(s, ast.If):
                fld, top_done = "test", False
            elif isinstance(s, ast.Raise):
                fld, top_done = "exc", False
            elif isinstance(s, (ast.For, ast.AsyncFor)):
                fld, top_done = "iter", False
            else:
                return []
            root = getattr(s, fld, None)
            if not isinstance(root, ast.expr):
                return []
            order: list[ast.AST] = []
            on_path: set[int] = set()

            def scan(e) -> bool:  # noqa: ANN001
                has = False
                for ch in _strict_children(e):
                    if scan(ch):
                        has = True
                if self._target(ctx, e, stack) is not None and not (e is root and top_done):
                    order.append(e)
                    has = True
                if has:
                    on_path.add(id(e))
                return has

            scan(root)
            if not order:
                return []
            pre: list[ast.stmt] = []
            left = [len(order)]
            tids = {id(x) for x in order}

            def name_it(e, base):  # noqa: ANN001
                new = base if base not in taken else Inliner._fresh(base, "arg", taken)
                taken.add(new)
                st = ast.copy_location(ast.Assign(targets=[ast.copy_location(ast.Name(id=new, ctx=ast.Store()), e)], value=e), e)
                if hasattr(s, "_src"):
                    st._src = s._src  # type: ignore[attr-defined]
                pre.append(st)
                return ast.copy_location(ast.Name(id=new, ctx=ast.Load()), e)

            def visit(e):  # noqa: ANN001
                if id(e) not in on_path:
                    if left[0] > 0 and not _trivial(e):
                        return name_it(e, "value__before")
                    return e
                for ch in _strict_children(e):
                    new = visit(ch)
                    if new is not ch:
                        _replace_child(e, ch, new)
                if id(e) in tids:
                    left[0] -= 1
                    callee = self._target(ctx, e, stack)
                    return name_it(e, f"{callee.name.strip('_') if callee is not None else 'call'}__result")
                return e

            new_root = visit(root)
            if new_root is not root:
                setattr(s, fld, new_root)
            return pre

        def _split(self, ctx, s, stack, depth=0):  # noqa: ANN001
            """`x = a if c else b` with a helper call in a branch  ->  `if c: x = a  else: x = b` (the branches are not
            evaluated unconditionally, so the calls cannot be named in front of the statement)."""
            from core.inline_stmt import _recopy

            v = getattr(s, "value", None)
            if depth <= 3 and isinstance(v, ast.BoolOp) and len(v.values) > 1 and any(self._target(ctx, x, stack) is not None for br in v.values[1:] for x in ast.walk(br)):
                # `x = a and b`  ->  `x = a; if x: x = b`      `x = a or b`  ->  `x = a; if not x: x = b`
                tgt = s.targets[0] if isinstance(s, ast.Assign) and len(s.targets) == 1 else s.target if isinstance(s, ast.AnnAssign) else None
                if isinstance(tgt, ast.Name):
                    first = _recopy(s)
                    first.value = v.values[0]
                    rest = _recopy(s)
                    rest.value = v.values[1] if len(v.values) == 2 else ast.copy_location(ast.BoolOp(op=v.op, values=v.values[1:]), v)
                    test: ast.expr = ast.copy_location(ast.Name(id=tgt.id, ctx=ast.Load()), v)
                    if isinstance(v.op, ast.Or):
                        test = ast.copy_location(ast.UnaryOp(op=ast.Not(), operand=test), v)
                    cond = ast.copy_location(ast.If(test=test, body=self._split(ctx, rest, stack, depth + 1), orelse=[]), s)
                    if hasattr(s, "_src"):
                        cond._src = s._src  # type: ignore[attr-defined]
                    return [*self._split(ctx, first, stack, depth + 1), cond]
            if depth > 3 or not isinstance(s, (ast.Assign, ast.AnnAssign, ast.Return, ast.Expr)) or not isinstance(v, ast.IfExp):
                return [s]
            if not any(self._target(ctx, x, stack) is not None for br in (v.body, v.orelse) for x in ast.walk(br)):
                return [s]

            def arm(e):  # noqa: ANN001
                st = _recopy(s)
                st.value = e
                return self._split(ctx, st, stack, depth + 1)

            new = ast.copy_location(ast.If(test=v.test, body=arm(v.body), orelse=arm(v.orelse)), s)
            if hasattr(s, "_src"):
                new._src = s._src  # type: ignore[attr-defined]
            return [new]

        # ---- small helper classes that own a part of the pipeline (`self._evaluation = _Evaluation(requirement, evaluable)` whose
        # constructor does the work): `obj = object.__new__(C); <body of C.__init__ on obj>; target = obj`
        def _ctor(self, ctx, s, taken, origin, stack):  # noqa: ANN001
            v = getattr(s, "value", None)
            if not isinstance(s, (ast.Assign, ast.AnnAssign)) or not isinstance(v, ast.Call) or len(stack) > self.max_depth:
                return None
            src = getattr(v, "_src", None)
            c_ctx, orig = src if src is not None else (ctx, v)
            if not isinstance(orig, ast.Call):
                return None
            try:
                cs, how = self.T.callees(c_ctx, orig, byname_fallback=False)
            except Exception:  # noqa: BLE001
                return None
            if how != "ctor" or len(cs) != 1 or cs[0].name != "__init__" or cs[0].cls is None or cs[0].fq in stack:
                return None
            init = cs[0]
            ci = init.cls
            if inline_ctor is None or not inline_ctor(init):
                return None
            if ci.bases or ci.is_dataclass or "__new__" in ci.methods or ci in mro or not self._eligible(ctx, init, "expr"):
                return None
            if any(isinstance(x, ast.Return) and x.value is not None for x in own_nodes(init.node)):
                return None
            new = Inliner._fresh(ci.name.strip("_").lower(), "object", taken)
            taken.add(new)
            recv = ast.copy_location(ast.Name(id=new, ctx=ast.Load()), v)
            call2 = ast.copy_location(ast.Call(func=ast.copy_location(ast.Attribute(value=recv, attr="__init__", ctx=ast.Load()), v), args=v.args, keywords=v.keywords), v)
            got = Inliner._expand(self, ctx, call2, init, taken, origin, stack)
            if got is None:
                taken.discard(new)
                return None
            prefix, body = got
            if prefix:
                prefix = self._block(ctx, prefix, taken, origin, stack)
            from core.inline_stmt import single_exit

            body, _t = single_exit(body, lambda ret: [])
            alloc_call = ast.copy_location(ast.Call(func=ast.copy_location(ast.Attribute(value=ast.copy_location(ast.Name(id="object", ctx=ast.Load()), v), attr="__new__", ctx=ast.Load()), v), args=[v.func], keywords=[]), v)
            alloc = ast.copy_location(ast.Assign(targets=[ast.copy_location(ast.Name(id=new, ctx=ast.Store()), v)], value=alloc_call), s)
            s.value = ast.copy_location(ast.Name(id=new, ctx=ast.Load()), v)
            for st in (alloc,):
                if hasattr(s, "_src"):
                    st._src = s._src  # type: ignore[attr-defined]
            return [alloc, *prefix, *body, s]

        def _block(self, ctx, stmts, taken, origin, stack):  # noqa: ANN001
            out = []
            for s0 in stmts:
                for s in self._split(ctx, s0, stack):
                    for s1 in [*self._hoist(ctx, s, taken, stack), s]:
                        got = self._ctor(ctx, s1, taken, origin, stack)
                        if got is not None:
                            for x in got:
                                x._c11_ctor_done = True  # type: ignore[attr-defined]
                            out += got
                        else:
                            out.append(s1)
            done = Inliner._block(self, ctx, out, taken, origin, stack)
            # single-expression helpers substituted by the expression inliner may have brought further nested helper calls
            again = []
            changed = False
            for s in done:
                pre = self._hoist(ctx, s, taken, stack) if not getattr(s, "_c11_hoisted", False) else []
                s._c11_hoisted = True  # type: ignore[attr-defined]
                if pre:
                    changed = True
                    again += Inliner._block(self, ctx, pre, taken, origin, stack)
                again.append(s)
            return again if changed else done

    v = ClassInliner(repo, T, allow, max_depth).view(fi)
    v.qualname = f"{fi.qualname}~inl@{concrete.name}"
    v.cls = concrete
    cache[key] = v
    return v



def _strict_children(e: ast.AST) -> list[ast.AST]:
    """Sub-expressions of `e` that are evaluated unconditionally, in evaluation order."""
    if isinstance(e, ast.Call):
        out: list[ast.AST] = []
        if isinstance(e.func, ast.Attribute):
            out.append(e.func.value)
        elif not isinstance(e.func, ast.Name):
            out.append(e.func)
        return out + list(e.args) + [k.value for k in e.keywords]
    if isinstance(e, (ast.Attribute, ast.Starred, ast.NamedExpr, ast.FormattedValue)):
        return [e.value]
    if isinstance(e, ast.Subscript):
        return [e.value, e.slice]
    if isinstance(e, ast.BinOp):
        return [e.left, e.right]
    if isinstance(e, ast.UnaryOp):
        return [e.operand]
    if isinstance(e, ast.Compare):
        return [e.left, e.comparators[0]]
    if isinstance(e, ast.BoolOp):
        return [e.values[0]]
    if isinstance(e, ast.IfExp):
        return [e.test]
    if isinstance(e, (ast.Tuple, ast.List, ast.Set)):
        return list(e.elts)
    if isinstance(e, ast.Dict):
        return [x for k, v in zip(e.keys, e.values) for x in (k, v) if x is not None]
    if isinstance(e, ast.JoinedStr):
        return list(e.values)
    if isinstance(e, ast.Slice):
        return [x for x in (e.lower, e.upper, e.step) if x is not None]
    return []


def _trivial(e: ast.AST) -> bool:
    """Evaluating `e` reads no state that a call could change (local names and constants only)."""
    return not any(isinstance(x, (ast.Attribute, ast.Subscript, ast.Call, ast.Await, ast.Yield, ast.YieldFrom, ast.NamedExpr, *COMPS)) for x in ast.walk(e))


def _replace_child(parent_: ast.AST, old: ast.AST, new: ast.AST) -> None:
    if isinstance(parent_, ast.Call) and isinstance(parent_.func, ast.Attribute) and parent_.func.value is old:
        parent_.func.value = new
        return
    for f in parent_._fields:
        v = getattr(parent_, f, None)
        if v is old:
            setattr(parent_, f, new)
            return
        if isinstance(v, list):
            for i, x in enumerate(v):
                if x is old:
                    v[i] = new
                    return
                if isinstance(x, ast.keyword) and x.value is old:
                    x.value = new
                    return


def path_conditions_nokill(fn_node: ast.AST) -> dict[int, list]:
    """Like core.cfg.path_conditions, but conditions are *not* dropped when something they mention is re-bound: every condition
    is reported with the statement it was tested at, and the caller decides whether it still speaks about the same values."""
    out: dict[int, list] = {}

    def block(stmts, conds):
        conds = list(conds)
        for s in stmts:
            out[id(s)] = list(conds)
            if isinstance(s, ast.If):
                block(s.body, conds + [(s.test, True)])
                block(s.orelse, conds + [(s.test, False)])
                if always_exits(s.body):
                    conds = conds + [(s.test, False)]
                if s.orelse and always_exits(s.orelse):
                    conds = conds + [(s.test, True)]
            elif isinstance(s, (ast.For, ast.AsyncFor, ast.While)):
                block(s.body, conds)
                block(s.orelse, conds)
            elif isinstance(s, ast.Try):
                block(s.body, conds)
                for h in s.handlers:
                    out[id(h)] = list(conds)
                    block(h.body, conds)
                block(s.orelse, conds)
                block(s.finalbody, conds)
            elif isinstance(s, (ast.With, ast.AsyncWith)):
                conds = block(s.body, conds)
            elif isinstance(s, ast.Match):
                for case in s.cases:
                    block(case.body, conds)
        return conds

    if not isinstance(fn_node, ast.Lambda):
        block(fn_node.body, [])
    return out


def fold_const(e: ast.AST) -> ast.AST:
    """Constant folding of boolean structure: `x if True else y`, `not False`, `False and x`, `True or x`."""

    class Tr(ast.NodeTransformer):
        def visit_IfExp(self, n: ast.IfExp):  # noqa: N802
            self.generic_visit(n)
            if isinstance(n.test, ast.Constant):
                return n.body if n.test.value else n.orelse
            return n

        def visit_UnaryOp(self, n: ast.UnaryOp):  # noqa: N802
            self.generic_visit(n)
            if isinstance(n.op, ast.Not) and isinstance(n.operand, ast.Constant):
                return ast.copy_location(ast.Constant(value=not n.operand.value), n)
            return n

        def visit_BoolOp(self, n: ast.BoolOp):  # noqa: N802
            self.generic_visit(n)
            is_and = isinstance(n.op, ast.And)
            vals = []
            for v in n.values:
                if isinstance(v, ast.Constant):
                    if bool(v.value) is is_and:
                        continue  # neutral element
                    return ast.copy_location(ast.Constant(value=not is_and), n) if not vals else n
                vals.append(v)
            if not vals:
                return ast.copy_location(ast.Constant(value=is_and), n)
            if len(vals) == 1:
                return vals[0]
            n.values = vals
            return n

        def visit_Lambda(self, n):  # noqa: N802
            return n

    return Tr().visit(e)


def beta(lam: ast.Lambda, args: list, keywords: list) -> ast.AST | None:
    """`(lambda p: body)(a)` -> body[p := a] (positional / keyword arguments, defaults)."""
    a = lam.args
    if a.vararg or a.kwarg or any(isinstance(x, ast.Starred) for x in args) or any(k.arg is None for k in keywords):
        return None
    ps = [p.arg for p in [*a.posonlyargs, *a.args]]
    allp = ps + [p.arg for p in a.kwonlyargs]
    if len(args) > len(ps):
        return None
    env = dict(zip(ps, args))
    for k in keywords:
        if k.arg not in allp or k.arg in env:
            return None
        env[k.arg] = k.value
    for p, d in zip(ps[len(ps) - len(a.defaults):], a.defaults):
        env.setdefault(p, d)
    for p, d in zip(a.kwonlyargs, a.kw_defaults):
        if d is not None:
            env.setdefault(p.arg, d)
    if any(p not in env for p in allp):
        return None
    return substitute(lam.body, env)


def show(e: ast.AST | None, limit: int = 90) -> str:
    """Normalised text of an (expanded) expression; sub-expressions that stand for a local are printed as that local."""
    if e is None:
        return "?"

    def cp(n):
        if isinstance(n, list):
            return [cp(x) for x in n]
        if not isinstance(n, ast.AST):
            return n
        al = getattr(n, "_alias", "")
        if al:
            return ast.Name(id=al, ctx=ast.Load())
        new = type(n)()
        for f in n._fields:
            if hasattr(n, f):
                setattr(new, f, cp(getattr(n, f)))
        return new

    try:
        text = " ".join(ast.unparse(ast.fix_missing_locations(cp(e))).split())
    except Exception:  # noqa: BLE001
        try:
            text = " ".join(ast.unparse(e).split())
        except Exception:  # noqa: BLE001
            text = type(e).__name__
    return text if len(text) <= limit else text[: limit - 3] + "..."


def alias_names(v: ast.AST) -> list[str]:
    """Names an expression may be an alias of: `a`, `a if c else b`."""
    if isinstance(v, ast.Name):
        return [v.id]
    if isinstance(v, ast.IfExp):
        return alias_names(v.body) + alias_names(v.orelse)
    return []


def unwrap_alias(e: ast.AST) -> str:
    return getattr(e, "_alias", "")
