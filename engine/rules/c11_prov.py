"""Machinery of the C11 rules (part 3): provenance of values inside one function (usually the inlined view of an entry point).

Forward may-analysis over the statement CFG.  Every local and every `self.<field>` holds a set of tags:

    <tag produced by `source(call)`>      the value derives from the result of that call (e.g. one regex conversion)
    pre:self.<field>                      the value is what the field held *before* this invocation (constructor state, or
                                          whatever an earlier invocation left there)

Fields are tracked flow-sensitively: a field that is not assigned on some path keeps its `pre:` tag on that path, so "converted on
one branch only" stays visible after the join.  Calls that are not sources pass on the tags of their receiver and of their
non-scalar arguments (objects carry what they were built from).
"""

from __future__ import annotations

import ast
from typing import Callable

from core.cfg import ENTRY

from .c11_lib import COMPS, Fn, MUTATORS

Tags = frozenset
EMPTY: Tags = frozenset()


def field_key(e: ast.AST) -> str | None:
    """`self.x` for any attribute / subscript chain rooted at `self.x`, else None."""
    n = e
    last = None
    while isinstance(n, (ast.Attribute, ast.Subscript, ast.Call)):
        if isinstance(n, ast.Attribute):
            last = n
            n = n.value
        elif isinstance(n, ast.Subscript):
            n = n.value
        else:
            n = n.func
    if isinstance(n, ast.Name) and n.id == "self" and last is not None and isinstance(last.value, ast.Name):
        return f"self.{last.attr}"
    return None


def root_name(e: ast.AST) -> str | None:
    n = e
    while isinstance(n, (ast.Attribute, ast.Subscript)):
        n = n.value
    return n.id if isinstance(n, ast.Name) else None


def _scalar(fn: Fn, a: ast.AST) -> bool:
    t = fn.type_of(a)
    ms = list(t[1]) if t[0] == "union" else [t]
    return bool(ms) and all(m[0] == "b" and m[1] in ("bool", "str", "int", "none", "float") for m in ms)


def _passes(fn: Fn, call: ast.Call) -> bool:
    if isinstance(call.func, ast.Name) and call.func.id in ("list", "tuple", "set", "frozenset", "sorted", "cast", "iter", "reversed"):
        return True
    cs, how = fn.callees(call)
    return how == "ctor" or (bool(cs) and all(f.name in ("__init__", "__post_init__") for f in cs))


class Provenance:
    def __init__(
        self,
        fn: Fn,
        source: Callable[[ast.Call, list], "set[str] | None"],
        scalar: Callable[[ast.AST], bool],
        attr_tags: "Callable[[ast.Attribute], set[str] | None] | None" = None,
        assume: "Callable[[ast.AST, dict], bool | None] | None" = None,
        passes: "Callable[[ast.Call], bool] | None" = None,
        init: "dict[str, Tags] | None" = None,
        depth: int = 0,
        self_tags: "Tags | None" = None,
    ) -> None:
        """source(call, tags of the positional arguments) -> tags of the call's result (None: not a source);
        attr_tags(attribute expression[, tags of the object it is read from]) -> additional tags of an attribute read;
        assume(if statement, state on its entry) -> True / False if the test is known to have that value (only that branch is
        followed), None otherwise."""
        self.fn = fn
        self.source = source
        self.scalar = scalar
        self.attr_tags = attr_tags
        self.assume = assume
        # passes(call): the call hands its tagged arguments on unchanged (constructor of a carrier, copy).  When given, every
        # other operation on a tagged value leaves a mark:  via:filter:<cond> (elements may be dropped) / via:call:<f> / via:op
        self.passes = passes
        self.init = dict(init or {})
        self.depth = depth
        self.self_tags = self_tags  # inside a helper method: what the receiver object carries (its fields are not tracked one by one)
        self.tags: dict[int, Tags] = {}
        self.before: dict[int, dict[str, Tags]] = {}
        self._run()

    # ------------------------------------------------------------------ state
    def default(self, key: str) -> Tags:
        if key.startswith("self."):
            return self.self_tags if self.self_tags is not None else frozenset({f"pre:{key}"})
        return EMPTY

    def get(self, st: dict[str, Tags], key: str) -> Tags:
        return st[key] if key in st else self.default(key)

    def at(self, stmt: ast.AST, key: str) -> Tags:
        """Tags of a local / field on entry of `stmt`."""
        return self.get(self.before.get(id(stmt), {}), key)

    def of(self, e: ast.AST) -> Tags:
        return self.tags.get(id(e), EMPTY)

    def _join(self, a: dict[str, Tags], b: dict[str, Tags]) -> tuple[dict[str, Tags], bool]:
        out = dict(a)
        changed = False
        for k in set(a) | set(b):
            v = self.get(a, k) | self.get(b, k)
            if k not in a or v != a[k]:
                out[k] = v
                changed = True
        return out, changed

    # ------------------------------------------------------------------ driver
    def _definite(self, loop: ast.AST) -> bool:
        """`for x in (a, b):` - a loop over a non-empty literal runs its body at least once."""
        if not isinstance(loop, (ast.For, ast.AsyncFor)) or loop.orelse:
            return False
        try:
            it = self.fn.expand(loop.iter)
        except Exception:  # noqa: BLE001
            return False
        return isinstance(it, (ast.Tuple, ast.List)) and bool(it.elts)

    def _run(self) -> None:
        g = self.fn.cfg.g
        edge: dict[tuple[int, int], dict[str, Tags]] = {}
        definite = {id(n): {id(x) for st_ in n.body for x in ast.walk(st_)} for n in g.nodes if isinstance(n, ast.AST) and self._definite(n)}

        def joined(states: list) -> dict[str, Tags] | None:
            if not states:
                return None
            out = dict(states[0])
            for st_ in states[1:]:
                out, _ = self._join(out, st_)
            return out

        work = [ENTRY]
        steps = 0
        while work:
            n = work.pop()
            steps += 1
            if steps > 20000:
                break
            if n is ENTRY:
                st = dict(self.init)
            else:
                st = joined([edge[(id(p), id(n))] for p in g.predecessors(n) if (id(p), id(n)) in edge])
                if st is None:
                    continue
            out = dict(st)
            if isinstance(n, ast.AST):
                self.before[id(n)] = dict(st)
                self._stmt(n, out)
            skip = None
            if isinstance(n, ast.If) and self.assume is not None:
                known = self.assume(n, self.before[id(n)])
                if known is not None:
                    skip = not known
            for m in g.successors(n):
                labels = g[n][m].get("labels")
                if skip is not None and labels == {skip}:
                    continue
                o = out
                if id(n) in definite and labels == {False}:
                    # the loop is left only after at least one pass through its body
                    back = joined([edge[(id(p), id(n))] for p in g.predecessors(n) if id(p) in definite[id(n)] and (id(p), id(n)) in edge])
                    if back is None:
                        continue
                    o = dict(back)
                    self._stmt(n, o)
                old = edge.get((id(n), id(m)))
                if old is None:
                    edge[(id(n), id(m))] = dict(o)
                    work.append(m)
                else:
                    new, changed = self._join(old, o)
                    if changed:
                        edge[(id(n), id(m))] = new
                        work.append(m)

    # ------------------------------------------------------------------ statements
    def _stmt(self, s: ast.AST, st: dict[str, Tags]) -> None:
        if isinstance(s, ast.Assign):
            v = self._ev(s.value, st)
            for t in s.targets:
                self._bind(t, v, s.value, st)
        elif isinstance(s, ast.AnnAssign):
            if s.value is not None:
                self._bind(s.target, self._ev(s.value, st), s.value, st)
        elif isinstance(s, ast.AugAssign):
            v = self._ev(s.value, st) | self._ev(s.target, st)
            self._bind(s.target, v, None, st)
        elif isinstance(s, (ast.For, ast.AsyncFor)):
            self._bind(s.target, self._ev(s.iter, st), None, st, weak=True)
        elif isinstance(s, (ast.With, ast.AsyncWith)):
            for it in s.items:
                v = self._ev(it.context_expr, st)
                if it.optional_vars is not None:
                    self._bind(it.optional_vars, v, None, st)
        elif isinstance(s, ast.Expr):
            self._ev(s.value, st)
        elif isinstance(s, (ast.If, ast.While, ast.Assert)):
            self._ev(s.test, st)
        elif isinstance(s, ast.Return):
            if s.value is not None:
                self._ev(s.value, st)
        elif isinstance(s, ast.Raise):
            if s.exc is not None:
                self._ev(s.exc, st)

    def _bind(self, t: ast.AST, v: Tags, value: ast.AST | None, st: dict[str, Tags], weak: bool = False) -> None:
        if isinstance(t, ast.Name):
            st[t.id] = (st.get(t.id, EMPTY) | v) if weak else v
        elif isinstance(t, (ast.Tuple, ast.List)):
            for i, el in enumerate(t.elts):
                if isinstance(value, (ast.Tuple, ast.List)) and len(value.elts) == len(t.elts):
                    self._bind(el, self.of(value.elts[i]), value.elts[i], st, weak)
                elif isinstance(el, ast.Name) and self._is_scalar(el):
                    self._bind(el, EMPTY, None, st, weak)  # `for name, filters in d.items()`: a str / int / bool carries no filters
                else:
                    self._bind(el, v, None, st, weak)
        elif isinstance(t, ast.Starred):
            self._bind(t.value, v, None, st, weak)
        elif isinstance(t, (ast.Attribute, ast.Subscript)):
            fk = field_key(t)
            if fk is not None:
                exact = isinstance(t, ast.Attribute) and isinstance(t.value, ast.Name)
                st[fk] = v if exact and not weak else self.get(st, fk) | v
            else:
                r = root_name(t)
                if r is not None:
                    st[r] = st.get(r, EMPTY) | v

    def _is_scalar(self, e: ast.AST) -> bool:
        try:
            return bool(self.scalar(e))
        except Exception:  # noqa: BLE001
            return False

    def _self_property(self, attr: str, st: dict[str, Tags], depth: int = 0) -> Tags | None:
        """`self.<attr>` where attr is a property of the analysed method's class: the tags of what the property returns, evaluated
        in the current state (a property is a view on fields, not a field)."""
        cls_ = self.fn.fi.cls
        if cls_ is None or depth > 3:
            return None
        m = self.fn.repo.lookup_method(cls_, attr)
        if m is None or not (m.is_property or "cached_property" in m.decorators):
            return None
        from core.loader import own_nodes

        out = EMPTY
        found = False
        for r in own_nodes(m.node):
            if isinstance(r, ast.Return) and r.value is not None:
                found = True
                out |= self._ev(r.value, dict(st))
        return out if found else None

    def field_at(self, stmt: ast.AST, attr: str) -> Tags:
        """Tags of `self.<attr>` (field or property) on entry of `stmt`."""
        st = self.before.get(id(stmt), {})
        key = f"self.{attr}"
        if key not in st:
            got = self._self_property(attr, st)
            if got is not None:
                return got
        return self.get(st, key)

    def _through_helper(self, call: ast.Call, argtags: list) -> Tags | None:
        """Tags of the result of a private repo helper, obtained by analysing the helper with its parameters tagged like the
        arguments (one level of context; helpers that cannot be resolved uniquely are left to the caller)."""
        if self.depth >= 2:
            return None
        callee = self.fn.callee(call)
        if callee is None or isinstance(callee.node, ast.Lambda) or callee.is_property:
            return None
        a = callee.node.args
        if a.vararg or a.kwarg or any(k.arg is None for k in call.keywords):
            return None
        pos = [p.arg for p in [*a.posonlyargs, *a.args]]
        if callee.cls is not None and callee.outer is None and not callee.is_staticmethod and pos:
            pos = pos[1:]
        init: dict[str, Tags] = {}
        values = list(argtags)
        i = 0
        for x, t in zip(call.args, values[: len(call.args)]):
            if isinstance(x, ast.Starred):
                for p in pos[i:]:  # f(*xs): every remaining positional parameter may receive an element of xs
                    init[p] = init.get(p, EMPTY) | t
                i = len(pos)
            elif i < len(pos):
                init[pos[i]] = t
                i += 1
        for p, t in []:
            init[p] = t
        for k, t in zip(call.keywords, values[len(call.args):]):
            init[k.arg] = t
        recv = self.of(call.func.value) if isinstance(call.func, ast.Attribute) else EMPTY
        sub_fn = Fn(self.fn.repo, callee)
        sub = Provenance(sub_fn, lambda c, a_: None, lambda x: _scalar(sub_fn, x), None, None, lambda c: _passes(sub_fn, c), init, self.depth + 1, recv)
        out = EMPTY
        found = False
        from core.loader import own_nodes

        for r in own_nodes(callee.node):
            if isinstance(r, ast.Return) and r.value is not None:
                found = True
                out |= sub.of(r.value)
        return out if found else None

    # ------------------------------------------------------------------ expressions
    def _ev(self, e: ast.AST, st: dict[str, Tags]) -> Tags:
        t = self._ev_inner(e, st)
        self.tags[id(e)] = self.tags.get(id(e), EMPTY) | t
        return t

    def _ev_inner(self, e: ast.AST, st: dict[str, Tags]) -> Tags:
        if isinstance(e, ast.Constant) or e is None:
            return EMPTY
        if isinstance(e, ast.Name):
            return st.get(e.id, EMPTY)
        if isinstance(e, ast.Attribute):
            fk = field_key(e)
            base = None
            if fk is not None and fk not in st:
                base = self._self_property(fk[5:], st)
            if base is None and fk is not None:
                self._ev(e.value, st) if not isinstance(e.value, ast.Name) else None
                base = self.get(st, fk)
            if base is None:
                base = self._ev(e.value, st)
            extra = EMPTY
            if self.attr_tags is not None:
                try:
                    extra = frozenset(self.attr_tags(e, base) or ())  # type: ignore[call-arg]
                except TypeError:
                    extra = frozenset(self.attr_tags(e) or ())
            return base | extra
        if isinstance(e, ast.Call):
            recv = EMPTY
            if isinstance(e.func, ast.Attribute):
                recv = self._ev(e.func.value, st)
            elif isinstance(e.func, ast.Name):
                recv = st.get(e.func.id, EMPTY)
            else:
                recv = self._ev(e.func, st)
            args = []
            pos = []
            for a in [*e.args, *[k.value for k in e.keywords]]:
                v = self._ev(a, st)
                pos.append(v)
                if not self.scalar(a):
                    args.append(v)
            src = self.source(e, pos)
            if src is not None:
                return frozenset(src)
            out = recv
            for v in args:
                out |= v
            if self.passes is not None and out and any(not t.startswith(("pre:", "via:", "acc:", "raw:")) for t in out):
                fname = e.func.id if isinstance(e.func, ast.Name) else e.func.attr if isinstance(e.func, ast.Attribute) else "?"
                if fname == "filter":
                    out |= {"via:filter:filter()"}
                elif not self.passes(e) and not (isinstance(e.func, ast.Attribute) and e.func.attr in MUTATORS):
                    got = self._through_helper(e, pos)
                    if got is not None:
                        return got
                    out |= {f"via:call:{fname}"}
            # in-place change of a tracked container / object
            if isinstance(e.func, ast.Attribute) and e.func.attr in MUTATORS:
                add = EMPTY
                for v in args:
                    add |= v
                fk = field_key(e.func.value)
                if fk is not None:
                    st[fk] = self.get(st, fk) | add
                else:
                    r = root_name(e.func.value)
                    if r is not None and r != "self":
                        st[r] = st.get(r, EMPTY) | add
                return EMPTY if e.func.attr not in ("pop", "setdefault", "popitem", "popleft") else recv
            return out
        if isinstance(e, (ast.Tuple, ast.List, ast.Set)):
            out = EMPTY
            for x in e.elts:
                out |= self._ev(x, st)
            return out
        if isinstance(e, ast.Dict):
            out = EMPTY
            for k, v in zip(e.keys, e.values):
                if k is not None:
                    kt = self._ev(k, st)
                    if not self._is_scalar(k):
                        out |= kt
                out |= self._ev(v, st)
            return out
        if isinstance(e, COMPS):
            inner = dict(st)
            for g in e.generators:
                self._bind(g.target, self._ev(g.iter, inner), None, inner)
                for c in g.ifs:
                    self._ev(c, inner)
            if isinstance(e, ast.DictComp):
                kt = self._ev(e.key, inner)
                return (EMPTY if self._is_scalar(e.key) else kt) | self._ev(e.value, inner)
            out = self._ev(e.elt, inner)
            if self.passes is not None and any(not t.startswith(("pre:", "via:", "acc:", "raw:")) for t in out):
                ifs = [c for g in e.generators for c in g.ifs]
                if ifs:
                    out |= {"via:filter:" + " ".join(ast.unparse(ifs[0]).split())[:80]}
                elif not isinstance(e.elt, ast.Name):
                    out |= {"via:map"}
            return out
        if isinstance(e, ast.IfExp):
            self._ev(e.test, st)
            return self._ev(e.body, st) | self._ev(e.orelse, st)
        if isinstance(e, ast.BoolOp):
            out = EMPTY
            for v in e.values:
                out |= self._ev(v, st)
            return out
        if isinstance(e, ast.BinOp):
            out = self._ev(e.left, st) | self._ev(e.right, st)
            if self.passes is not None and not isinstance(e.op, (ast.Add, ast.BitOr)) and any(not t.startswith(("pre:", "via:", "acc:", "raw:")) for t in out):
                out |= {"via:op"}
            return out
        if isinstance(e, ast.UnaryOp):
            t = self._ev(e.operand, st)
            return EMPTY if isinstance(e.op, ast.Not) else t
        if isinstance(e, ast.Compare):
            self._ev(e.left, st)
            for c in e.comparators:
                self._ev(c, st)
            return EMPTY
        if isinstance(e, ast.Subscript):
            self._ev(e.slice, st) if not isinstance(e.slice, ast.Slice) else None
            fk = field_key(e)
            if fk is not None:
                return self.get(st, fk)
            return self._ev(e.value, st)
        if isinstance(e, ast.Starred):
            return self._ev(e.value, st)
        if isinstance(e, ast.JoinedStr):
            out = EMPTY
            for v in e.values:
                if isinstance(v, ast.FormattedValue):
                    out |= self._ev(v.value, st)
            return out
        if isinstance(e, ast.NamedExpr):
            v = self._ev(e.value, st)
            self._bind(e.target, v, e.value, st)
            return v
        if isinstance(e, (ast.Await, ast.YieldFrom)):
            return self._ev(e.value, st)
        if isinstance(e, ast.Yield):
            return self._ev(e.value, st) if e.value is not None else EMPTY
        return EMPTY
