#!/venv/bin/python
"""Self-check of the C11 rules against the *accepted idioms*: every patch in engine/mutants/c11_accepted/ is a behaviour-preserving
re-spelling of a mechanism the rules look at (comprehension / helper / loop variants).  Each is applied to a scratch copy of the
current /repo tree (under tempfile.mkdtemp, removed afterwards) and the check must be silent on it.

    /venv/bin/python engine/rules/c11_selfcheck.py        exit 0 = silent on all accepted idioms

(The defective versions of the same idioms are mutants of the thorough tier: engine/mutants/c11_patches/.)
"""

from __future__ import annotations

import shutil
import subprocess
import sys
import tempfile
from pathlib import Path

HERE = Path(__file__).resolve().parent
sys.path.insert(0, str(HERE.parent))


def main() -> int:
    import check
    from core.loader import AnalysisError, repo_root

    bad = 0
    for patch in sorted((HERE.parent / "mutants" / "c11_accepted").glob("*.diff")):
        tmp = Path(tempfile.mkdtemp(prefix="pta-c11-accepted-"))
        try:
            shutil.copytree(repo_root() / "src", tmp / "src")
            if (repo_root() / "docs").is_dir():
                shutil.copytree(repo_root() / "docs", tmp / "docs")
            subprocess.run(["git", "init", "-q", "."], cwd=tmp, capture_output=True)
            r = subprocess.run(["git", "apply", "--whitespace=nowarn", str(patch)], cwd=tmp, capture_output=True, text=True)
            if r.returncode != 0:
                print(f"{patch.stem}: skipped (patch does not apply to the current tree)")
                continue
            try:
                res = check.analyse("C11", tmp)
                msgs = [f"{o.rule} {o.construct[-80:]} :: {o.detail[:120]}" for o in res.violations]
            except AnalysisError as e:
                msgs = [f"ANALYSIS-ERROR {e}"[:200]]
            if msgs:
                bad += 1
                print(f"{patch.stem}: ALARM")
                for m in msgs[:3]:
                    print("    " + m)
            else:
                print(f"{patch.stem}: silent")
        finally:
            shutil.rmtree(tmp, ignore_errors=True)
    return 1 if bad else 0


if __name__ == "__main__":
    sys.exit(main())
