"""C12 - rule algebra: duality, negation, decomposition, alias and monotonicity laws (relational, on the extracted tables).

For one subject s and one object o the laws are decided on the tables C01 extracts from the code:
  C12.DUAL    'A should (not) import B' and 'B should (not) be imported by A' issue the same explicit query with the same arguments
              (exchange parity 1) and judge it with the same direction-independent predicate
  C12.NEG     for a fixed except flag, should and should_not read the same source and judge it with complementary predicates
  C12.DECOMP  bucket-set(should_only, e) = bucket-set(should, e) + bucket-set(should_not, not e)
  C12.ALIAS   'should not import anything' is rewritten to 'should not import modules except <subject>'
  C12.MONO    every recorded pair is a function of one import edge and the hierarchy: no import edge extends a traversal outside the
              subject's subtree / the excluded objects, so adding an import never removes a recorded pair
"""

from __future__ import annotations

import ast

from core.guards import atoms_of, evaluate, show
from core.loader import AnalysisError, Repo, own_nodes
from core.report import Result

from . import c01, c03
from .tables import ATOMS, DETECTOR, LEGAL_POINTS, Inliner, bucket_wiring, issuing_conditions, method_mode, parse_language_doc, point_env, point_name


def _relabel(src: Result, dst: Result, rule_from: str, rule_to: str, only=None) -> int:
    n = 0
    for o in src.obligations:
        if o.rule == rule_from and (only is None or only(o)):
            dst.add(rule_to, o.construct, o.ok, o.detail, o.where, o.nontrivial, o.kind)
            n += 1
    return n


def run(repo: Repo) -> Result:
    res = Result("C12")
    res.explanation = (
        "Decides the algebraic laws on the decision tables extracted from the code (the same extraction C01 checks against the documentation): "
        "duality = identical explicit query after exactly one importer/importee exchange and a direction-independent predicate; negation = same "
        "source, complementary present/absent predicates with nothing filtered in between; decomposition = equality of bucket sets; alias = "
        "the rewrite of 'anything'; monotonicity = the searches' traversal never depends on import edges outside the subject's subtree and the "
        "excluded objects, so recorded pairs are monotone in the import relation (present buckets grow, absent buckets shrink)."
    )
    res.not_decided = "the laws for batched operands that are ancestors/descendants of one another beyond what the tables imply (set() collapsing and alias de-duplication intervene)."
    res.trusted_base = ["C01's table extraction (rules/tables.py)", "C15 (evaluation is a function of its arguments)"]
    parse_language_doc(repo)  # the oracle must still be readable (fail closed otherwise)
    inl = Inliner(repo)
    issues = issuing_conditions(repo, inl)
    grv, buckets = bucket_wiring(repo, inl)
    det = repo.cls(DETECTOR, "RuleViolationDetector")
    modes = {b.field: method_mode(repo, inl.T, det, b.method) for b in buckets}

    def active(verb: str, exc: bool) -> set:
        env = point_env(verb, exc)
        return {(b.source, modes[b.field][0]) for b in buckets if evaluate(b.flag, env)}

    # ---- duality
    for i in issues:
        extra = sorted(atoms_of(i.formula) - set(ATOMS))
        if i.kind == "explicit":
            res.add("C12.DUAL", f"{i.func.relpath}::{i.func.qualname}::explicit question independent of direction", not extra, "the explicit question is asked under a condition over (verb, except) only" if not extra else f"whether the explicit question is asked depends on {extra}: a rule and its dual no longer ask the same question", kind="decision-table")
    for b in buckets:
        extra = sorted(atoms_of(b.flag) - set(ATOMS))
        res.add("C12.DUAL", f"{grv.relpath}::{grv.qualname}::flag of {b.field}", not extra, f"{b.field} is gated by {show(b.flag)}" if not extra else f"{b.field} is gated by a direction-dependent flag {show(b.flag)}", kind="decision-table")
    tmp = Result("C01")
    c01.run_t1(repo, tmp, inl, parse_language_doc(repo)[0])
    c01.run_t4(repo, tmp, inl)
    _relabel(tmp, res, "C01.T4", "C12.DUAL")
    # judging helpers of explicit buckets must not read the direction (only the re-orientation does)
    for b in buckets:
        if b.source != "explicit":
            continue
        _mode, _gran, helper = modes[b.field]
        reads = [n for n in own_nodes(helper.node) if isinstance(n, ast.Attribute) and n.attr.startswith("rule_specified_with_importer")]
        res.add("C12.DUAL", f"{helper.relpath}::{helper.qualname}::predicate of {b.field} independent of direction", not reads, "the judging predicate does not look at the rule's direction" if not reads else "the judging predicate depends on the rule's direction: a rule and its dual can differ", kind="structural")
    # ---- negation
    for exc in (False, True):
        a, b_ = active("should", exc), active("should_not", exc)
        ok = len(a) == 1 and len(b_) == 1 and next(iter(a))[0] == next(iter(b_))[0] and {next(iter(a))[1], next(iter(b_))[1]} == {"absent", "present"}
        res.add("C12.NEG", f"{grv.relpath}::{grv.qualname}::should vs should_not{' except' if exc else ''}", ok, f"should judges {sorted(a)}, should_not judges {sorted(b_)}: same source, complementary predicates" if ok else f"should judges {sorted(a)} but should_not judges {sorted(b_)}: for one subject and one object the two verdicts are no longer complementary", kind="decision-table")
    for b in buckets:
        mode, gran, helper = modes[b.field]
        ok = (mode == "absent" and gran == "per-key") or (mode == "present" and gran == "per-pair")
        res.add("C12.NEG", f"{helper.relpath}::{helper.qualname}::{b.field} predicate", ok, f"{mode} mode, {gran}: 'empty list for the key' vs 'non-empty list' are exact complements" if ok else f"{b.field} is judged in {mode} mode {gran}: something filters between the query result and the judgement, so should/should_not are no longer complementary", kind="structural")
    # ---- decomposition
    for exc in (False, True):
        whole = active("should_only", exc)
        parts = active("should", exc) | active("should_not", not exc)
        res.add("C12.DECOMP", f"{grv.relpath}::{grv.qualname}::should_only{' except' if exc else ''}", whole == parts, f"should only{' except' if exc else ''} judges {sorted(whole)} = should{' except' if exc else ''} + should not{'' if exc else ' except'} {sorted(parts)}" if whole == parts else f"should only{' except' if exc else ''} judges {sorted(whole)}, but its two parts judge {sorted(parts)}", kind="decision-table")
    # both parts ask the questions the whole asks
    from .tables import asked_at

    for exc in (False, True):
        whole = {k for k in ("explicit", "other") if asked_at(issues, k, point_env("should_only", exc))}
        parts = {k for k in ("explicit", "other") if asked_at(issues, k, point_env("should", exc)) or asked_at(issues, k, point_env("should_not", not exc))}
        res.add("C12.DECOMP", f"{issues[0].func.relpath}::RuleMatcher::questions of should_only{' except' if exc else ''}", whole == parts, f"questions asked: whole {sorted(whole)}, parts {sorted(parts)}", kind="decision-table")
    # ---- alias
    tmp5 = Result("C01")
    c01.run_t5(repo, tmp5)
    _relabel(tmp5, res, "C01.T5", "C12.ALIAS", only=lambda o: "alias rewrite" in o.construct or "anything" in o.construct)
    # ---- monotonicity lemma
    tmps = Result("C01")
    c01.run_search(repo, tmps)
    _relabel(tmps, res, "C01.S", "C12.MONO", only=lambda o: "[strict descendants]" not in o.construct and "[subject not excluded" not in o.construct)
    tmp3 = Result("C03")
    c03.run_r1(repo, tmp3)
    _relabel(tmp3, res, "C03.R1", "C12.MONO")
    for rule, floor in (("C12.DUAL", 12), ("C12.NEG", 8), ("C12.DECOMP", 4), ("C12.ALIAS", 3), ("C12.MONO", 12)):
        res.floor(rule, floor, sum(1 for o in res.obligations if o.rule == rule))
    res.analysed["bucket_sets"] = {point_name(v, e): sorted(active(v, e)) for v, e in LEGAL_POINTS}
    return res
