"""C12 - rule algebra: duality, negation, decomposition, alias and monotonicity laws (relational, on the extracted tables).

For one subject s and one object o the laws are decided on the tables C01 extracts from the code (abstract interpretation of
Rule.assert_applies at the 6 legal points x 2 directions, rules/tables.py):
  C12.DUAL    'A should (not) import B' and 'B should (not) be imported by A' issue the same explicit query with the same arguments
              (exchange parity 1) and judge it with the same direction-independent predicate
  C12.NEG     for a fixed except flag, should and should_not read the same source and judge it with complementary predicates
  C12.DECOMP  bucket-set(should_only, e) = bucket-set(should, e) + bucket-set(should_not, not e)
  C12.ALIAS   'should not import anything' is rewritten to 'should not import modules except <subject>'
  C12.MONO    every recorded pair is a function of one import edge and the hierarchy: no import edge extends a traversal outside the
              subject's subtree / the excluded objects, so adding an import never removes a recorded pair
"""

from __future__ import annotations

from core.loader import AnalysisError, Repo
from core.report import Result

from . import c01, c03
from .common import where
from .tables import (
    EXPLICIT_QUERY, LEGAL_POINTS, Scenario, bucket_wiring, demand_run, parse_language_doc, plain_detector_class, plain_mode, point_name, point_taint, run_scenario, violations_class,
)


# obligations of the search model that say *which* nodes count (semantics of C01), not that the traversal is independent of the
# import edges it meets (monotonicity)
_NOT_MONO = ("[strict descendants]", "[subject not excluded", "[exempt set]", "[nothing else exempt]", "[every pair gets its imports]")


def _relabel(src: Result, dst: Result, rule_from: str, rule_to: str, only=None) -> int:
    n = 0
    for o in src.obligations:
        if o.rule == rule_from and (only is None or only(o)):
            dst.add(rule_to, o.construct, o.ok, o.detail, o.where, o.nontrivial, o.kind)
            n += 1
    for u in src.undecided:
        if u["rule"] == rule_from and not (rule_to == "C12.MONO" and any(t in u["construct"] for t in _NOT_MONO)):
            dst.undecide(rule_to, u["construct"], u["detail"], u["where"])
    return n


def _active(repo: Repo, verb: str, exc: bool, imp: bool) -> set:
    return {(b.source, b.mode) for b in demand_run(repo, Scenario(verb, exc, imp)).values() if not b.empty}


def _canon(text: str) -> str:
    """Iteration ids are allocated in evaluation order: rename them by first appearance so that two runs can be compared."""
    import re

    ids: dict[str, str] = {}

    def ren(m):
        return m.group(1) + ids.setdefault(m.group(2), str(len(ids) + 1))

    return re.sub(r"(val@|\bval|\bkey|\belem)(\d+)", ren, text)


def _shape(b) -> tuple:
    """What a bucket judges, independent of the orientation of the reported pair."""
    return (b.source, b.mode, b.gran, tuple(sorted((g.kind, _canon(c01.show(g.guard))) for g in b.groups)))


# --------------------------------------------------------------------------- duality: the same arguments, not only the same sides


def _ren(t, m: dict):
    if isinstance(t, tuple):
        if len(t) == 2 and t[0] == "root":
            return ("root", m.get(t[1], t[1]))
        return tuple(_ren(x, m) for x in t)
    return t


def _split_call(t: tuple) -> tuple[list, dict]:
    pos, kw = [], {}
    for x in t[2:]:
        if isinstance(x, tuple) and len(x) == 3 and x[0] == "kw":
            kw[x[1]] = x[2]
        else:
            pos.append(x)
    return pos, kw


def _is_const(t) -> bool:
    return isinstance(t, tuple) and len(t) == 2 and t[0] == "const"


def _option_diffs(t1, t2, m1: dict, m2: dict, out: list) -> bool:
    """Walks two argument terms in parallel (roots renamed by m1 / m2).  True when they are equal *up to constant options of calls of
    the same function* (a constant positional or keyword argument that differs or is given on one side only); the pairs of call
    terms that differ that way are collected in `out`.  False: the terms differ in another way (not comparable here)."""
    if _ren(t1, m1) == _ren(t2, m2):
        return True
    if not (isinstance(t1, tuple) and isinstance(t2, tuple) and t1 and t2 and t1[0] == t2[0]):
        return False
    if t1[0] == "call" and len(t1) >= 2 and len(t2) >= 2 and t1[1] == t2[1]:
        p1, k1 = _split_call(t1)
        p2, k2 = _split_call(t2)
        if len(p1) != len(p2):
            return False
        differs = False
        for a, b in zip(p1, p2):
            if _ren(a, m1) == _ren(b, m2):
                continue
            if _is_const(a) and _is_const(b):
                differs = True
            elif not _option_diffs(a, b, m1, m2, out):
                return False
        for k in {*k1, *k2}:
            a, b = k1.get(k), k2.get(k)
            if a is not None and b is not None and _ren(a, m1) == _ren(b, m2):
                continue
            if (a is None or _is_const(a)) and (b is None or _is_const(b)):
                differs = True
            elif a is None or b is None or not _option_diffs(a, b, m1, m2, out):
                return False
        if differs:
            out.append((t1, t2))
        return True
    if len(t1) != len(t2):
        return False
    return all(_option_diffs(a, b, m1, m2, out) for a, b in zip(t1, t2))


def _steps_to(term, target) -> list | None:
    """Constant subscripts that lead from a call's result to the value used (`convert(..)[0]`): [0]; None when the call's result
    is used in another way."""
    steps = []
    t = term
    while t != target:
        if isinstance(t, tuple) and len(t) == 3 and t[0] == "index" and _is_const(t[2]):
            steps.append(t[2][1])
            t = t[1]
        else:
            return None
    return list(reversed(steps))


def _deep(v, depth: int = 0) -> str:
    """A value with the conditions of its parts spelled out (what `term_of` leaves out)."""
    from .absint import Alt, Coll, DictV, Inst, Tup, show_term, term_of

    if depth > 6:
        return "..."
    if isinstance(v, Alt):
        return "alt(" + "; ".join(f"{c01.show(g)} -> {_deep(o, depth + 1)}" for g, o in v.options) + ")"
    if isinstance(v, Coll):
        return "[" + "; ".join(f"{_deep(x, depth + 1)} if {c01.show(g)}" for x, g in v.entries) + "]"
    if isinstance(v, DictV):
        return "{" + "; ".join(f"{_deep(k, depth + 1)}: {_deep(x, depth + 1)} if {c01.show(g)}" for k, x, g in v.entries) + "}"
    if isinstance(v, Tup):
        return "(" + ", ".join(_deep(x, depth + 1) for x in v.items) + ")"
    if isinstance(v, Inst):
        return f"{v.cls.name}(" + ", ".join(f"{k}={_deep(x, depth + 1)}" for k, x in sorted(v.fields.items())) + ")"
    return show_term(term_of(v))


def _canon_all(text: str) -> str:
    import re

    ids: dict[str, str] = {}
    return re.sub(r"(val@|\bval|\bkey|\belem|#)(\d+)", lambda m: m.group(1) + ids.setdefault(m.group(1)[-1:] + m.group(2), str(len(ids) + 1)), text)


def option_effect(repo: Repo, ev, steps: list) -> tuple[str, list]:
    """The value a recorded call yields (after the constant subscripts `steps`), interpreted inside the callee's module with the
    call's constant arguments kept and every other argument symbolic: (canonical text incl. the conditions of its parts, notes)."""
    from .absint import ClsV, Const, Fn, Interp, Sym, Tup
    from .tables import simple_helper

    callee = ev.callee
    home = callee.module.name
    I = Interp(repo, lambda f: f.module.name == home or ((f.cls is None or f.is_staticmethod) and f.outer is None and simple_helper(f)))

    def sym(i, a):
        return a if isinstance(a, Const) else Sym(("root", f"ARG{i}"), getattr(a, "cls", None) or "list")

    args = [sym(i, a) for i, a in enumerate(ev.args)]
    kwargs = {k: sym(k, a) for k, a in ev.kwargs.items()}
    if callee.cls is not None and callee.outer is None and not callee.is_staticmethod:
        fn = I.getattr(ClsV(callee.cls), callee.name, None, None) if callee.is_classmethod else Fn(callee, Sym(("root", "SELF"), callee.cls.fq))
    else:
        fn = Fn(callee)
    out = I.apply(fn, args, kwargs, None, None)
    for st in steps:
        if isinstance(out, Tup) and st.lstrip("-").isdigit() and -len(out.items) <= int(st) < len(out.items):
            out = out.items[int(st)]
        else:
            return _canon_all(_deep(out)) + f" [{'/'.join(steps)}]", list(I.notes)
    return _canon_all(_deep(out)), list(I.notes)


def _judged_per_key(repo: Repo, verb: str, exc: bool, imp: bool, kind: str) -> bool:
    """Is the answer of the `kind` question judged in *absent* mode at this point (every key - every converted module of the
    subject side paired with the other side - has to fulfil the requirement on its own)?  Only there is a different set of
    converted modules positive evidence: in present mode the realised pairs of a module's sub modules are found through the
    module itself, so dropping redundant matches can be harmless."""
    return any(not b.empty and b.source == kind and b.mode == "absent" for b in demand_run(repo, Scenario(verb, exc, imp)).values())


def _question(run, kind: str):
    return next((q for q in run.queries if (q.name == EXPLICIT_QUERY) == (kind == "explicit") and c01._sat(q.guard)), None)


def compare_question_arguments(repo: Repo, res: Result, rule: str, kind: str, run1, run2, m1: dict, m2: dict, said1: str, said2: str, law: str, seen: set, roles=(0, 1)) -> int:
    """Compares the arguments of the `kind` question of two evaluated rules, written as functions of the names in m1 / m2.
    Decided where the two terms differ only in *constant options* of a call of one function (a flag passed for one conversion but
    not for the other, a flag fed from the configuration): the callee is interpreted under both option sets; the law is broken
    when the value that reaches the question differs.  Terms that differ in any other way give no verdict.  Returns the number of
    argument pairs compared."""
    from .absint import show_term, term_of
    from .tables import bound_args

    q1, q2 = _question(run1, kind), _question(run2, kind)
    if q1 is None or q2 is None:
        return 0
    a1, a2 = bound_args(repo, q1), bound_args(repo, q2)
    if len(a1) < 2 or len(a2) < 2:
        return 0
    for i, role in ((0, "importers"), (1, "importees")):
        if i not in roles:
            continue
        t1, t2 = term_of(a1[i]), term_of(a2[i])
        pairs: list = []
        if _ren(t1, m1) == _ren(t2, m2) or not _option_diffs(t1, t2, m1, m2, pairs) or not pairs:
            continue
        for c1, c2 in pairs:
            key = (rule, _ren(c1, m1), _ren(c2, m2))
            if key in seen:
                continue
            seen.add(key)
            e1 = next((e for e in run1.interp.events if e.kind == "call" and e.result is not None and e.callee is not None and term_of(e.result) == c1), None)
            e2 = next((e for e in run2.interp.events if e.kind == "call" and e.result is not None and e.callee is not None and term_of(e.result) == c2), None)
            if e1 is None or e2 is None or e1.callee.fq != e2.callee.fq:
                continue
            steps = _steps_to(t1, c1)
            if steps != _steps_to(t2, c2):
                continue
            v1, n1 = option_effect(repo, e1, steps or [])
            v2, n2 = option_effect(repo, e2, steps or [])
            ev = e1 if len(c1) >= len(c2) else e2  # the call that carries the extra option
            cons = f"{ev.fi.relpath}::{ev.fi.qualname}::{e1.callee.name}(...) options [{role} @ {kind} question, {said1} / {said2}]"
            if v1 == v2:
                res.add(rule, cons, True, f"`{show_term(c1)[:90]}` / `{show_term(c2)[:90]}`: the differing constant option does not change the value that reaches the question", where(ev.fi, ev.node), kind="flow")
            elif n1 or n2:
                res.undecide(rule, cons, f"the {role} of the {kind} question are `{show_term(c1)[:100]}` for {said1} but `{show_term(c2)[:100]}` for {said2}, and {e1.callee.qualname} is not fully modelled ({'; '.join((n1 or n2)[:2])})", where(ev.fi, ev.node))
            else:
                res.add(
                    rule, cons, False,
                    f"the {role} of the {kind} question are obtained as `{show_term(_ren(c1, m1))[:110]}` for {said1} but as `{show_term(_ren(c2, m2))[:110]}` for {said2}, "
                    f"and inside {e1.callee.qualname} the differing option changes the result (`{_first_difference(v1, v2)}`); the answer is judged per converted module, so {law}",
                    where(ev.fi, ev.node), kind="flow",
                )
    return len(roles)


def run_same_arguments(repo: Repo, res: Result) -> None:
    """Duality: 'A should import B' and 'B should be imported by A' ask their questions with the same arguments - written as functions
    of the named importers X and importees Y (import rule: subjects = X, objects = Y; its dual: objects = X, subjects = Y), the i-th
    argument of the question is the same term.  Decomposition: 'should only [except]' asks the question it shares with 'should
    [except]' with the same arguments.  Both are decided by `compare_question_arguments`, at the points where the answer is judged
    per key (see `_judged_per_key`)."""
    seen: set = set()
    compared = 0
    site = None
    for verb, exc in LEGAL_POINTS:
        runs = {imp: run_scenario(repo, Scenario(verb, exc, imp)) for imp in (True, False)}
        for kind in ("explicit",):  # (the 'other' questions of a rule and of its mirror image are different questions)
            if not (_judged_per_key(repo, verb, exc, True, kind) and _judged_per_key(repo, verb, exc, False, kind)):
                continue
            site = site or _question(runs[True], kind)
            compared += compare_question_arguments(
                repo, res, "C12.DUAL", kind, runs[True], runs[False], {"S": "X", "O": "Y"}, {"O": "X", "S": "Y"},
                f"'X {verb.replace('_', ' ')} import{' except' if exc else ''} Y'", f"its dual 'Y {verb.replace('_', ' ')} be imported by{' except' if exc else ''} X'",
                "a rule and its dual no longer ask the same question", seen,
            )
    if site is not None:
        res.add("C12.DUAL", f"{site.fi.relpath}::{site.fi.qualname}::arguments as functions of (importers, importees)", True, f"{compared} argument pairs of a rule and its dual compared", where(site.fi, site.node), kind="flow", nontrivial=False)
    # decomposition: the whole and the part that shares its per-key question
    compared = 0
    site = None
    for exc in (False, True):
        for imp in (True, False):
            whole, part = run_scenario(repo, Scenario("should_only", exc, imp)), run_scenario(repo, Scenario("should", exc, imp))
            for kind in ("explicit", "other"):
                if not (_judged_per_key(repo, "should_only", exc, imp, kind) and _judged_per_key(repo, "should", exc, imp, kind)):
                    continue
                site = site or _question(whole, kind)
                d = "import" if imp else "be imported by"
                compared += compare_question_arguments(
                    repo, res, "C12.DECOMP", kind, whole, part, {}, {},
                    f"'should only {d}{' except' if exc else ''}'", f"its part 'should {d}{' except' if exc else ''}'",
                    "'should only' no longer requires of the same modules what 'should' requires: it can pass although one of its parts fails", seen,
                    # the keys of the 'other' answer are the rule subjects only (the other side is a set of excluded sub trees)
                    roles=(0, 1) if kind == "explicit" else ((0,) if imp else (1,)),
                )
    if site is not None:
        res.add("C12.DECOMP", f"{site.fi.relpath}::{site.fi.qualname}::arguments of the whole and of its part", True, f"{compared} argument pairs of 'should only' and 'should' compared", where(site.fi, site.node), kind="flow", nontrivial=False)


def _first_difference(a: str, b: str) -> str:
    """The first parts (`element if condition`) of two canonical value texts that differ."""
    pa, pb = a.split("; "), b.split("; ")
    for x, y in zip(pa, pb):
        if x != y:
            return f"{x[:150]}  <>  {y[:150]}"
    return f"{len(pa)} parts <> {len(pb)} parts"


def run(repo: Repo) -> Result:
    res = Result("C12")
    res.explanation = (
        "Decides the algebraic laws on the decision tables extracted from the code (the same extraction C01 checks against the documentation): "
        "duality = identical explicit query after exactly one importer/importee exchange and a direction-independent predicate; negation = same "
        "source, complementary present/absent predicates with nothing filtered in between; decomposition = equality of bucket sets; alias = "
        "the rewrite of 'anything'; monotonicity = the searches' traversal never depends on import edges outside the subject's subtree and the "
        "excluded objects, so recorded pairs are monotone in the import relation (present buckets grow, absent buckets shrink)."
    )
    res.not_decided = "the laws for batched operands that are ancestors/descendants of one another beyond what the tables imply (set() collapsing and alias de-duplication intervene)."
    res.trusted_base = ["C01's table extraction (rules/tables.py, rules/absint.py)", "C15 (evaluation is a function of its arguments)"]
    markers, _sem = parse_language_doc(repo)  # the oracle must still be readable (fail closed otherwise)
    grv, buckets = bucket_wiring(repo, None)
    viol = violations_class(repo)
    det = plain_detector_class(repo)

    def helper_of(field: str):
        b = next((x for x in buckets if x.field == field), None)
        return repo.lookup_method(det, b.method) if b is not None and b.method else None

    # ---- duality: whether a question is asked, which buckets are active and how they judge is the same for a rule and its dual
    for verb, exc in LEGAL_POINTS:
        a = {imp: c01._asked(run_scenario(repo, Scenario(verb, exc, imp))) for imp in (True, False)}
        site = next((q for imp in (True, False) for q in run_scenario(repo, Scenario(verb, exc, imp)).queries if q.name == EXPLICIT_QUERY), None)
        prefix = f"{site.fi.relpath}::{site.fi.qualname}" if site is not None else f"{grv.relpath}::{grv.qualname}"
        ok = ("explicit" in a[True]) == ("explicit" in a[False])
        c01._add(
            res, "C12.DUAL", f"{prefix}::explicit question independent of direction @ {point_name(verb, exc)}", ok,
            "the explicit question is asked for a rule iff it is asked for its dual" if ok else f"'{point_name(verb, exc)}': import rules ask {sorted(a[True])}, be-imported-by rules ask {sorted(a[False])}: a rule and its dual no longer ask the same question",
            where(site.fi, site.node) if site is not None else "", "decision-table", c01._asked_taint(*[run_scenario(repo, Scenario(verb, exc, imp)) for imp in (True, False)]),
        )
    for f in viol.ann_attrs:
        diff = []
        for verb, exc in LEGAL_POINTS:
            bi, bb = demand_run(repo, Scenario(verb, exc, True))[f], demand_run(repo, Scenario(verb, exc, False))[f]
            if bi.empty != bb.empty:
                diff.append(f"'{point_name(verb, exc)}': active only for {'import' if bb.empty else 'be-imported-by'} rules")
            elif not bi.empty and (bi.source, bi.mode, bi.gran) != (bb.source, bb.mode, bb.gran):
                diff.append(f"'{point_name(verb, exc)}': import rules judge {bi.source}/{bi.mode}/{bi.gran}, be-imported-by rules {bb.source}/{bb.mode}/{bb.gran}")
            elif not bi.empty and bi.source == "explicit" and _shape(bi) != _shape(bb):
                diff.append(f"'{point_name(verb, exc)}': import rules judge {bi.source}/{bi.mode}/{bi.gran}, be-imported-by rules {bb.source}/{bb.mode}/{bb.gran}")
        h = helper_of(f)
        prefix = f"{h.relpath}::{h.qualname}" if h is not None else f"{grv.relpath}::{grv.qualname}"
        c01._add(
            res, "C12.DUAL", f"{prefix}::predicate of {f} independent of direction", not diff,
            "flag and judging predicate do not look at the rule's direction (only the orientation of the reported pair does)" if not diff else f"{f} depends on the rule's direction: " + "; ".join(diff[:2]) + " - a rule and its dual can differ",
            where(h, h.node) if h is not None else where(grv, grv.node), "decision-table", next((t for v, e in LEGAL_POINTS for t in [point_taint(repo, v, e)] if t), ""),
        )
    tmp = Result("C01")
    c01.run_t4(repo, tmp, None)
    _relabel(tmp, res, "C01.T4", "C12.DUAL")
    run_same_arguments(repo, res)
    # ---- negation
    for exc in (False, True):
        for imp in (True, False):
            a, b_ = _active(repo, "should", exc, imp), _active(repo, "should_not", exc, imp)
            ok = len(a) == 1 and len(b_) == 1 and next(iter(a))[0] == next(iter(b_))[0] and {next(iter(a))[1], next(iter(b_))[1]} == {"absent", "present"}
            if not ok or not imp:
                break
        c01._add(
            res, "C12.NEG", f"{grv.relpath}::{grv.qualname}::should vs should_not{' except' if exc else ''}", ok,
            f"should judges {sorted(map(str, a))}, should_not judges {sorted(map(str, b_))}: same source, complementary predicates" if ok
            else f"should judges {sorted(map(str, a))} but should_not judges {sorted(map(str, b_))}: for one subject and one object the two verdicts are no longer complementary",
            where(grv, grv.node), "decision-table", point_taint(repo, "should", exc) or point_taint(repo, "should_not", exc),
        )
    for f in viol.ann_attrs:
        mode, gran, detail, und = plain_mode(repo, f)
        h = helper_of(f)
        prefix = f"{h.relpath}::{h.qualname}" if h is not None else f"{grv.relpath}::{grv.qualname}"
        ok = (mode, gran) in (("absent", "per-key"), ("present", "per-pair"))
        if mode is None:
            if und:
                res.undecide("C12.NEG", f"{prefix}::{f} predicate", und, where(h, h.node) if h is not None else where(grv, grv.node))
            continue  # never active: reported by the bucket-set comparisons (and by C01.T2)
        c01._add(
            res, "C12.NEG", f"{prefix}::{f} predicate", ok,
            f"{mode} mode, {gran}: 'empty list for the key' vs 'non-empty list' are exact complements" if ok
            else f"{f} is judged in {mode} mode {gran}: something filters between the query result and the judgement, so should/should_not are no longer complementary" + (f" [{detail}]" if detail else ""),
            where(h, h.node) if h is not None else where(grv, grv.node), "structural", und,
        )
    # premise of "'empty list for the key' vs 'non-empty list' are exact complements" (and of the bucket equalities below): every
    # requested key is present in the query result and holds its own search result. C11.R4 decides exactly that on the three public
    # queries; without it a pair missing from the result makes both 'should' and 'should not' pass (seeded_r12/C12-23).
    from . import c11

    tmp11 = Result("C11")
    c11.run_r4(repo, tmp11)
    n11 = _relabel(tmp11, res, "C11.R4", "C12.NEG", only=lambda o: "[all keys]" in o.construct or "[result per key]" in o.construct)
    if n11 < 6:
        raise AnalysisError(f"C12.NEG: only {n11} 'every key has its own entry' obligations found on the public queries (6 confirmed by hand)")
    # ---- decomposition
    for exc in (False, True):
        for imp in (True, False):
            whole = _active(repo, "should_only", exc, imp)
            parts = _active(repo, "should", exc, imp) | _active(repo, "should_not", not exc, imp)
            if whole != parts:
                break
        dtaint = point_taint(repo, "should_only", exc) or point_taint(repo, "should", exc) or point_taint(repo, "should_not", not exc)
        c01._add(
            res, "C12.DECOMP", f"{grv.relpath}::{grv.qualname}::should_only{' except' if exc else ''}", whole == parts,
            f"should only{' except' if exc else ''} judges {sorted(map(str, whole))} = should{' except' if exc else ''} + should not{'' if exc else ' except'} {sorted(map(str, parts))}" if whole == parts
            else f"should only{' except' if exc else ''} judges {sorted(map(str, whole))}, but its two parts judge {sorted(map(str, parts))}",
            where(grv, grv.node), "decision-table", dtaint,
        )
        # the predicates, not only the (source, mode) pairs, coincide: same granularity in the whole and in its parts
        for imp in (True, False):
            w = {(b.source, b.mode, b.gran) for b in demand_run(repo, Scenario("should_only", exc, imp)).values() if not b.empty}
            p = {(b.source, b.mode, b.gran) for v, e in (("should", exc), ("should_not", not exc)) for b in demand_run(repo, Scenario(v, e, imp)).values() if not b.empty}
            if w != p:
                break
        c01._add(
            res, "C12.DECOMP", f"{grv.relpath}::{grv.qualname}::predicates of should_only{' except' if exc else ''}", w == p,
            "the whole and its parts judge the same answers with the same predicates" if w == p
            else f"should only{' except' if exc else ''} judges {sorted(map(str, w))}, while should{' except' if exc else ''} / should not{'' if exc else ' except'} judge {sorted(map(str, p))}: 'should only' no longer passes exactly when both parts pass",
            where(grv, grv.node), "decision-table", dtaint,
        )
    # both parts ask the questions the whole asks
    for exc in (False, True):
        for imp in (True, False):
            whole = c01._asked(run_scenario(repo, Scenario("should_only", exc, imp)))
            parts = c01._asked(run_scenario(repo, Scenario("should", exc, imp))) | c01._asked(run_scenario(repo, Scenario("should_not", not exc, imp)))
            if whole != parts:
                break
        c01._add(
            res, "C12.DECOMP", f"{grv.relpath}::RuleMatcher::questions of should_only{' except' if exc else ''}", whole == parts, f"questions asked: whole {sorted(whole)}, parts {sorted(parts)}", "", "decision-table",
            c01._asked_taint(*[run_scenario(repo, Scenario(v, e, i)) for v, e in (("should_only", exc), ("should", exc), ("should_not", not exc)) for i in (True, False)]),
        )
    # ---- alias
    tmp5 = Result("C01")
    c01.run_t5(repo, tmp5)
    _relabel(tmp5, res, "C01.T5", "C12.ALIAS", only=lambda o: "alias" in o.construct or "anything" in o.construct)
    # ---- monotonicity lemma (search discipline; owned by the search model)
    try:
        tmps = Result("C01")
        c01.run_search(repo, tmps)
        _relabel(tmps, res, "C01.S", "C12.MONO", only=lambda o: not any(t in o.construct for t in _NOT_MONO))
        tmp3 = Result("C03")
        c03.run_r1(repo, tmp3)
        _relabel(tmp3, res, "C03.R1", "C12.MONO")
        mono_ok = True
    except AnalysisError as e:
        res.undecide("C12.MONO", "pytestarch/eval_structure/breadth_first_searches.py", f"search model: {e}")
        mono_ok = False
    for rule, floor in (("C12.DUAL", 12), ("C12.NEG", 8), ("C12.DECOMP", 4), ("C12.ALIAS", 3), ("C12.MONO", 12)):
        if rule == "C12.MONO" and not mono_ok:
            continue  # the search model gave up (reported as undecided above): the floor would only repeat that
        res.floor(rule, floor, sum(1 for o in res.obligations if o.rule == rule) + sum(1 for u in res.undecided if u["rule"] == rule))
    res.analysed["bucket_sets"] = {point_name(v, e): sorted(map(str, _active(repo, v, e, True))) for v, e in LEGAL_POINTS}
    return res
